(* WeeklyCalendar.__init__ as gen/SrcCal.v translates it from the source text (once per form of the
   arguments: a number with a list of weekdays; a dict weekday -> units) builds the same week table as
   the constructors of the model (mk_weekly_days, mk_weekly_dict of Cal/Calendar.v) and rejects the
   same arguments.

   The dict form needs two hypotheses, both stated in the theorem:
   - NoDup (map fst m): the translator reads `d.get(i)` as assoc_get (the LAST insertion of a key wins),
     the model as dict_get (the FIRST wins), and the code checks `units < 0` only on the entry it reads
     while the model checks every entry.  For a list with a repeated key the two differ
     (weekly_dict_repeated_key_differs below); a Python dict has no repeated keys.
   - nltb nzero nzero = false: for a weekday missing from the dict the code evaluates `0 < 0`
     (`units = units_per_day.get(i, 0); if units < 0: raise`), the model does not; with an arbitrary
     order on an abstract number type this has to be said (it holds for Z, Q and the floats). *)
From PJ Require Import Base.Prelude Cal.Calendar gen.SrcCal Cal.SrcCalEquiv.

Section Init.
Context {num : Type}.
Variables (nadd nsub nmul ndiv : num -> num -> num) (nzero : num).
Variable nltb : num -> num -> bool.
Variable nis0 : num -> bool.

Notation nneg := (nneg nzero nltb).

Definition table_of (r : res (cal num)) : res (list num) :=
  match r with Ok (Weekly _ _ tbl) => Ok tbl | Ok _ => Crash TypeError | Err => Err | Crash k => Crash k end.

(* i, i+1, ..., i+n-1 *)
Fixpoint zseq (i : Z) (n : nat) : list Z :=
  match n with O => [] | S n' => i :: zseq (i + 1) n' end.

Lemma zseq_week : zseq 0 (Z.to_nat (7 - 0)) = [0;1;2;3;4;5;6].
Proof. reflexivity. Qed.

(* ---- days form ---- *)
Lemma src_weekly_init_days_loop_eq st en days u n : forall i tbl,
  src_weekly_init_days_loop1 nzero st en days u n i tbl
  = Ok (tbl ++ map (fun j => if existsb (Z.eqb j) days then u else nzero) (zseq i n)).
Proof.
  induction n as [|n IH]; intros i tbl; cbn [src_weekly_init_days_loop1 zseq map].
  - rewrite app_nil_r. reflexivity.
  - destruct (existsb (Z.eqb i) days); rewrite IH, <- app_assoc; reflexivity.
Qed.

Theorem src_weekly_init_days_eq : forall st en days u,
  src_weekly_init_days nzero nltb st en days u = table_of (mk_weekly_days nzero nltb st en days u).
Proof.
  intros st en days u. unfold src_weekly_init_days, mk_weekly_days.
  rewrite src_check_working_days_eq, src_check_start_end_eq.
  unfold Calendar.nneg.
  destruct (forallb weekday_ok days); cbn [negb bind]; [|reflexivity].
  destruct (bad_interval st en); cbn [bind].
  - destruct (nltb u nzero); reflexivity.
  - destruct (nltb u nzero); [reflexivity|].
    rewrite src_weekly_init_days_loop_eq, zseq_week. reflexivity.
Qed.

(* ---- dict form ---- *)
Lemma assoc_get_fold_notin (m : list (Z * num)) i acc :
  ~ In i (map fst m) ->
  fold_left (fun a (kv : Z * num) => if Z.eqb (fst kv) i then Some (snd kv) else a) m acc = acc.
Proof.
  revert acc; induction m as [|[k v] m IH]; intros acc Hn; [reflexivity|].
  cbn [fold_left fst snd]. cbn [map fst In] in Hn.
  destruct (Z.eqb_spec k i) as [E|E]; [exfalso; apply Hn; left; exact E|].
  apply IH. intro Hin. apply Hn. right. exact Hin.
Qed.

Lemma assoc_get_dict_get (m : list (Z * num)) i :
  NoDup (map fst m) -> assoc_get Z.eqb m i = dict_get m i.
Proof.
  unfold assoc_get, dict_get.
  induction m as [|[k v] m IH]; intro Hnd; [reflexivity|].
  cbn [map fst] in Hnd. inversion Hnd as [|k' l' Hnotin Hnd']; subst.
  cbn [fold_left find fst snd].
  destruct (Z.eqb_spec k i) as [E|E].
  - subst k. apply assoc_get_fold_notin. exact Hnotin.
  - apply IH. exact Hnd'.
Qed.

Definition neg_at (m : list (Z * num)) (j : Z) : bool :=
  match dict_get m j with Some v => nneg v | None => false end.

Lemma src_weekly_init_dict_loop_eq st en m n :
  NoDup (map fst m) -> nltb nzero nzero = false ->
  forall i tbl,
  src_weekly_init_dict_loop1 nzero nltb st en m n i tbl
  = if existsb (neg_at m) (zseq i n) then Err
    else Ok (tbl ++ map (fun j => match dict_get m j with Some v => v | None => nzero end) (zseq i n)).
Proof.
  intros Hnd H00. induction n as [|n IH]; intros i tbl;
    cbn [src_weekly_init_dict_loop1 zseq map existsb].
  - rewrite app_nil_r. reflexivity.
  - rewrite (assoc_get_dict_get m i Hnd). unfold neg_at at 1. unfold Calendar.nneg.
    destruct (dict_get m i) as [v|].
    + destruct (nltb v nzero); cbn [orb]; [reflexivity|].
      rewrite IH, <- app_assoc. reflexivity.
    + rewrite H00. cbn [orb]. rewrite IH, <- app_assoc. reflexivity.
Qed.

Lemma weekday_ok_in_week k : weekday_ok k = true -> In k [0;1;2;3;4;5;6].
Proof.
  unfold weekday_ok. intro H. apply andb_prop in H. destruct H as [H0 H6].
  apply Z.leb_le in H0. apply Z.leb_le in H6. cbn [In]. lia.
Qed.

Lemma dict_get_in_nodup (m : list (Z * num)) k v :
  NoDup (map fst m) -> In (k, v) m -> dict_get m k = Some v.
Proof.
  unfold dict_get. induction m as [|[k' v'] m IH]; intros Hnd Hin; [destruct Hin|].
  cbn [map fst] in Hnd. inversion Hnd as [|a l Hnotin Hnd']; subst.
  cbn [find fst]. destruct Hin as [E|Hin].
  - inversion E; subst. rewrite Z.eqb_refl. reflexivity.
  - destruct (Z.eqb_spec k' k) as [E|E].
    + subst k'. exfalso. apply Hnotin. apply (in_map fst) in Hin. exact Hin.
    + apply IH; assumption.
Qed.

Lemma dict_get_some_in (m : list (Z * num)) k v :
  dict_get m k = Some v -> In (k, v) m.
Proof.
  unfold dict_get. destruct (find _ m) as [[k' v']|] eqn:F; [|discriminate].
  intro E. inversion E; subst. apply find_some in F. destruct F as [Hin Hk].
  cbn [fst] in Hk. apply Z.eqb_eq in Hk. subst k'. exact Hin.
Qed.

(* every key a weekday, no key repeated: some entry is negative iff one of the seven the code reads is *)
Lemma neg_entries_week (m : list (Z * num)) :
  NoDup (map fst m) -> forallb (fun kv => weekday_ok (fst kv)) m = true ->
  existsb (fun kv => nneg (snd kv)) m = existsb (neg_at m) [0;1;2;3;4;5;6].
Proof.
  intros Hnd Hwk. apply Bool.eq_iff_eq_true. rewrite !existsb_exists. split.
  - intros [[k v] [Hin Hneg]]. cbn [snd] in Hneg. exists k. split.
    + apply weekday_ok_in_week. rewrite forallb_forall in Hwk. apply (Hwk (k, v) Hin).
    + unfold neg_at. rewrite (dict_get_in_nodup m k v Hnd Hin). exact Hneg.
  - intros [j [_ Hneg]]. unfold neg_at in Hneg.
    destruct (dict_get m j) as [v|] eqn:G; [|discriminate].
    exists (j, v). split; [apply dict_get_some_in; exact G|exact Hneg].
Qed.

Lemma forallb_map_fst (m : list (Z * num)) :
  forallb weekday_ok (map fst m) = forallb (fun kv => weekday_ok (fst kv)) m.
Proof. induction m as [|kv m IH]; cbn [map forallb]; [reflexivity|]. rewrite IH. reflexivity. Qed.

Theorem src_weekly_init_dict_eq : forall st en m,
  NoDup (map fst m) -> nltb nzero nzero = false ->
  src_weekly_init_dict nzero nltb st en m = table_of (mk_weekly_dict nzero nltb st en m).
Proof.
  intros st en m Hnd H00. unfold src_weekly_init_dict, mk_weekly_dict.
  rewrite src_check_working_days_none, src_check_working_days_eq, src_check_start_end_eq.
  rewrite forallb_map_fst. cbn [bind].
  destruct (forallb (fun kv => weekday_ok (fst kv)) m) eqn:Hwk; cbn [negb bind].
  - rewrite (neg_entries_week m Hnd Hwk).
    destruct (bad_interval st en); cbn [bind].
    + destruct (existsb (neg_at m) _); reflexivity.
    + rewrite (src_weekly_init_dict_loop_eq st en m _ Hnd H00), zseq_week.
      destruct (existsb (neg_at m) _); reflexivity.
  - destruct (bad_interval st en); reflexivity.
Qed.

End Init.

(* ---- the hypotheses are needed, and the theorems are not vacuous (Z as the number type) ---- *)

(* a repeated key: the code reads the last entry (2, not negative) and accepts, the model reads the first and
   checks every entry (-1 is negative) and rejects - this is why NoDup is a hypothesis *)
Example weekly_dict_repeated_key_differs :
  src_weekly_init_dict 0 Z.ltb None None [(0, -1); (0, 2)] = Ok [2;0;0;0;0;0;0]
  /\ table_of (mk_weekly_dict 0 Z.ltb None None [(0, -1); (0, 2)]) = Err.
Proof. split; vm_compute; reflexivity. Qed.

Example weekly_days_instance :
  src_weekly_init_days 0 Z.ltb (Some 0) (Some 5) [0;2;4] 8 = Ok [8;0;8;0;8;0;0]
  /\ src_weekly_init_days 0 Z.ltb (Some 6) (Some 5) [0;2;4] 8 = Err
  /\ src_weekly_init_days 0 Z.ltb None None [0;7] 8 = Err
  /\ src_weekly_init_days 0 Z.ltb None None [0] (-8) = Err.
Proof. repeat split; vm_compute; reflexivity. Qed.

Example weekly_dict_instance :
  NoDup (map fst [(4, 6); (0, 8)]) /\ Z.ltb 0 0 = false
  /\ src_weekly_init_dict 0 Z.ltb None (Some 5) [(4, 6); (0, 8)] = Ok [8;0;0;0;6;0;0]
  /\ src_weekly_init_dict 0 Z.ltb None None [(4, -6); (0, 8)] = Err
  /\ src_weekly_init_dict 0 Z.ltb None None [(7, 6)] = Err.
Proof.
  split; [|repeat split; vm_compute; reflexivity].
  cbn [map fst]. constructor; [cbn [In]; lia|]. constructor; [cbn [In]; tauto|]. constructor.
Qed.

Print Assumptions src_weekly_init_days_eq.
Print Assumptions src_weekly_init_dict_eq.
