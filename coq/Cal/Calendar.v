(* Model of src/pjplan/calendar.py (calendars and their combinators) and of
   src/pjplan/resource.py (Resource.get_available_units, get_nearest_availability_date).
   Parametric in the number type: the statements of C17 do not depend on it.
   Dates are integer microseconds (Base/Prelude.v). No proofs in this file. *)
From PJ Require Export Base.Prelude.

Section Cal.
Context {num : Type}.
Variables (nadd nsub nmul ndiv : num -> num -> num) (nzero : num).
Variable nltb : num -> num -> bool.      (* Python  x < y  *)
Variable nis0 : num -> bool.             (* Python  x == 0, the divisor test of float division *)

Definition npos (x : num) : bool := nltb nzero x.   (* x > 0 *)
Definition nneg (x : num) : bool := nltb x nzero.   (* x < 0 *)

Inductive cal :=
| Weekly (st en : option Z) (h : list num)     (* units of weekday 0..6 *)
| Dated (m : list (Z * num))                   (* DirectCalendar: day number -> units, later entries win *)
| Fixed (u : num) (st en : option Z)
| Disj (cs : list cal)
| Sum (cs : list cal)
| Sub (cs : list cal)
| Mul (cs : list cal)
| Div (cs : list cal).

Definition before (t : Z) (b : option Z) : bool := match b with Some s => t <? s | None => false end.
Definition after (t : Z) (b : option Z) : bool := match b with Some e => e <? t | None => false end.

Definition dated_lookup (m : list (Z * num)) (d : Z) : option num :=
  fold_left (fun acc kv => if fst kv =? d then Some (snd kv) else acc) m None.

(* the accumulating loops of the four arithmetic combinators; operands without information are skipped *)
Definition acc_step (op : num -> num -> res num) (acc : option num) (v : option num) : res (option num) :=
  match v with
  | None => Ok acc
  | Some x => match acc with
              | None => Ok (Some x)
              | Some a => do r <- op a x; Ok (Some r)
              end
  end.

Fixpoint acc_loop (op : num -> num -> res num) (acc : option num) (vs : list (res (option num)))
  : res (option num) :=
  match vs with
  | [] => Ok acc
  | r :: vs' => do v <- r; do acc' <- acc_step op acc v; acc_loop op acc' vs'
  end.

Definition total (f : num -> num -> num) : num -> num -> res num := fun a b => Ok (f a b).
Definition divide (a b : num) : res num := if nis0 b then Crash ZeroDivisionError else Ok (ndiv a b).

(* WorkCalendarDisjunction: the first operand that reports a positive value; later operands are not asked *)
Fixpoint disj_loop (vs : list (unit -> res (option num))) : res (option num) :=
  match vs with
  | [] => Ok None
  | r :: vs' => do v <- r tt;
                match v with
                | Some u => if npos u then Ok (Some u) else disj_loop vs'
                | None => disj_loop vs'
                end
  end.

Fixpoint eval (c : cal) (t : Z) : res (option num) :=
  match c with
  | Weekly st en h =>
      if before t st then Ok None else if after t en then Ok None
      else Ok (Some (nth (Z.to_nat (weekday t)) h nzero))
  | Dated m => Ok (dated_lookup m (day_of t))
  | Fixed u st en =>
      if before t st then Ok (Some nzero) else if after t en then Ok (Some nzero) else Ok (Some u)
  | Disj cs => disj_loop (map (fun c _ => eval c t) cs)
  | Sum cs => acc_loop (total nadd) None (map (fun c => eval c t) cs)
  | Sub cs => do r <- acc_loop (total nsub) None (map (fun c => eval c t) cs);
              match r with
              | None => Ok None
              | Some u => if nneg u then Ok None else Ok (Some u)
              end
  | Mul cs => acc_loop (total nmul) None (map (fun c => eval c t) cs)
  | Div cs => acc_loop divide None (map (fun c => eval c t) cs)
  end.

(* ---- constructors as the library validates them (RuntimeError = Err) ---- *)
Definition bad_interval (st en : option Z) : bool :=
  match st, en with Some s, Some e => e <? s | _, _ => false end.

Definition weekday_ok (d : Z) : bool := (0 <=? d) && (d <=? 6).

(* WeeklyCalendar(start, end, days=[...], units_per_day=u) *)
Definition mk_weekly_days (st en : option Z) (days : list Z) (u : num) : res cal :=
  if negb (forallb weekday_ok days) then Err
  else if nneg u then Err
  else if bad_interval st en then Err
  else Ok (Weekly st en (map (fun i => if existsb (Z.eqb i) days then u else nzero) [0;1;2;3;4;5;6])).

Definition dict_get (m : list (Z * num)) (i : Z) : option num :=
  match find (fun kv => fst kv =? i) m with Some kv => Some (snd kv) | None => None end.

(* WeeklyCalendar(start, end, units_per_day={weekday: units}) *)
Definition mk_weekly_dict (st en : option Z) (m : list (Z * num)) : res cal :=
  if negb (forallb (fun kv => weekday_ok (fst kv)) m) then Err
  else if existsb (fun kv => nneg (snd kv)) m then Err
  else if bad_interval st en then Err
  else Ok (Weekly st en (map (fun i => match dict_get m i with Some v => v | None => nzero end) [0;1;2;3;4;5;6])).

Definition mk_fixed (u : num) (st en : option Z) : res cal :=
  if nneg u then Err else if bad_interval st en then Err else Ok (Fixed u st en).

(* DirectCalendar({datetime: units}): keys are normalised to their day *)
Definition mk_dated (m : list (Z * num)) : res cal :=
  if existsb (fun kv => nneg (snd kv)) m then Err
  else Ok (Dated (map (fun kv => (day_of (fst kv), snd kv)) m)).

(* DirectCalendar.set_units: merges, new entries win *)
Definition dated_set (c : cal) (m : list (Z * num)) : res cal :=
  match c with
  | Dated m0 => if existsb (fun kv => nneg (snd kv)) m then Err
                else Ok (Dated (m0 ++ map (fun kv => (day_of (fst kv), snd kv)) m))
  | _ => Crash AttributeError
  end.

(* the right operand of + - * / | : a calendar, or a number promoted to a constant calendar *)
Inductive operand := OCal (c : cal) | ONum (x : num).
Definition promote (o : operand) : res cal :=
  match o with OCal c => Ok c | ONum x => mk_fixed x None None end.

Inductive opk := OpOr | OpAdd | OpSub | OpMul | OpDiv.

Definition nary (k : opk) (cs : list cal) : cal :=
  match k with OpOr => Disj cs | OpAdd => Sum cs | OpSub => Sub cs | OpMul => Mul cs | OpDiv => Div cs end.

Definition binop (k : opk) (a : cal) (o : operand) : res cal :=
  match k, o with
  | OpDiv, ONum x => if nis0 x then Err else do b <- promote o; Ok (nary k [a; b])
  | _, _ => do b <- promote o; Ok (nary k [a; b])
  end.

(* ---- Resource ---- *)
Definition units (c : cal) (t : Z) : res num :=
  do v <- eval c t; Ok (match v with Some u => u | None => nzero end).

(* IResource.get_nearest_availability_date(start, direction, max_days) for a resource whose
   get_available_units is [u]; running out of the horizon is the RuntimeError of the code *)
Fixpoint search (u : Z -> res num) (dir : Z) (max_days : nat) (t : Z) : res Z :=
  match max_days with
  | O => Err
  | S n =>
      do x <- u (if dir <? 0 then t - DAY else t);
      if npos x then Ok t else search u dir n (t + dir * DAY)
  end.

End Cal.

Arguments cal : clear implicits.
Arguments operand : clear implicits.
