(* Instance of Cal/CalendarCap.v for exact rationals: the hypotheses of [units_nonneg] hold of Q
   with  x < y := negb (Qle_bool y x)  and  x == 0 := Qeq_bool x 0. *)
From PJ Require Import Base.Prelude Cal.Calendar Cal.CalendarProofs Cal.CalendarCap.
From Coq Require Import QArith.
Local Open Scope Z_scope.

Definition qltb (x y : Q) : bool := negb (Qle_bool y x).
Definition qis0 (x : Q) : bool := Qeq_bool x 0%Q.

Definition qcal := cal Q.
Definition qeval : qcal -> Z -> res (option Q) := @eval Q Qplus Qminus Qmult Qdiv 0%Q qltb qis0.
Definition qunits : qcal -> Z -> res Q := @units Q Qplus Qminus Qmult Qdiv 0%Q qltb qis0.
Definition nonneg_qcal : qcal -> Prop := nonneg_cal 0%Q Qle.

Lemma q_nn_add a b : (0 <= a)%Q -> (0 <= b)%Q -> (0 <= a + b)%Q.
Proof. intros Ha Hb. apply (Qplus_le_compat 0 a 0 b Ha Hb). Qed.

Lemma q_nn_div a b : (0 <= a)%Q -> (0 <= b)%Q -> qis0 b = false -> (0 <= a / b)%Q.
Proof.
  intros Ha Hb _. unfold Qdiv. apply Qmult_le_0_compat; [exact Ha | apply Qinv_le_0_compat; exact Hb].
Qed.

Lemma q_nn_not_neg u : qltb u 0%Q = false -> (0 <= u)%Q.
Proof. unfold qltb. intro E. apply negb_false_iff in E. apply Qle_bool_iff. exact E. Qed.

Theorem qeval_nonneg c t v : nonneg_qcal c -> qeval c t = Ok (Some v) -> (0 <= v)%Q.
Proof.
  apply (eval_nonneg Qplus Qminus Qmult Qdiv 0%Q qltb qis0 Qle);
    [apply Qle_refl | exact q_nn_add | exact Qmult_le_0_compat | exact q_nn_div | exact q_nn_not_neg].
Qed.

Theorem qunits_nonneg c t v : nonneg_qcal c -> qunits c t = Ok v -> (0 <= v)%Q.
Proof.
  apply (units_nonneg Qplus Qminus Qmult Qdiv 0%Q qltb qis0 Qle);
    [apply Qle_refl | exact q_nn_add | exact Qmult_le_0_compat | exact q_nn_div | exact q_nn_not_neg].
Qed.

(* the day-function theorem needs no fact about numbers: it holds of Q as of every [num] *)
Theorem qunits_day_start c : aligned_cal c -> forall t, qunits c t = qunits c (day_start t).
Proof. exact (units_day_start Qplus Qminus Qmult Qdiv 0%Q qltb qis0 c). Qed.
