(* The definitions of gen/SrcCal.v are generated on every run from the *source text* of
   src/pjplan/calendar.py and src/pjplan/resource.py (harness/srcgen).  This file proves each of them equal,
   for all inputs, to the hand-written model of Cal/Calendar.v about which the statements of C17 (and, through
   the capacity function, of C02-C09 and C14) are proved.  When the code changes, these proofs are re-checked
   against what the code says now. *)
From PJ Require Import Base.Prelude Cal.Calendar gen.SrcCal.

Section Equiv.
Context {num : Type}.
Variables (nadd nsub nmul ndiv : num -> num -> num) (nzero : num).
Variable nltb : num -> num -> bool.
Variable nis0 : num -> bool.

Notation eval := (eval nadd nsub nmul ndiv nzero nltb nis0).
Notation units := (units nadd nsub nmul ndiv nzero nltb nis0).
Notation search := (search nzero nltb).
Notation divide := (divide ndiv nis0).

(* a calendar as the translated code sees it: an object answering get_available_units(date) *)
Definition as_fn (c : cal num) : Z -> res (option num) := fun t => eval c t.

Lemma src_day_start_eq d : src_day_start d = Ok (day_start d).
Proof. reflexivity. Qed.

(* ---- the four accumulating combinators ---- *)
Lemma src_sum_loop_eq cs0 cs t acc :
  src_sum_units_loop1 nadd cs0 t (map as_fn cs) acc
  = acc_loop (total nadd) acc (map (fun c => eval c t) cs).
Proof.
  revert acc; induction cs as [|c cs IH]; intro acc; cbn; [reflexivity|].
  unfold as_fn at 1. destruct (eval c t) as [[x|]| |]; cbn; try reflexivity; [|apply IH].
  destruct acc as [a|]; cbn; apply IH.
Qed.

Lemma src_sum_units_eq cs t : src_sum_units nadd (map as_fn cs) t = eval (Sum cs) t.
Proof. apply src_sum_loop_eq. Qed.

Lemma src_mul_loop_eq cs0 cs t acc :
  src_mul_units_loop1 nmul cs0 t (map as_fn cs) acc
  = acc_loop (total nmul) acc (map (fun c => eval c t) cs).
Proof.
  revert acc; induction cs as [|c cs IH]; intro acc; cbn; [reflexivity|].
  unfold as_fn at 1. destruct (eval c t) as [[x|]| |]; cbn; try reflexivity; [|apply IH].
  destruct acc as [a|]; cbn; apply IH.
Qed.

Lemma src_mul_units_eq cs t : src_mul_units nmul (map as_fn cs) t = eval (Mul cs) t.
Proof. apply src_mul_loop_eq. Qed.

Lemma src_div_loop_eq cs0 cs t acc :
  src_div_units_loop1 ndiv nis0 cs0 t (map as_fn cs) acc
  = acc_loop divide acc (map (fun c => eval c t) cs).
Proof.
  revert acc; induction cs as [|c cs IH]; intro acc; cbn; [reflexivity|].
  unfold as_fn at 1. destruct (eval c t) as [[x|]| |]; cbn; try reflexivity; [|apply IH].
  destruct acc as [a|]; cbn; [|apply IH].
  unfold sdivide, Calendar.divide. destruct (nis0 x); cbn; [reflexivity|apply IH].
Qed.

Lemma src_div_units_eq cs t : src_div_units ndiv nis0 (map as_fn cs) t = eval (Div cs) t.
Proof. apply src_div_loop_eq. Qed.

Lemma src_sub_loop_eq cs0 cs t acc :
  src_sub_units_loop1 nsub nzero nltb cs0 t (map as_fn cs) acc
  = (do r <- acc_loop (total nsub) acc (map (fun c => eval c t) cs);
     match r with
     | None => Ok None
     | Some u => if nneg nzero nltb u then Ok None else Ok (Some u)
     end).
Proof.
  revert acc; induction cs as [|c cs IH]; intro acc; cbn; [reflexivity|].
  unfold as_fn at 1. destruct (eval c t) as [[x|]| |]; cbn; try reflexivity; [|apply IH].
  destruct acc as [a|]; cbn; apply IH.
Qed.

Lemma src_sub_units_eq cs t : src_sub_units nsub nzero nltb (map as_fn cs) t = eval (Sub cs) t.
Proof. apply src_sub_loop_eq. Qed.

(* ---- disjunction: later operands are not asked once one is positive ---- *)
Lemma src_disj_loop_eq cs0 cs t :
  src_disj_units_loop1 nzero nltb cs0 t (map as_fn cs)
  = disj_loop nzero nltb (map (fun c _ => eval c t) cs).
Proof.
  induction cs as [|c cs IH]; cbn; [reflexivity|].
  unfold as_fn at 1. destruct (eval c t) as [[x|]| |]; cbn; try reflexivity; [|apply IH].
  unfold npos. destruct (nltb nzero x); [reflexivity|apply IH].
Qed.

Lemma src_disj_units_eq cs t : src_disj_units nzero nltb (map as_fn cs) t = eval (Disj cs) t.
Proof. apply src_disj_loop_eq. Qed.

(* ---- leaf calendars ---- *)
Lemma src_fixed_units_eq u st en t : src_fixed_units nzero u st en t = eval (Fixed u st en) t.
Proof.
  unfold src_fixed_units; cbn. unfold before, after.
  destruct st as [s|], en as [e|]; rewrite ?Z.gtb_ltb; try reflexivity;
    destruct (t <? s); reflexivity.
Qed.

Lemma src_weekly_units_eq st en h t : src_weekly_units nzero st en h t = eval (Weekly st en h) t.
Proof.
  unfold src_weekly_units; cbn. unfold before, after.
  destruct st as [s|], en as [e|]; rewrite ?Z.gtb_ltb; try reflexivity;
    destruct (t <? s); reflexivity.
Qed.

(* the dict of a DirectCalendar is keyed by the midnight of the day; the model keys it by the day number *)
Definition by_midnight (m : list (Z * num)) : list (Z * num) := map (fun kv => (DAY * fst kv, snd kv)) m.

Lemma assoc_get_by_midnight m d acc :
  fold_left (fun a kv => if Z.eqb (fst kv) (DAY * d) then Some (snd kv) else a) (by_midnight m) acc
  = fold_left (fun a (kv : Z * num) => if fst kv =? d then Some (snd kv) else a) m acc.
Proof.
  revert acc; induction m as [|[k v] m IH]; intro acc; [reflexivity|].
  unfold by_midnight in *. cbn [map fold_left fst snd].
  replace (DAY * k =? DAY * d) with (k =? d); [apply IH|].
  unfold DAY. destruct (Z.eqb_spec k d) as [->|N]; symmetry; [apply Z.eqb_refl|].
  apply Z.eqb_neq. lia.
Qed.

Lemma src_direct_units_eq m t : src_direct_units (by_midnight m) t = eval (Dated m) t.
Proof.
  unfold src_direct_units, src_day_start. cbn [bind eval]. unfold assoc_get, dated_lookup, day_start, day_of.
  rewrite assoc_get_by_midnight.
  destruct (fold_left _ m None); reflexivity.
Qed.

(* ---- Resource.get_available_units ---- *)
Lemma src_resource_units_eq c t : src_resource_units nzero (as_fn c) t = units c t.
Proof.
  unfold src_resource_units, Calendar.units, as_fn.
  destruct (eval c t) as [[x|]| |]; reflexivity.
Qed.

(* ---- IResource.get_nearest_availability_date ---- *)
Lemma src_nearest_loop_eq (u : Z -> res num) t0 dir max_days n :
  forall t step, n = Z.to_nat (max_days - step) ->
  src_nearest_loop1 nzero nltb u t0 dir max_days (S n) t step = search u dir n t.
Proof.
  induction n as [|n IH]; intros t step Hn.
  - cbn [src_nearest_loop1 Calendar.search].
    destruct (Z.ltb_spec step max_days); [lia|reflexivity].
  - cbn [Calendar.search]. remember (S n) as m eqn:Em. cbn [src_nearest_loop1].
    destruct (Z.ltb_spec step max_days); [|lia].
    assert (Hn' : n = Z.to_nat (max_days - (step + 1))) by lia.
    unfold npos.
    destruct (dir <? 0).
    + replace (t - 1 * DAY) with (t - DAY) by lia.
      destruct (u (t - DAY)) as [x| |]; cbn [bind]; try reflexivity.
      destruct (nltb nzero x); [reflexivity|]. subst m. apply IH, Hn'.
    + destruct (u t) as [x| |]; cbn [bind]; try reflexivity.
      destruct (nltb nzero x); [reflexivity|]. subst m. apply IH, Hn'.
Qed.

Lemma src_nearest_eq (u : Z -> res num) t dir max_days :
  src_nearest nzero nltb u t dir max_days = search u dir (Z.to_nat max_days) t.
Proof. unfold src_nearest. apply src_nearest_loop_eq. f_equal; lia. Qed.

(* ---- constructor validation ---- *)
Lemma src_fixed_init_eq u st en :
  src_fixed_init nzero nltb u st en
  = match mk_fixed nzero nltb u st en with Ok _ => Ok tt | Err => Err | Crash k => Crash k end.
Proof.
  unfold src_fixed_init, mk_fixed, nneg, bad_interval.
  destruct (nltb u nzero); [reflexivity|].
  destruct st as [s|], en as [e|]; try reflexivity.
  rewrite Z.gtb_ltb. destruct (e <? s); reflexivity.
Qed.

Lemma src_check_start_end_eq st en :
  src_check_start_end st en = if bad_interval st en then Err else Ok tt.
Proof.
  unfold src_check_start_end, bad_interval.
  destruct st as [s|], en as [e|]; try reflexivity.
  rewrite Z.gtb_ltb. destruct (e <? s); reflexivity.
Qed.

Lemma src_check_working_days_loop_eq wd0 wd1 l :
  src_check_working_days_loop1 wd0 wd1 l = if forallb weekday_ok l then Ok tt else Err.
Proof.
  induction l as [|v l IH]; cbn [src_check_working_days_loop1 forallb]; [reflexivity|].
  unfold weekday_ok at 1. rewrite Z.gtb_ltb.
  destruct (Z.ltb_spec v 0) as [H0|H0], (Z.ltb_spec 6 v) as [H6|H6];
    destruct (Z.leb_spec 0 v), (Z.leb_spec v 6); cbn; try lia; try reflexivity; apply IH.
Qed.

Lemma src_check_working_days_eq days :
  src_check_working_days (Some days) = if forallb weekday_ok days then Ok tt else Err.
Proof. apply src_check_working_days_loop_eq. Qed.

Lemma src_check_working_days_none : src_check_working_days None = Ok tt.
Proof. reflexivity. Qed.

End Equiv.
