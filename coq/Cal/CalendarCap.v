(* Calendar expressions as capacity tables of the schedulers.

   The scheduler theorems (C02-C09, C14) are stated for an arbitrary capacity function
   cap : resource -> day -> Z with 0 <= cap.  This file proves, for the calendar model of C17,
   the two facts that the scheduler harness otherwise only asserts case by case:

   (ii) non-negativity: an expression whose leaf values (weekly units, dated units, fixed units,
        promoted scalars = Fixed leaves) are >= 0 never reports a negative amount;
   (i)  day function: an expression whose validity bounds are day aligned (start = a midnight,
        end = the last microsecond of a day, because the code compares the raw datetime and the
        end bound is inclusive) reports the same amount at every time of a day.

   Generic in the number type; the algebraic facts needed for (ii) are Section hypotheses,
   discharged for Z at the end of this file and for Q in CalendarCapQ.v.  (i) needs no fact
   about numbers at all. *)
From PJ Require Import Base.Prelude Cal.Calendar Cal.CalendarProofs.

(* ---------------------------------------------------------------------------------------- *)
(* predicates over all leaves of an expression, induction through the operand lists           *)
(* ---------------------------------------------------------------------------------------- *)
Section CalAll.
Context {num : Type}.
Notation cal := (cal num).

Section Ind.
Variable P : cal -> Prop.
Hypothesis HW : forall st en h, P (Weekly st en h).
Hypothesis HD : forall m, P (Dated m).
Hypothesis HF : forall u st en, P (Fixed u st en).
Hypothesis HDisj : forall cs, Forall P cs -> P (Disj cs).
Hypothesis HSum : forall cs, Forall P cs -> P (Sum cs).
Hypothesis HSub : forall cs, Forall P cs -> P (Sub cs).
Hypothesis HMul : forall cs, Forall P cs -> P (Mul cs).
Hypothesis HDiv : forall cs, Forall P cs -> P (Div cs).

Fixpoint cal_ind_nested (c : cal) : P c :=
  match c with
  | Weekly st en h => HW st en h
  | Dated m => HD m
  | Fixed u st en => HF u st en
  | Disj cs => HDisj cs ((fix go (l : list cal) : Forall P l :=
      match l with [] => Forall_nil P | x :: r => Forall_cons x (cal_ind_nested x) (go r) end) cs)
  | Sum cs => HSum cs ((fix go (l : list cal) : Forall P l :=
      match l with [] => Forall_nil P | x :: r => Forall_cons x (cal_ind_nested x) (go r) end) cs)
  | Sub cs => HSub cs ((fix go (l : list cal) : Forall P l :=
      match l with [] => Forall_nil P | x :: r => Forall_cons x (cal_ind_nested x) (go r) end) cs)
  | Mul cs => HMul cs ((fix go (l : list cal) : Forall P l :=
      match l with [] => Forall_nil P | x :: r => Forall_cons x (cal_ind_nested x) (go r) end) cs)
  | Div cs => HDiv cs ((fix go (l : list cal) : Forall P l :=
      match l with [] => Forall_nil P | x :: r => Forall_cons x (cal_ind_nested x) (go r) end) cs)
  end.
End Ind.

(* [cal_all PW PD PF c]: every weekly / dated / fixed leaf of [c] satisfies its predicate *)
Section All.
Variable PW : option Z -> option Z -> list num -> Prop.
Variable PD : list (Z * num) -> Prop.
Variable PF : num -> option Z -> option Z -> Prop.

Fixpoint cal_all (c : cal) : Prop :=
  match c with
  | Weekly st en h => PW st en h
  | Dated m => PD m
  | Fixed u st en => PF u st en
  | Disj cs | Sum cs | Sub cs | Mul cs | Div cs =>
      (fix all (l : list cal) : Prop :=
         match l with [] => True | x :: r => cal_all x /\ all r end) cs
  end.

Lemma cal_all_list (cs : list cal) :
  (fix all (l : list cal) : Prop := match l with [] => True | x :: r => cal_all x /\ all r end) cs
  <-> Forall cal_all cs.
Proof.
  induction cs as [|x r IH].
  - split; [intros _; constructor | intros _; exact I].
  - split.
    + intros [Hx Hr]. constructor; [exact Hx | apply IH; exact Hr].
    + intros H. inversion H as [|? ? Hx Hr]; subst. split; [exact Hx | apply IH; exact Hr].
Qed.

Lemma cal_all_nary k cs : cal_all (nary k cs) <-> Forall cal_all cs.
Proof. destruct k; cbn [nary cal_all]; apply cal_all_list. Qed.

(* boolean twin, for evaluation on concrete expressions *)
Variable bW : option Z -> option Z -> list num -> bool.
Variable bD : list (Z * num) -> bool.
Variable bF : num -> option Z -> option Z -> bool.

Fixpoint cal_allb (c : cal) : bool :=
  match c with
  | Weekly st en h => bW st en h
  | Dated m => bD m
  | Fixed u st en => bF u st en
  | Disj cs | Sum cs | Sub cs | Mul cs | Div cs =>
      (fix all (l : list cal) : bool :=
         match l with [] => true | x :: r => cal_allb x && all r end) cs
  end.

Lemma cal_allb_list (cs : list cal) :
  (fix all (l : list cal) : bool := match l with [] => true | x :: r => cal_allb x && all r end) cs
  = forallb cal_allb cs.
Proof. induction cs as [|x r IH]; [reflexivity|]. cbn [forallb]. rewrite <- IH. reflexivity. Qed.

Hypothesis bW_sound : forall st en h, bW st en h = true -> PW st en h.
Hypothesis bD_sound : forall m, bD m = true -> PD m.
Hypothesis bF_sound : forall u st en, bF u st en = true -> PF u st en.

Lemma cal_allb_sound c : cal_allb c = true -> cal_all c.
Proof.
  assert (L : forall cs, Forall (fun c => cal_allb c = true -> cal_all c) cs ->
                         forallb cal_allb cs = true -> Forall cal_all cs).
  { induction 1 as [|x r Hx _ IH]; cbn [forallb]; intro E; constructor.
    - apply Hx. apply andb_true_iff in E. tauto.
    - apply IH. apply andb_true_iff in E. tauto. }
  induction c as [st en h | m | u st en | cs IH | cs IH | cs IH | cs IH | cs IH] using cal_ind_nested;
    cbn [cal_allb cal_all]; try rewrite cal_allb_list; try rewrite cal_all_list; auto.
Qed.
End All.
End CalAll.

(* ---------------------------------------------------------------------------------------- *)
(* (ii) non-negativity                                                                       *)
(* ---------------------------------------------------------------------------------------- *)
Section NonNeg.
Context {num : Type}.
Variables (nadd nsub nmul ndiv : num -> num -> num) (nzero : num).
Variable nltb : num -> num -> bool.
Variable nis0 : num -> bool.
Variable nle : num -> num -> Prop.

Notation cal := (cal num).
Notation eval := (eval nadd nsub nmul ndiv nzero nltb nis0).
Notation units := (units nadd nsub nmul ndiv nzero nltb nis0).
Notation nn := (nle nzero).

(* every configured amount of the expression is >= 0; scalars are [Fixed x None None] leaves *)
Definition nonneg_cal : cal -> Prop :=
  cal_all (fun _ _ h => Forall (fun x => nn x) h)
          (fun m => Forall (fun kv => nn (snd kv)) m)
          (fun u _ _ => nn u).

(* what is needed of the numbers: an order in which zero, sums, products and quotients by a
   non-zero divisor of non-negatives are non-negative, and "not (u < 0)" means "0 <= u"
   (true of Z and Q; false of binary64 because of NaN) *)
Hypothesis nn_zero : nn nzero.
Hypothesis nn_add : forall a b, nn a -> nn b -> nn (nadd a b).
Hypothesis nn_mul : forall a b, nn a -> nn b -> nn (nmul a b).
Hypothesis nn_div : forall a b, nn a -> nn b -> nis0 b = false -> nn (ndiv a b).
Hypothesis nn_not_neg : forall u, nltb u nzero = false -> nn u.

Definition nnopt (v : option num) : Prop := match v with Some x => nn x | None => True end.
Definition nnres (r : res (option num)) : Prop := match r with Ok v => nnopt v | _ => True end.

Lemma acc_loop_nn (op : num -> num -> res num) :
  (forall a x r, nn a -> nn x -> op a x = Ok r -> nn r) ->
  forall vs acc, Forall nnres vs -> nnopt acc -> nnres (acc_loop op acc vs).
Proof.
  intros Hop vs; induction vs as [|r vs IH]; intros acc HF Hacc; cbn [acc_loop].
  - exact Hacc.
  - inversion HF as [|? ? Hr HF']; subst.
    destruct r as [v| |k]; cbn [bind]; try exact I.
    destruct v as [x|]; cbn [acc_step bind].
    + destruct acc as [a|]; cbn [bind].
      * destruct (op a x) as [r| |k] eqn:E; cbn [bind]; try exact I.
        apply IH; [exact HF'|]. cbn [nnopt]. exact (Hop a x r Hacc Hr E).
      * apply IH; [exact HF' | exact Hr].
    + apply IH; [exact HF' | exact Hacc].
Qed.

Lemma disj_loop_nn (vs : list (unit -> res (option num))) :
  Forall (fun f => nnres (f tt)) vs -> nnres (disj_loop nzero nltb vs).
Proof.
  induction 1 as [|f vs Hf _ IH]; cbn [disj_loop]; [exact I|].
  destruct (f tt) as [v| |k]; cbn [bind]; try exact I.
  destruct v as [u|]; [|exact IH].
  destruct (npos nzero nltb u); [exact Hf | exact IH].
Qed.

Lemma Forall_nth_default {A} (P : A -> Prop) (l : list A) (d : A) (n : nat) :
  Forall P l -> P d -> P (nth n l d).
Proof.
  intros H Hd; revert n; induction H as [|x l Hx _ IH]; intros [|n]; cbn [nth]; auto.
Qed.

Lemma dated_lookup_nn (m : list (Z * num)) d :
  Forall (fun kv => nn (snd kv)) m -> nnopt (dated_lookup m d).
Proof.
  unfold dated_lookup. generalize (@None num) (I : nnopt None).
  induction m as [|kv m IH]; intros acc Hacc HF; cbn [fold_left]; [exact Hacc|].
  inversion HF as [|? ? Hkv HF']; subst. apply IH; [|exact HF'].
  destruct (fst kv =? d); [exact Hkv | exact Hacc].
Qed.

Lemma evals_nn (cs : list cal) t :
  Forall (fun c => nonneg_cal c -> forall t, nnres (eval c t)) cs -> Forall nonneg_cal cs ->
  Forall nnres (map (fun c => eval c t) cs).
Proof.
  induction 1 as [|c cs Hc _ IH]; intro HN; cbn [map]; constructor;
    inversion HN as [|? ? Hn HN']; subst; [apply Hc; exact Hn | apply IH; exact HN'].
Qed.

Theorem eval_nn c : nonneg_cal c -> forall t, nnres (eval c t).
Proof.
  induction c as [st en h | m | u st en | cs IH | cs IH | cs IH | cs IH | cs IH] using cal_ind_nested;
    intros HN t; cbn [Calendar.eval].
  - destruct (before t st); [exact I|]. destruct (after t en); [exact I|].
    cbn [nnres nnopt]. apply Forall_nth_default; [exact HN | exact nn_zero].
  - cbn [nnres]. apply dated_lookup_nn. exact HN.
  - destruct (before t st); [exact nn_zero|]. destruct (after t en); [exact nn_zero | exact HN].
  - apply (cal_all_nary _ _ _ OpOr) in HN. apply disj_loop_nn.
    clear -IH HN. induction IH as [|c cs Hc _ IH']; cbn [map]; constructor;
      inversion HN as [|? ? Hn HN']; subst; [apply Hc; exact Hn | apply IH'; exact HN'].
  - apply (cal_all_nary _ _ _ OpAdd) in HN. apply acc_loop_nn; [| apply evals_nn; assumption | exact I].
    intros a x r Ha Hx E. unfold total in E. inversion E; subst. apply nn_add; assumption.
  - (* a difference that is not negative is non-negative, whatever the operands were *)
    destruct (acc_loop _ _ _) as [r| |k]; cbn [bind]; try exact I.
    destruct r as [u|]; [|exact I].
    destruct (nneg nzero nltb u) eqn:E; [exact I|]. cbn [nnres nnopt]. apply nn_not_neg. exact E.
  - apply (cal_all_nary _ _ _ OpMul) in HN. apply acc_loop_nn; [| apply evals_nn; assumption | exact I].
    intros a x r Ha Hx E. unfold total in E. inversion E; subst. apply nn_mul; assumption.
  - apply (cal_all_nary _ _ _ OpDiv) in HN. apply acc_loop_nn; [| apply evals_nn; assumption | exact I].
    intros a x r Ha Hx E. unfold divide in E. destruct (nis0 x) eqn:Ez; [discriminate|].
    inversion E; subst. apply nn_div; assumption.
Qed.

(* a calendar never reports a negative amount *)
Theorem eval_nonneg c t v : nonneg_cal c -> eval c t = Ok (Some v) -> nn v.
Proof. intros HN E. pose proof (eval_nn c HN t) as H. rewrite E in H. exact H. Qed.

(* nor does the resource built on it (None |-> 0) *)
Theorem units_nonneg c t v : nonneg_cal c -> units c t = Ok v -> nn v.
Proof.
  intros HN E. unfold Calendar.units in E. pose proof (eval_nn c HN t) as H.
  destruct (eval c t) as [o| |k]; cbn [bind] in E; try discriminate.
  inversion E; subst. destruct o as [u|]; [exact H | exact nn_zero].
Qed.

(* ---- whatever the library's constructors accept is non-negative ---- *)
Notation nneg := (nneg nzero nltb).

Theorem mk_fixed_nonneg u st en c : mk_fixed nzero nltb u st en = Ok c -> nonneg_cal c.
Proof.
  unfold mk_fixed. destruct (nneg u) eqn:Hu; [discriminate|].
  destruct (bad_interval st en); [discriminate|]. intro E; inversion E; subst.
  cbn. apply nn_not_neg. exact Hu.
Qed.

Theorem mk_weekly_days_nonneg st en days u c :
  mk_weekly_days nzero nltb st en days u = Ok c -> nonneg_cal c.
Proof.
  unfold mk_weekly_days. destruct (negb _); [discriminate|].
  destruct (nneg u) eqn:Hu; [discriminate|]. destruct (bad_interval st en); [discriminate|].
  intro E; inversion E; subst. unfold nonneg_cal; cbn [cal_all map].
  apply nn_not_neg in Hu.
  repeat constructor; match goal with |- nn (if ?b then _ else _) => destruct b; assumption end.
Qed.

Lemma dict_get_nn (m : list (Z * num)) i v :
  existsb (fun kv => nneg (snd kv)) m = false -> dict_get m i = Some v -> nn v.
Proof.
  intros Hm. unfold dict_get. destruct (find _ m) as [kv|] eqn:Ef; [|discriminate].
  intro E; inversion E; subst. apply find_some in Ef. destruct Ef as [Hin _].
  apply nn_not_neg. rewrite existsb_false_forall in Hm. exact (Hm kv Hin).
Qed.

Theorem mk_weekly_dict_nonneg st en m c :
  mk_weekly_dict nzero nltb st en m = Ok c -> nonneg_cal c.
Proof.
  unfold mk_weekly_dict. destruct (negb _); [discriminate|].
  destruct (existsb _ m) eqn:Hm; [discriminate|]. destruct (bad_interval st en); [discriminate|].
  intro E; inversion E; subst. unfold nonneg_cal; cbn [cal_all map].
  repeat constructor;
    match goal with |- nn (match dict_get m ?i with _ => _ end) =>
      destruct (dict_get m i) as [v|] eqn:Eg; [exact (dict_get_nn m i v Hm Eg) | exact nn_zero] end.
Qed.

Lemma normalised_nn (m : list (Z * num)) :
  existsb (fun kv => nneg (snd kv)) m = false ->
  Forall (fun kv => nn (snd kv)) (map (fun kv => (day_of (fst kv), snd kv)) m).
Proof.
  rewrite existsb_false_forall. intro H. apply Forall_forall. intros kv Hin.
  apply in_map_iff in Hin. destruct Hin as [kv0 [<- Hin0]]. cbn [snd]. apply nn_not_neg. exact (H kv0 Hin0).
Qed.

Theorem mk_dated_nonneg m c : mk_dated nzero nltb m = Ok c -> nonneg_cal c.
Proof.
  unfold mk_dated. destruct (existsb _ m) eqn:Hm; [discriminate|].
  intro E; inversion E; subst. unfold nonneg_cal; cbn [cal_all]. apply normalised_nn. exact Hm.
Qed.

Theorem dated_set_nonneg c0 m c :
  nonneg_cal c0 -> dated_set nzero nltb c0 m = Ok c -> nonneg_cal c.
Proof.
  destruct c0 as [| m0 | | | | | |]; cbn [dated_set]; try discriminate.
  intros H0. destruct (existsb _ m) eqn:Hm; [discriminate|].
  intro E; inversion E; subst. unfold nonneg_cal in *; cbn [cal_all] in *.
  apply Forall_app. split; [exact H0 | apply normalised_nn; exact Hm].
Qed.

Theorem binop_nonneg k a o c :
  nonneg_cal a -> (forall b, o = OCal b -> nonneg_cal b) ->
  binop nzero nltb nis0 k a o = Ok c -> nonneg_cal c.
Proof.
  intros Ha Ho E.
  assert (Hb : forall b, promote nzero nltb o = Ok b -> nonneg_cal (nary k [a; b])).
  { intros b Hp. apply cal_all_nary. constructor; [exact Ha|]. constructor; [|constructor].
    destruct o as [b'|x]; cbn [promote] in Hp.
    - inversion Hp; subst. apply Ho. reflexivity.
    - exact (mk_fixed_nonneg _ _ _ _ Hp). }
  unfold binop in E.
  assert (E' : (do b <- promote nzero nltb o; Ok (nary k [a; b])) = Ok c).
  { destruct k; try exact E. destruct o as [b'|x]; [exact E|]. destruct (nis0 x); [discriminate | exact E]. }
  destruct (promote nzero nltb o) as [b| |kk]; cbn [bind] in E'; try discriminate.
  inversion E'; subst. apply Hb. reflexivity.
Qed.

End NonNeg.

(* ---------------------------------------------------------------------------------------- *)
(* (i) the capacity is a function of the day                                                 *)
(* ---------------------------------------------------------------------------------------- *)
(* The code compares the raw datetime with the bounds:  date < start  and  date > end.  Hence
   the answer is the same all day exactly when no bound falls strictly inside a day:
   start = 00:00 of a day; end = 23:59:59.999999 of a day (the end bound is inclusive, so an end
   written as a midnight makes 00:00 of that day valid and every later instant of it invalid). *)
Definition st_aligned (b : option Z) : Prop :=
  match b with Some s => s mod DAY = 0 | None => True end.
Definition en_aligned (b : option Z) : Prop :=
  match b with Some e => (e + 1) mod DAY = 0 | None => True end.
Definition bounds_aligned (st en : option Z) : Prop := st_aligned st /\ en_aligned en.

Definition bounds_alignedb (st en : option Z) : bool :=
  match st with Some s => s mod DAY =? 0 | None => true end &&
  match en with Some e => (e + 1) mod DAY =? 0 | None => true end.

Lemma bounds_alignedb_sound st en : bounds_alignedb st en = true -> bounds_aligned st en.
Proof.
  unfold bounds_alignedb, bounds_aligned. intro H. apply andb_true_iff in H. destruct H as [H1 H2].
  split; [destruct st | destruct en]; cbn; try exact I; apply Z.eqb_eq; assumption.
Qed.

Lemma before_day_start t st : st_aligned st -> before (day_start t) st = before t st.
Proof.
  destruct st as [s|]; [|reflexivity]. cbn [st_aligned before]. intro H. unfold day_start.
  destruct (Z.ltb_spec (DAY * (t / DAY)) s) as [A|A], (Z.ltb_spec t s) as [B|B]; try reflexivity;
    exfalso; unfold DAY in *; Z.div_mod_to_equations; lia.
Qed.

Lemma after_day_start t en : en_aligned en -> after (day_start t) en = after t en.
Proof.
  destruct en as [e|]; [|reflexivity]. cbn [en_aligned after]. intro H. unfold day_start.
  destruct (Z.ltb_spec e (DAY * (t / DAY))) as [A|A], (Z.ltb_spec e t) as [B|B]; try reflexivity;
    exfalso; unfold DAY in *; Z.div_mod_to_equations; lia.
Qed.

Lemma day_of_day_start' t : day_of (day_start t) = day_of t.
Proof. unfold day_start. apply day_of_day_start. Qed.

Lemma weekday_day_start t : weekday (day_start t) = weekday t.
Proof. unfold weekday. rewrite day_of_day_start'. reflexivity. Qed.

Lemma day_start_midnight d : day_start (DAY * d) = DAY * d.
Proof. unfold day_start. fold (day_of (DAY * d)). rewrite day_of_day_start. reflexivity. Qed.

Section DayFunction.
Context {num : Type}.
Variables (nadd nsub nmul ndiv : num -> num -> num) (nzero : num).
Variable nltb : num -> num -> bool.
Variable nis0 : num -> bool.
Notation cal := (cal num).
Notation eval := (eval nadd nsub nmul ndiv nzero nltb nis0).
Notation units := (units nadd nsub nmul ndiv nzero nltb nis0).

Definition aligned_cal : cal -> Prop :=
  cal_all (fun st en _ => bounds_aligned st en) (fun _ => True) (fun _ st en => bounds_aligned st en).

Definition aligned_calb : cal -> bool :=
  cal_allb (fun st en _ => bounds_alignedb st en) (fun _ => true) (fun _ st en => bounds_alignedb st en).

Lemma aligned_calb_sound c : aligned_calb c = true -> aligned_cal c.
Proof.
  apply cal_allb_sound; auto using bounds_alignedb_sound.
Qed.

Lemma evals_day (cs : list cal) t :
  Forall (fun c => aligned_cal c -> forall t, eval c t = eval c (day_start t)) cs ->
  Forall aligned_cal cs ->
  map (fun c => eval c t) cs = map (fun c => eval c (day_start t)) cs.
Proof.
  induction 1 as [|c cs Hc _ IH]; intro HA; cbn [map]; [reflexivity|].
  inversion HA as [|? ? Ha HA']; subst. rewrite (Hc Ha t), (IH HA'). reflexivity.
Qed.

Theorem eval_day_start c : aligned_cal c -> forall t, eval c t = eval c (day_start t).
Proof.
  induction c as [st en h | m | u st en | cs IH | cs IH | cs IH | cs IH | cs IH] using cal_ind_nested;
    intros HA t; cbn [Calendar.eval].
  - destruct HA as [Hs He]. rewrite (before_day_start t st Hs), (after_day_start t en He), weekday_day_start.
    reflexivity.
  - rewrite day_of_day_start'. reflexivity.
  - destruct HA as [Hs He]. rewrite (before_day_start t st Hs), (after_day_start t en He). reflexivity.
  - apply (cal_all_nary _ _ _ OpOr) in HA. f_equal.
    clear -IH HA. induction IH as [|c cs Hc _ IH']; cbn [map]; [reflexivity|].
    inversion HA as [|? ? Ha HA']; subst. rewrite (Hc Ha t), (IH' HA'). reflexivity.
  - apply (cal_all_nary _ _ _ OpAdd) in HA. rewrite (evals_day cs t IH HA). reflexivity.
  - apply (cal_all_nary _ _ _ OpSub) in HA. rewrite (evals_day cs t IH HA). reflexivity.
  - apply (cal_all_nary _ _ _ OpMul) in HA. rewrite (evals_day cs t IH HA). reflexivity.
  - apply (cal_all_nary _ _ _ OpDiv) in HA. rewrite (evals_day cs t IH HA). reflexivity.
Qed.

Theorem units_day_start c : aligned_cal c -> forall t, units c t = units c (day_start t).
Proof. intros HA t. unfold Calendar.units. rewrite (eval_day_start c HA t). reflexivity. Qed.

(* two instants of the same day see the same calendar *)
Corollary eval_same_day c t t' : aligned_cal c -> day_of t = day_of t' -> eval c t = eval c t'.
Proof.
  intros HA E. rewrite (eval_day_start c HA t), (eval_day_start c HA t'). unfold day_start.
  unfold day_of in E. rewrite E. reflexivity.
Qed.

End DayFunction.

(* ---------------------------------------------------------------------------------------- *)
(* instance Z (exact integers, floor division) and the capacity table of the schedulers      *)
(* ---------------------------------------------------------------------------------------- *)
Definition zcal := cal Z.
Definition zeval : zcal -> Z -> res (option Z) := @eval Z Z.add Z.sub Z.mul Z.div 0 Z.ltb (Z.eqb 0).
Definition zunits : zcal -> Z -> res Z := @units Z Z.add Z.sub Z.mul Z.div 0 Z.ltb (Z.eqb 0).

Definition nonneg_zcal : zcal -> Prop := nonneg_cal 0 Z.le.

Definition nonneg_zcalb : zcal -> bool :=
  cal_allb (fun _ _ h => forallb (fun x => 0 <=? x) h)
           (fun m => forallb (fun kv => 0 <=? snd kv) m)
           (fun u _ _ => 0 <=? u).

Lemma nonneg_zcalb_sound c : nonneg_zcalb c = true -> nonneg_zcal c.
Proof.
  apply cal_allb_sound.
  - intros _ _ h H. apply Forall_forall. intros x Hx. rewrite forallb_forall in H. apply Z.leb_le. exact (H x Hx).
  - intros m H. apply Forall_forall. intros x Hx. rewrite forallb_forall in H. apply Z.leb_le. exact (H x Hx).
  - intros u _ _ H. apply Z.leb_le. exact H.
Qed.

Lemma z_nn_div a b : 0 <= a -> 0 <= b -> (0 =? b) = false -> 0 <= a / b.
Proof. intros Ha Hb E. apply Z.eqb_neq in E. apply Z.div_pos; lia. Qed.

Lemma z_nn_not_neg u : (u <? 0) = false -> 0 <= u.
Proof. intro E. apply Z.ltb_ge in E. exact E. Qed.

Theorem zeval_nonneg c t v : nonneg_zcal c -> zeval c t = Ok (Some v) -> 0 <= v.
Proof.
  apply (eval_nonneg Z.add Z.sub Z.mul Z.div 0 Z.ltb (Z.eqb 0) Z.le);
    [lia | intros; lia | intros; nia | exact z_nn_div | exact z_nn_not_neg].
Qed.

Theorem zunits_nonneg c t v : nonneg_zcal c -> zunits c t = Ok v -> 0 <= v.
Proof.
  apply (units_nonneg Z.add Z.sub Z.mul Z.div 0 Z.ltb (Z.eqb 0) Z.le);
    [lia | intros; lia | intros; nia | exact z_nn_div | exact z_nn_not_neg].
Qed.

(* the table the schedulers are given: resource r, day d |-> what the resource reports at 00:00 of d
   (a lookup that raises - only ZeroDivisionError is possible - counts as 0) *)
Definition cap_of_cals (cs : nat -> zcal) : nat -> Z -> Z :=
  fun r d => match zunits (cs r) (DAY * d) with Ok v => v | _ => 0 end.

(* the hypothesis [cap_nonneg] of the scheduler theorems, for every table of non-negative expressions *)
Theorem cap_of_cals_nonneg (cs : nat -> zcal) : (forall r, nonneg_zcal (cs r)) -> forall r d, 0 <= cap_of_cals cs r d.
Proof.
  intros H r d. unfold cap_of_cals. destruct (zunits (cs r) (DAY * d)) as [v| |k] eqn:E; try lia.
  exact (zunits_nonneg _ _ _ (H r) E).
Qed.

(* under day alignment, whatever the resource reports at any instant is the table entry of that day *)
Theorem cap_of_cals_any_time (cs : nat -> zcal) :
  (forall r, aligned_cal (cs r)) ->
  forall r t v, zunits (cs r) t = Ok v -> zunits (cs r) t = Ok (cap_of_cals cs r (day_of t)).
Proof.
  intros H r t v E. unfold cap_of_cals. fold (day_start t).
  unfold zunits in *. rewrite <- (units_day_start _ _ _ _ _ _ _ (cs r) (H r) t). rewrite E. reflexivity.
Qed.

(* and the lookup raises at an instant iff it raises at the midnight of its day *)
Theorem cap_of_cals_outcome (cs : nat -> zcal) :
  (forall r, aligned_cal (cs r)) -> forall r t, zunits (cs r) t = zunits (cs r) (DAY * day_of t).
Proof. intros H r t. exact (units_day_start _ _ _ _ _ _ _ (cs r) (H r) t). Qed.

(* a nested expression used by the non-vacuity example of Props_C17.v:
   (Mon-Fri 8 during January 2024 | 4 on Saturday 2024-01-06) * 2 - 16 on the holiday Monday 2024-01-08;
   day 19723 = 2024-01-01, validity bounds at 00:00 and at 23:59:59.999999 *)
Definition cap_example : zcal :=
  Sub [Mul [Disj [Weekly (Some (DAY * 19723)) (Some (DAY * 19754 - 1)) [8;8;8;8;8;0;0];
                  Dated [(19728, 4)]];
            Fixed 2 None None];
       Fixed 16 (Some (DAY * 19730)) (Some (DAY * 19731 - 1))].

(* ---------------------------------------------------------------------------------------- *)
(* a lookup can raise only through [/]: an expression without it always answers              *)
(* ---------------------------------------------------------------------------------------- *)
Section DivFree.
Context {num : Type}.
Notation cal := (cal num).

Fixpoint div_free (c : cal) : Prop :=
  match c with
  | Weekly _ _ _ | Dated _ | Fixed _ _ _ => True
  | Div _ => False
  | Disj cs | Sum cs | Sub cs | Mul cs =>
      (fix all (l : list cal) : Prop :=
         match l with [] => True | x :: r => div_free x /\ all r end) cs
  end.

Fixpoint div_freeb (c : cal) : bool :=
  match c with
  | Weekly _ _ _ | Dated _ | Fixed _ _ _ => true
  | Div _ => false
  | Disj cs | Sum cs | Sub cs | Mul cs =>
      (fix all (l : list cal) : bool :=
         match l with [] => true | x :: r => div_freeb x && all r end) cs
  end.

Lemma div_free_list (cs : list cal) :
  (fix all (l : list cal) : Prop := match l with [] => True | x :: r => div_free x /\ all r end) cs
  <-> Forall div_free cs.
Proof.
  induction cs as [|x r IH].
  - split; [intros _; constructor | intros _; exact I].
  - split.
    + intros [Hx Hr]. constructor; [exact Hx | apply IH; exact Hr].
    + intros H. inversion H as [|? ? Hx Hr]; subst. split; [exact Hx | apply IH; exact Hr].
Qed.

Lemma div_freeb_sound c : div_freeb c = true -> div_free c.
Proof.
  assert (L : forall cs, Forall (fun c => div_freeb c = true -> div_free c) cs ->
     (fix all (l : list cal) : bool := match l with [] => true | x :: r => div_freeb x && all r end) cs = true ->
     Forall div_free cs).
  { induction 1 as [|x r Hx _ IH]; intro E; constructor.
    - apply Hx. apply andb_true_iff in E. tauto.
    - apply IH. apply andb_true_iff in E. tauto. }
  induction c as [st en h | m | u st en | cs IH | cs IH | cs IH | cs IH | cs IH] using cal_ind_nested;
    cbn [div_freeb div_free]; try rewrite div_free_list; auto; discriminate.
Qed.
End DivFree.

Section Total.
Context {num : Type}.
Variables (nadd nsub nmul ndiv : num -> num -> num) (nzero : num).
Variable nltb : num -> num -> bool.
Variable nis0 : num -> bool.
Notation cal := (cal num).
Notation eval := (eval nadd nsub nmul ndiv nzero nltb nis0).
Notation units := (units nadd nsub nmul ndiv nzero nltb nis0).

Lemma evals_ok (cs : list cal) t :
  Forall (fun c => div_free c -> forall t, exists v, eval c t = Ok v) cs -> Forall div_free cs ->
  exists vs, map (fun c => eval c t) cs = map Ok vs.
Proof.
  induction 1 as [|c cs Hc _ IH]; intro HD.
  - exists []. reflexivity.
  - inversion HD as [|? ? Hd HD']; subst. destruct (Hc Hd t) as [v Ev]. destruct (IH HD') as [vs Evs].
    exists (v :: vs). cbn [map]. rewrite Ev, Evs. reflexivity.
Qed.

Theorem eval_total c : div_free c -> forall t, exists v, eval c t = Ok v.
Proof.
  induction c as [st en h | m | u st en | cs IH | cs IH | cs IH | cs IH | cs IH] using cal_ind_nested;
    intros HD t; cbn [Calendar.eval].
  - destruct (before t st); [eauto|]. destruct (after t en); eauto.
  - eauto.
  - destruct (before t st); [eauto|]. destruct (after t en); eauto.
  - cbn [div_free] in HD. apply div_free_list in HD.
    clear -IH HD. induction IH as [|c cs Hc _ IH']; cbn [map disj_loop]; [eauto|].
    inversion HD as [|? ? Hd HD']; subst. destruct (Hc Hd t) as [v Ev]. rewrite Ev. cbn [bind].
    destruct v as [u|]; [destruct (npos nzero nltb u); [eauto|]|]; apply IH'; exact HD'.
  - cbn [div_free] in HD. apply div_free_list in HD. destruct (evals_ok cs t IH HD) as [vs ->].
    rewrite acc_loop_total. eauto.
  - cbn [div_free] in HD. apply div_free_list in HD. destruct (evals_ok cs t IH HD) as [vs ->].
    rewrite acc_loop_total. cbn [bind].
    destruct (fold1 nsub (somes vs)) as [u|]; [destruct (nneg nzero nltb u)|]; eauto.
  - cbn [div_free] in HD. apply div_free_list in HD. destruct (evals_ok cs t IH HD) as [vs ->].
    rewrite acc_loop_total. eauto.
  - destruct HD.
Qed.

Theorem units_total c : div_free c -> forall t, exists v, units c t = Ok v.
Proof. intros HD t. unfold Calendar.units. destruct (eval_total c HD t) as [v ->]. cbn [bind]. eauto. Qed.

End Total.

(* for expressions without [/] the table is exact at every instant *)
Theorem cap_of_cals_exact (cs : nat -> zcal) :
  (forall r, aligned_cal (cs r)) -> (forall r, div_free (cs r)) ->
  forall r t, zunits (cs r) t = Ok (cap_of_cals cs r (day_of t)).
Proof.
  intros HA HD r t. destruct (units_total Z.add Z.sub Z.mul Z.div 0 Z.ltb (Z.eqb 0) (cs r) (HD r) t) as [v E].
  exact (cap_of_cals_any_time cs HA r t v E).
Qed.
