(* Proofs about the calendar model: the loops of the combinators equal their declarative
   meaning, leaf calendars, constructor validation, resource units, availability search. *)
From PJ Require Import Base.Prelude Cal.Calendar.

Section Proofs.
Context {num : Type}.
Variables (nadd nsub nmul ndiv : num -> num -> num) (nzero : num).
Variable nltb : num -> num -> bool.
Variable nis0 : num -> bool.

Notation cal := (cal num).
Notation eval := (eval nadd nsub nmul ndiv nzero nltb nis0).
Notation npos := (npos nzero nltb).
Notation nneg := (nneg nzero nltb).
Notation units := (units nadd nsub nmul ndiv nzero nltb nis0).
Notation search := (search nzero nltb).

(* ---- declarative meaning of the combinators ---- *)
Fixpoint somes (vs : list (option num)) : list num :=
  match vs with
  | [] => []
  | Some x :: r => x :: somes r
  | None :: r => somes r
  end.

Definition fold1 (f : num -> num -> num) (xs : list num) : option num :=
  match xs with [] => None | x :: r => Some (fold_left f r x) end.

Definition values (cs : list cal) (t : Z) (vs : list (option num)) : Prop :=
  Forall2 (fun c v => eval c t = Ok v) cs vs.

Lemma values_map cs t vs : values cs t vs -> map (fun c => eval c t) cs = map Ok vs.
Proof. induction 1 as [|c v cs vs H _ IH]; simpl; congruence. Qed.

Lemma acc_loop_total f acc vs :
  acc_loop (total f) acc (map Ok vs) =
  Ok (match acc with
      | None => fold1 f (somes vs)
      | Some a => Some (fold_left f (somes vs) a)
      end).
Proof.
  revert acc; induction vs as [|v vs IH]; intros acc; simpl.
  - destruct acc; reflexivity.
  - destruct v as [x|]; simpl.
    + destruct acc as [a|]; simpl; rewrite IH; reflexivity.
    + rewrite IH. reflexivity.
Qed.

Theorem eval_sum cs t vs : values cs t vs -> eval (Sum cs) t = Ok (fold1 nadd (somes vs)).
Proof. intro H. cbn [Calendar.eval]. rewrite (values_map _ _ _ H). apply acc_loop_total. Qed.

Theorem eval_mul cs t vs : values cs t vs -> eval (Mul cs) t = Ok (fold1 nmul (somes vs)).
Proof. intro H. cbn [Calendar.eval]. rewrite (values_map _ _ _ H). apply acc_loop_total. Qed.

Theorem eval_sub cs t vs :
  values cs t vs ->
  eval (Sub cs) t = Ok (match fold1 nsub (somes vs) with
                        | Some u => if nneg u then None else Some u
                        | None => None
                        end).
Proof.
  intro H. cbn [Calendar.eval]. rewrite (values_map _ _ _ H), acc_loop_total. simpl.
  destruct (fold1 nsub (somes vs)) as [u|]; [destruct (nneg u)|]; reflexivity.
Qed.

Lemma acc_loop_divide acc vs :
  acc_loop (divide ndiv nis0) acc (map Ok vs) =
  match acc with
  | None => match somes vs with
            | [] => Ok None
            | x :: r => if existsb nis0 r then Crash ZeroDivisionError else Ok (Some (fold_left ndiv r x))
            end
  | Some a => if existsb nis0 (somes vs) then Crash ZeroDivisionError
              else Ok (Some (fold_left ndiv (somes vs) a))
  end.
Proof.
  revert acc; induction vs as [|v vs IH]; intros acc; simpl.
  - destruct acc; reflexivity.
  - destruct v as [x|]; simpl.
    + destruct acc as [a|]; simpl.
      * unfold divide at 1. destruct (nis0 x); simpl; [reflexivity|]. rewrite IH. reflexivity.
      * rewrite IH. reflexivity.
    + rewrite IH. reflexivity.
Qed.

Theorem eval_div cs t vs :
  values cs t vs ->
  eval (Div cs) t = match somes vs with
                    | [] => Ok None
                    | x :: r => if existsb nis0 r then Crash ZeroDivisionError
                                else Ok (Some (fold_left ndiv r x))
                    end.
Proof. intro H. cbn [Calendar.eval]. rewrite (values_map _ _ _ H). exact (acc_loop_divide None vs). Qed.

Definition positive (v : option num) : bool := match v with Some u => npos u | None => false end.

Lemma disj_loop_app t cs1 rest :
  Forall (fun c => exists v, eval c t = Ok v /\ positive v = false) cs1 ->
  disj_loop nzero nltb (map (fun c (_ : unit) => eval c t) cs1 ++ rest) = disj_loop nzero nltb rest.
Proof.
  induction 1 as [|c cs1 [v [Hv Hp]] _ IH]; simpl; [reflexivity|].
  rewrite Hv. simpl. destruct v as [u|]; simpl in Hp; [rewrite Hp|]; exact IH.
Qed.

(* the first operand with a positive value wins, operands after it are not even evaluated *)
Theorem eval_disj_first cs1 c cs2 t u :
  Forall (fun c' => exists v, eval c' t = Ok v /\ positive v = false) cs1 ->
  eval c t = Ok (Some u) -> npos u = true ->
  eval (Disj (cs1 ++ c :: cs2)) t = Ok (Some u).
Proof.
  intros H1 Hc Hu. cbn [Calendar.eval]. rewrite map_app. rewrite (disj_loop_app t cs1 _ H1).
  simpl. rewrite Hc. simpl. rewrite Hu. reflexivity.
Qed.

Theorem eval_disj_none cs t :
  Forall (fun c' => exists v, eval c' t = Ok v /\ positive v = false) cs ->
  eval (Disj cs) t = Ok None.
Proof.
  intros H. cbn [Calendar.eval]. rewrite <- (app_nil_r (map _ cs)). rewrite (disj_loop_app t cs [] H).
  reflexivity.
Qed.

(* ---- leaves ---- *)
Definition inside (t : Z) (st en : option Z) : Prop :=
  (forall s, st = Some s -> s <= t) /\ (forall e, en = Some e -> t <= e).

Lemma inside_flags t st en : inside t st en -> before t st = false /\ after t en = false.
Proof.
  intros [H1 H2]. unfold before, after. split.
  - destruct st as [s|]; [|reflexivity]. specialize (H1 s eq_refl). apply Z.ltb_ge. lia.
  - destruct en as [e|]; [|reflexivity]. specialize (H2 e eq_refl). apply Z.ltb_ge. lia.
Qed.

Theorem eval_weekly st en h t :
  eval (Weekly st en h) t =
  Ok (if before t st || after t en then None else Some (nth (Z.to_nat (weekday t)) h nzero)).
Proof. cbn [Calendar.eval]. destruct (before t st); simpl; [reflexivity|]. destruct (after t en); reflexivity. Qed.

Theorem eval_weekly_inside st en h t :
  inside t st en -> eval (Weekly st en h) t = Ok (Some (nth (Z.to_nat (weekday t)) h nzero)).
Proof. intro H. rewrite eval_weekly. destruct (inside_flags _ _ _ H) as [-> ->]. reflexivity. Qed.

Theorem eval_weekly_outside st en h t :
  before t st = true \/ after t en = true -> eval (Weekly st en h) t = Ok None.
Proof. intro H. rewrite eval_weekly. destruct H as [-> | ->]; [|rewrite orb_true_r]; reflexivity. Qed.

Theorem eval_fixed_inside u st en t : inside t st en -> eval (Fixed u st en) t = Ok (Some u).
Proof. intro H. cbn [Calendar.eval]. destruct (inside_flags _ _ _ H) as [-> ->]. reflexivity. Qed.

Theorem eval_fixed_outside u st en t :
  before t st = true \/ after t en = true -> eval (Fixed u st en) t = Ok (Some nzero).
Proof.
  intro H. cbn [Calendar.eval]. destruct (before t st); [reflexivity|].
  destruct H as [H | ->]; [discriminate | reflexivity].
Qed.

(* a number acts as a constant calendar *)
Theorem eval_promoted x c t :
  promote nzero nltb (ONum x) = Ok c -> eval c t = Ok (Some x).
Proof.
  unfold promote, mk_fixed. destruct (Calendar.nneg _ _ x); [discriminate|]. simpl.
  intro H; inversion H; subst. reflexivity.
Qed.

Lemma dated_lookup_app (m1 m2 : list (Z * num)) d :
  dated_lookup (m1 ++ m2) d =
  match dated_lookup m2 d with Some v => Some v | None => dated_lookup m1 d end.
Proof.
  unfold dated_lookup. rewrite fold_left_app. generalize (fold_left
    (fun (acc : option num) (kv : Z * num) => if fst kv =? d then Some (snd kv) else acc) m1 None) as a.
  induction m2 as [|kv m2 IH] using rev_ind; intro a; simpl.
  - reflexivity.
  - rewrite !fold_left_app. simpl. destruct (fst kv =? d); [reflexivity|]. apply IH.
Qed.

(* DirectCalendar: the value configured last for that day, none for other days *)
Theorem eval_dated_hit m1 k v m2 t :
  k = day_of t -> (forall kv, In kv m2 -> fst kv <> day_of t) ->
  eval (Dated (m1 ++ (k, v) :: m2)) t = Ok (Some v).
Proof.
  intros -> H. cbn [Calendar.eval]. f_equal.
  rewrite dated_lookup_app.
  replace ((day_of t, v) :: m2) with ([(day_of t, v)] ++ m2) by reflexivity.
  rewrite dated_lookup_app.
  assert (E : dated_lookup m2 (day_of t) = None).
  { clear -H. induction m2 as [|kv m2 IH] using rev_ind; [reflexivity|].
    unfold dated_lookup in *. rewrite fold_left_app. simpl.
    destruct (Z.eqb_spec (fst kv) (day_of t)) as [E|E].
    - exfalso. apply (H kv); [apply in_or_app; right; left; reflexivity | exact E].
    - apply IH. intros kv' Hin. apply H. apply in_or_app; left; exact Hin. }
  rewrite E. unfold dated_lookup. simpl. rewrite Z.eqb_refl. reflexivity.
Qed.

Theorem eval_dated_miss m t :
  (forall kv, In kv m -> fst kv <> day_of t) -> eval (Dated m) t = Ok None.
Proof.
  intros H. cbn [Calendar.eval]. f_equal.
  induction m as [|kv m IH] using rev_ind; [reflexivity|].
  unfold dated_lookup in *. rewrite fold_left_app. simpl.
  destruct (Z.eqb_spec (fst kv) (day_of t)) as [E|E].
  - exfalso. apply (H kv); [apply in_or_app; right; left; reflexivity | exact E].
  - apply IH. intros kv' Hin. apply H. apply in_or_app; left; exact Hin.
Qed.

(* ---- constructor validation: rejected exactly for the four reasons ---- *)
Theorem mk_weekly_days_rejects st en days u :
  mk_weekly_days nzero nltb st en days u = Err <->
  (exists d, In d days /\ (d < 0 \/ 6 < d)) \/ nneg u = true \/
  (exists s e, st = Some s /\ en = Some e /\ e < s).
Proof.
  unfold mk_weekly_days.
  destruct (forallb weekday_ok days) eqn:Hd; simpl.
  - destruct (Calendar.nneg _ _ u) eqn:Hu; simpl.
    + split; auto.
    + destruct (bad_interval st en) eqn:Hb.
      * split; auto. intros _. right; right. unfold bad_interval in Hb.
        destruct st as [s|], en as [e|]; try discriminate. exists s, e. apply Z.ltb_lt in Hb. auto.
      * split; [discriminate|]. intros [[d [Hin Hr]] | [H | [s [e [-> [-> H]]]]]].
        -- rewrite forallb_forall in Hd. specialize (Hd d Hin). unfold weekday_ok in Hd. lia.
        -- discriminate.
        -- simpl in Hb. apply Z.ltb_ge in Hb. lia.
  - split; auto. intros _. left.
    assert (H : exists d, In d days /\ weekday_ok d = false).
    { clear -Hd. induction days as [|d days IH]; simpl in Hd; [discriminate|].
      destruct (weekday_ok d) eqn:E; simpl in Hd.
      - destruct (IH Hd) as [x [Hx1 Hx2]]. exists x; split; [right|]; assumption.
      - exists d; split; [left; reflexivity | assumption]. }
    destruct H as [d [Hin Hw]]. exists d; split; [assumption|]. unfold weekday_ok in Hw. lia.
Qed.

Lemma existsb_false_forall {A} (f : A -> bool) l : existsb f l = false <-> forall x, In x l -> f x = false.
Proof.
  induction l as [|a l IH]; simpl.
  - split; [intros _ x [] | reflexivity].
  - rewrite orb_false_iff, IH. split.
    + intros [H1 H2] x [<-|Hx]; [assumption | apply H2; assumption].
    + intros H; split; [apply H; left; reflexivity | intros x Hx; apply H; right; assumption].
Qed.

Theorem mk_weekly_dict_rejects st en m :
  mk_weekly_dict nzero nltb st en m = Err <->
  (exists kv, In kv m /\ (fst kv < 0 \/ 6 < fst kv)) \/ (exists kv, In kv m /\ nneg (snd kv) = true) \/
  (exists s e, st = Some s /\ en = Some e /\ e < s).
Proof.
  unfold mk_weekly_dict.
  destruct (forallb (fun kv => weekday_ok (fst kv)) m) eqn:Hd; simpl.
  - destruct (existsb (fun kv => Calendar.nneg nzero nltb (snd kv)) m) eqn:Hu; simpl.
    + split; auto. intros _. right; left. apply existsb_exists in Hu. exact Hu.
    + destruct (bad_interval st en) eqn:Hb.
      * split; auto. intros _. right; right. unfold bad_interval in Hb.
        destruct st as [s|], en as [e|]; try discriminate. exists s, e. apply Z.ltb_lt in Hb. auto.
      * split; [discriminate|]. intros [[kv [Hin Hr]] | [[kv [Hin H]] | [s [e [-> [-> H]]]]]].
        -- rewrite forallb_forall in Hd. specialize (Hd kv Hin). unfold weekday_ok in Hd. lia.
        -- rewrite existsb_false_forall in Hu. rewrite (Hu kv Hin) in H. discriminate.
        -- simpl in Hb. apply Z.ltb_ge in Hb. lia.
  - split; auto. intros _. left.
    assert (H : exists kv, In kv m /\ weekday_ok (fst kv) = false).
    { clear -Hd. induction m as [|d days IH]; simpl in Hd; [discriminate|].
      destruct (weekday_ok (fst d)) eqn:E; simpl in Hd.
      - destruct (IH Hd) as [x [Hx1 Hx2]]. exists x; split; [right|]; assumption.
      - exists d; split; [left; reflexivity | assumption]. }
    destruct H as [d [Hin Hw]]. exists d; split; [assumption|]. unfold weekday_ok in Hw. lia.
Qed.

Theorem mk_fixed_rejects u st en :
  mk_fixed nzero nltb u st en = Err <->
  nneg u = true \/ (exists s e, st = Some s /\ en = Some e /\ e < s).
Proof.
  unfold mk_fixed. destruct (Calendar.nneg _ _ u) eqn:Hu; [split; auto|].
  destruct (bad_interval st en) eqn:Hb.
  - split; auto. intros _. right. unfold bad_interval in Hb.
    destruct st as [s|], en as [e|]; try discriminate. exists s, e. apply Z.ltb_lt in Hb. auto.
  - split; [discriminate|]. intros [H | [s [e [-> [-> H]]]]]; [discriminate|].
    simpl in Hb. apply Z.ltb_ge in Hb. lia.
Qed.

Theorem mk_dated_rejects m :
  mk_dated nzero nltb m = Err <-> exists kv, In kv m /\ nneg (snd kv) = true.
Proof.
  unfold mk_dated. destruct (existsb _ m) eqn:H.
  - split; auto. intros _. apply existsb_exists in H. exact H.
  - split; [discriminate|]. intros [kv [Hin Hn]]. rewrite existsb_false_forall in H.
    rewrite (H kv Hin) in Hn. discriminate.
Qed.

(* division by the number zero is rejected when the expression is built *)
Theorem div_by_zero_number_rejected a x : nis0 x = true -> binop nzero nltb nis0 OpDiv a (ONum x) = Err.
Proof. intro H. unfold binop. rewrite H. reflexivity. Qed.

Theorem binop_accepts k a o b :
  promote nzero nltb o = Ok b ->
  (k = OpDiv -> forall x, o = ONum x -> nis0 x = false) ->
  binop nzero nltb nis0 k a o = Ok (nary k [a; b]).
Proof.
  intros Hp Hz. unfold binop. destruct k, o as [c|x]; rewrite ?Hp; simpl; try reflexivity.
  rewrite (Hz eq_refl x eq_refl). rewrite ?Hp. reflexivity.
Qed.

(* ---- Resource: 0, never None ---- *)
Theorem units_spec c t v :
  eval c t = Ok v -> units c t = Ok (match v with Some u => u | None => nzero end).
Proof. intro H. unfold Calendar.units. rewrite H. reflexivity. Qed.

(* ---- availability search ---- *)
Section Search.
Variable u : Z -> num.                (* total capacity function of the resource *)
Let ur (t : Z) : res num := Ok (u t).
Let probe (dir t : Z) : Z := if dir <? 0 then t - DAY else t.

Lemma search_ok_iff dir n t t' :
  search ur dir n t = Ok t' <->
  exists k, (k < n)%nat /\ t' = t + Z.of_nat k * (dir * DAY)
            /\ npos (u (probe dir t')) = true
            /\ forall j, (j < k)%nat -> npos (u (probe dir (t + Z.of_nat j * (dir * DAY)))) = false.
Proof.
  revert t; induction n as [|n IH]; intros t; cbn [Calendar.search].
  - split; [discriminate | intros [k [Hk _]]; lia].
  - unfold ur at 1. cbn [bind]. fold (probe dir t).
    destruct (Calendar.npos nzero nltb (u (probe dir t))) eqn:Hp.
    + split.
      * intros H; inversion H; subst t'. exists 0%nat.
        split; [lia|]. split; [lia|]. split; [exact Hp|]. intros j Hj; lia.
      * intros [k [Hk [Ht' [Hpos Hmin]]]]. destruct k as [|k].
        -- f_equal. lia.
        -- specialize (Hmin 0%nat ltac:(lia)). replace (t + Z.of_nat 0 * (dir * DAY)) with t in Hmin by lia.
           congruence.
    + rewrite IH. split.
      * intros [k [Hk [Ht' [Hpos Hmin]]]]. exists (S k). repeat split; try lia; try assumption.
        intros j Hj. destruct j as [|j].
        -- replace (t + Z.of_nat 0 * (dir * DAY)) with t by lia. exact Hp.
        -- specialize (Hmin j ltac:(lia)).
           replace (t + Z.of_nat (S j) * (dir * DAY)) with (t + dir * DAY + Z.of_nat j * (dir * DAY)) by lia.
           exact Hmin.
      * intros [k [Hk [Ht' [Hpos Hmin]]]]. destruct k as [|k].
        -- exfalso. replace t' with t in Hpos by lia. congruence.
        -- exists k. repeat split; try lia; try assumption.
           intros j Hj. specialize (Hmin (S j) ltac:(lia)).
           replace (t + Z.of_nat (S j) * (dir * DAY)) with (t + dir * DAY + Z.of_nat j * (dir * DAY)) in Hmin by lia.
           exact Hmin.
Qed.

Lemma search_err_iff dir n t :
  search ur dir n t = Err <->
  forall k, (k < n)%nat -> npos (u (probe dir (t + Z.of_nat k * (dir * DAY)))) = false.
Proof.
  revert t; induction n as [|n IH]; intros t; cbn [Calendar.search].
  - split; [intros _ k Hk; lia | reflexivity].
  - unfold ur at 1. cbn [bind]. fold (probe dir t).
    destruct (Calendar.npos nzero nltb (u (probe dir t))) eqn:Hp.
    + split; [discriminate|]. intros H. specialize (H 0%nat ltac:(lia)).
      replace (t + Z.of_nat 0 * (dir * DAY)) with t in H by lia. congruence.
    + rewrite IH. split.
      * intros H k Hk. destruct k as [|k].
        -- replace (t + Z.of_nat 0 * (dir * DAY)) with t by lia. exact Hp.
        -- specialize (H k ltac:(lia)).
           replace (t + Z.of_nat (S k) * (dir * DAY)) with (t + dir * DAY + Z.of_nat k * (dir * DAY)) by lia.
           exact H.
      * intros H k Hk. specialize (H (S k) ltac:(lia)).
        replace (t + Z.of_nat (S k) * (dir * DAY)) with (t + dir * DAY + Z.of_nat k * (dir * DAY)) in H by lia.
        exact H.
Qed.

(* forward: earliest date at a whole-day offset with positive capacity *)
Theorem search_forward n t t' :
  search ur 1 n t = Ok t' <->
  exists k, (k < n)%nat /\ t' = t + Z.of_nat k * DAY /\ npos (u t') = true
            /\ forall j, (j < k)%nat -> npos (u (t + Z.of_nat j * DAY)) = false.
Proof.
  rewrite search_ok_iff. unfold probe. simpl (1 <? 0).
  split; intros [k [Hk [Ht [Hp Hm]]]]; exists k;
    (split; [exact Hk|]); (split; [lia|]); (split; [exact Hp|]); intros j Hj; specialize (Hm j Hj).
  - replace (t + Z.of_nat j * DAY) with (t + Z.of_nat j * (1 * DAY)) by lia. exact Hm.
  - replace (t + Z.of_nat j * (1 * DAY)) with (t + Z.of_nat j * DAY) by lia. exact Hm.
Qed.

(* backward: latest date (at a whole-day offset) whose preceding day has positive capacity *)
Theorem search_backward n t t' :
  search ur (-1) n t = Ok t' <->
  exists k, (k < n)%nat /\ t' = t - Z.of_nat k * DAY /\ npos (u (t' - DAY)) = true
            /\ forall j, (j < k)%nat -> npos (u (t - Z.of_nat j * DAY - DAY)) = false.
Proof.
  rewrite search_ok_iff. unfold probe. simpl (-1 <? 0).
  split; intros [k [Hk [Ht [Hp Hm]]]]; exists k;
    (split; [exact Hk|]); (split; [lia|]); (split; [exact Hp|]); intros j Hj; specialize (Hm j Hj).
  - replace (t - Z.of_nat j * DAY - DAY) with (t + Z.of_nat j * (-1 * DAY) - DAY) by lia. exact Hm.
  - replace (t + Z.of_nat j * (-1 * DAY) - DAY) with (t - Z.of_nat j * DAY - DAY) by lia. exact Hm.
Qed.

Theorem search_fails_exactly dir n t :
  search ur dir n t = Err <->
  ~ exists k, (k < n)%nat /\ npos (u (probe dir (t + Z.of_nat k * (dir * DAY)))) = true.
Proof.
  rewrite search_err_iff. split.
  - intros H [k [Hk Hp]]. rewrite (H k Hk) in Hp. discriminate.
  - intros H k Hk. destruct (Calendar.npos nzero nltb (u (probe dir (t + Z.of_nat k * (dir * DAY))))) eqn:E; [|reflexivity].
    exfalso. apply H. exists k. split; assumption.
Qed.

End Search.
End Proofs.
