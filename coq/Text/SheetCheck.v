(* C20 - executable checker run on generated cases: the model's text is compared with the text the
   implementation produced, and the boolean oracles of the property (line count, equal visible
   width, indentation of the name, one line per day) are evaluated on the implementation's text.
   The oracles take the numbers the property fixes (three spaces per level) literally, not from
   gen/Consts.v.  Their meaning is proved in Text/SheetProofs.v. *)
From Coq Require Import NArith Uint63.
From PJ Require Import Base.Prelude gen.Consts Text.Sheet.
Local Open Scope nat_scope.

(* transport of long texts in the generated case files: three code points (21 bits each) per
   primitive integer, 2^21-1 = empty slot.  (Coq reads one primitive integer much faster than three
   binary numbers; nothing but the case files uses this.) *)
Definition cp_mask : int := 2097151%uint63.
Definition int_N (x : int) : N := Z.to_N (Uint63.to_Z x).
Definition unpack1 (x : int) (acc : text) : text :=
  let put (v : int) (acc : text) := if Uint63.eqb v cp_mask then acc else int_N v :: acc in
  put (Uint63.lsr x 42) (put (Uint63.land (Uint63.lsr x 21) cp_mask) (put (Uint63.land x cp_mask) acc)).
Definition unpack (l : list int) : text := fold_right unpack1 [] l.

(* str.upper / str.lower on ASCII; the harness only sends names on which Python agrees with them *)
Definition ascii_upper (t : text) : text :=
  map (fun c => if (N.leb 97 c && N.leb c 122)%bool then (c - 32)%N else c) t.
Definition ascii_lower (t : text) : text :=
  map (fun c => if (N.leb 65 c && N.leb c 90)%bool then (c + 32)%N else c) t.

(* ---------- which tasks a call prints ---------- *)
Inductive entry :=
| EForest (from n : nat)             (* n consecutive top-level trees: the roots of a WBS *)
| EPaths (ps : list (list nat)).     (* tasks given by their position: a task, a task list *)

Fixpoint subtree_at (ts : list tree) (p : list nat) : option tree :=
  match p with
  | [] => None
  | i :: p' =>
      match nth_error ts i with
      | None => None
      | Some t => match p' with [] => Some t | _ => subtree_at (children_of t) p' end
      end
  end.

Fixpoint all_some {A} (l : list (option A)) : option (list A) :=
  match l with
  | [] => Some []
  | None :: _ => None
  | Some x :: r => match all_some r with Some r' => Some (x :: r') | None => None end
  end.

Definition select (u : list tree) (e : entry) : option (list tree) :=
  match e with
  | EForest from n => Some (firstn n (skipn from u))
  | EPaths ps => all_some (map (subtree_at u) ps)
  end.

(* ---------- oracles on a printed text ---------- *)
Definition vis_len (l : text) : nat := length (strip_colors l).

(* all lines have the same visible width *)
Definition same_width_b (lines : list text) : bool :=
  match lines with
  | [] => true
  | l :: ls => forallb (fun x => Nat.eqb (vis_len x) (vis_len l)) ls
  end.

Definition line_count_b (lines : list text) (n : nat) : bool := Nat.eqb (length lines) (S n).

Fixpoint prefix_b (p t : text) : bool :=
  match p, t with
  | [], _ => true
  | x :: p', y :: t' => N.eqb x y && prefix_b p' t'
  | _, [] => false
  end.

(* the cell of width w that starts at offset off of the visible line holds exactly
   ' ' + 3*level spaces + name + ' ', padded *)
Definition name_cell_b (line : text) (off w level : nat) (name : text) : bool :=
  text_eqb (firstn (w + 2) (skipn off (strip_colors line)))
           (pad (SP :: repeat SP (3 * level) ++ name ++ [SP]) (w + 2)).

(* offsets of the columns whose field is 'name' *)
Fixpoint name_columns (fields : list text) (ws : list nat) (off : nat) : list (nat * nat) :=
  match fields, ws with
  | f :: fs, w :: ws' =>
      (if text_eqb f sheet_fld_name then [(off, w)] else []) ++ name_columns fs ws' (off + w + 2)
  | _, _ => []
  end.

Fixpoint indent_b (cols : list (nat * nat)) (lines : list text) (sh : list (nat * tdata)) : bool :=
  match lines, sh with
  | l :: ls, (level, d) :: sh' =>
      forallb (fun ow => name_cell_b l (fst ow) (snd ow) level (opt_text (t_name d))) cols
      && indent_b cols ls sh'
  | _, _ => true
  end.

(* ---------- cases ---------- *)
Record call := mk_call {
  k_entry : entry;
  k_fields : option (list text);
  k_children : bool;
  k_theme : option theme;
  k_code : nat;          (* outcome class of the implementation: 0 returned *)
  k_out : text           (* the text it returned / printed *)
}.

Inductive case :=
| CSheet (u : list tree) (calls : list call)
| CUsage (u : usage) (code : nat) (out : text).

(* 0 fine; 1 the call raised; 3 number of lines; 4 lines of different visible width; 5 name not
   indented by three spaces per level; 2 text differs from the model; 9 malformed case *)
Definition check_call (u : list tree) (k : call) : nat :=
  match select u (k_entry k) with
  | None => 9
  | Some ts =>
      if negb (Nat.eqb (k_code k) 0) then 1
      else
        let fields := the_fields (k_fields k) in
        let rows := sheet_rows ascii_upper ascii_lower ts (k_fields k) (k_children k) (k_theme k) in
        let lines := split_lines (k_out k) in
        let sh := shown (k_children k) ts in
        match fields with
        | [] => if text_eqb (k_out k) (text_repr rows false None) then 0 else 2
        | _ =>
            if negb (line_count_b lines (length sh)) then 3
            else if negb (same_width_b lines) then 4
            else if negb (indent_b (name_columns fields (widths rows) 0) (tl lines) sh) then 5
            else if negb (text_eqb (k_out k) (text_repr rows false None)) then 2
            else 0
        end
  end.

Fixpoint check_calls (u : list tree) (i : nat) (ks : list call) : nat :=
  match ks with
  | [] => 0
  | k :: r => match check_call u k with
              | 0 => check_calls u (S i) r
              | c => 10 * i + c
              end
  end.

Fixpoint nodup_nat (l : list nat) : bool :=
  match l with
  | [] => true
  | x :: r => negb (existsb (Nat.eqb x) r) && nodup_nat r
  end.

(* number of days from the first to the last reservation, straight from the dates *)
Definition day_span (dates : list Z) : nat :=
  match map day_of dates with
  | [] => 0
  | x :: r => Z.to_nat (zmax_list x r - zmin_list x r + 1)
  end.

(* 0 fine; 1 raised; 6 not one line per day; 4 widths; 2 text differs from the model *)
Definition check_usage (u : usage) (code : nat) (out : text) : nat :=
  if negb (Nat.eqb code 0) then 1
  else match u_dates u with
       | [] => if text_eqb out (usage_text ascii_upper u) then 0 else 2
       | _ =>
           let lines := split_lines out in
           if negb (line_count_b lines (day_span (u_dates u))) then 6
           else if negb (same_width_b lines) then 4
           else if negb (text_eqb out (usage_text ascii_upper u)) then 2
           else 0
       end.

Definition check_case (c : case) : nat :=
  match c with
  | CSheet u calls => check_calls u 0 calls
  | CUsage u code out => check_usage u code out
  end.
