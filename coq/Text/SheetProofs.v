(* C20 - proofs about the sheet model (Text/Sheet.v) and the meaning of the oracles of
   Text/SheetCheck.v.  Statements used by Props/Props_C20.v are marked (C20). *)
From Coq Require Import NArith Lia.
From PJ Require Import Base.Prelude gen.Consts Text.Sheet Text.SheetCheck.
Local Open Scope nat_scope.

(* ================= generic list facts ================= *)

Lemma not_in_app {A} (x : A) (a b : list A) : ~ In x (a ++ b) <-> ~ In x a /\ ~ In x b.
Proof. rewrite in_app_iff. tauto. Qed.

Lemma not_in_repeat {A} (x y : A) n : x <> y -> ~ In x (repeat y n).
Proof. intros Hxy Hin. apply repeat_spec in Hin. congruence. Qed.

Lemma map_flat_map {A B C} (f : B -> C) (g : A -> list B) (l : list A) :
  map f (flat_map g l) = flat_map (fun x => map f (g x)) l.
Proof. induction l as [|x l IH]; simpl; [reflexivity|]. rewrite map_app, IH. reflexivity. Qed.

Lemma flat_map_ext_Forall {A B} (f g : A -> list B) (l : list A) :
  Forall (fun x => f x = g x) l -> flat_map f l = flat_map g l.
Proof. induction 1 as [|x l Hx _ IH]; simpl; [reflexivity|]. rewrite Hx, IH. reflexivity. Qed.

Lemma text_eqb_spec (a b : text) : text_eqb a b = true <-> a = b.
Proof. apply list_eqb_spec. intros x y. apply N.eqb_eq. Qed.

Lemma text_eqb_refl (a : text) : text_eqb a a = true.
Proof. apply text_eqb_spec. reflexivity. Qed.

(* ================= column widths ================= *)

(* ws is at least ls, position by position *)
Definition covers (ws ls : list nat) : Prop :=
  forall i l, nth_error ls i = Some l -> exists w, nth_error ws i = Some w /\ l <= w.

Lemma covers_refl ws : covers ws ws.
Proof. intros i l H. exists l. split; [assumption | lia]. Qed.

Lemma covers_trans a b c : covers a b -> covers b c -> covers a c.
Proof.
  intros Hab Hbc i l H. destruct (Hbc i l H) as (w & Hw & Hle).
  destruct (Hab i w Hw) as (w' & Hw' & Hle'). exists w'. split; [assumption | lia].
Qed.

Lemma merge_covers_l ws : forall ls, covers (merge_widths ws ls) ws.
Proof.
  induction ws as [|w ws IH]; intros ls i l H.
  - destruct i; discriminate.
  - destruct ls as [|l0 ls]; simpl.
    + exists l. split; [assumption | lia].
    + destruct i as [|i]; simpl in *.
      * inversion H; subst. exists (Nat.max l0 l). split; [reflexivity | lia].
      * apply IH. assumption.
Qed.

Lemma merge_covers_r ws : forall ls, covers (merge_widths ws ls) ls.
Proof.
  induction ws as [|w ws IH]; intros ls i l H.
  - simpl. exists l. split; [assumption | lia].
  - destruct ls as [|l0 ls]; simpl.
    + destruct i; discriminate.
    + destruct i as [|i]; simpl in *.
      * inversion H; subst. exists (Nat.max l w). split; [reflexivity | lia].
      * apply IH. assumption.
Qed.

Lemma widths_fold_covers rows : forall acc,
  covers (fold_left (fun ws r => merge_widths ws (cell_lens r)) rows acc) acc /\
  forall r, In r rows -> covers (fold_left (fun ws r => merge_widths ws (cell_lens r)) rows acc) (cell_lens r).
Proof.
  induction rows as [|r0 rows IH]; intros acc; simpl.
  - split; [apply covers_refl | intros r []].
  - destruct (IH (merge_widths acc (cell_lens r0))) as [Hacc Hrows]. split.
    + eapply covers_trans; [exact Hacc | apply merge_covers_l].
    + intros r [Heq | Hin].
      * subst. eapply covers_trans; [exact Hacc | apply merge_covers_r].
      * apply Hrows. assumption.
Qed.

(* a row fits the widths: every one of its cells has a column at least as wide *)
Definition fits (ws : list nat) (cells : list cell) : Prop :=
  forall i c, nth_error cells i = Some c -> exists w, nth_error ws i = Some w /\ length (c_text c) <= w.

(* (C20) every column is wide enough for every cell of it *)
Lemma widths_fit rows r : In r rows -> fits (widths rows) (r_cells r).
Proof.
  intros Hin i c Hc.
  destruct (widths_fold_covers rows []) as [_ H].
  apply (H r Hin i (length (c_text c))).
  unfold cell_lens. apply map_nth_error with (f := fun c => length (c_text c)) in Hc. exact Hc.
Qed.

(* ================= colour codes ================= *)

(* a colour code: characters other than m, then m;  the empty colour prints nothing *)
Definition wf_color (c : text) : Prop := exists b, c = b ++ [LM] /\ ~ In LM b.
Definition wf_ocolor (o : option text) : Prop :=
  forall c, o = Some c -> ~ In NL c /\ (c = [] \/ wf_color c).

Lemma wf_ocolor_none : wf_ocolor None.
Proof. intros c H. discriminate. Qed.

Lemma strip_copy t : forall r, ~ In ESC t -> strip_aux false (t ++ r) = t ++ strip_aux false r.
Proof.
  induction t as [|x t IH]; intros r H; simpl; [reflexivity|].
  destruct (N.eqb_spec x ESC) as [E|E].
  - exfalso. apply H. left. assumption.
  - rewrite IH; [reflexivity|]. intro Hin. apply H. right. assumption.
Qed.

Lemma strip_skip b : forall r, ~ In LM b -> strip_aux true (b ++ LM :: r) = strip_aux false r.
Proof.
  induction b as [|x b IH]; intros r H; simpl.
  - reflexivity.
  - destruct (N.eqb_spec x LM) as [E|E].
    + exfalso. apply H. left. assumption.
    + simpl. apply IH. intro Hin. apply H. right. assumption.
Qed.

Lemma pad_length t w : length (pad t w) = Nat.max (length t) w.
Proof. unfold pad. rewrite app_length, repeat_length. lia. Qed.

Lemma pad_no c t w : c <> SP -> ~ In c t -> ~ In c (pad t w).
Proof. intros Hc Ht. unfold pad. apply not_in_app. split; [assumption | apply not_in_repeat; assumption]. Qed.

(* (C20) what remains of a coloured cell when the colour codes are ignored: the padded text *)
Lemma strip_colored t w col rest :
  wf_ocolor col -> ~ In ESC t ->
  strip_aux false (colored_text t w col ++ rest) = pad t w ++ strip_aux false rest.
Proof.
  intros Hcol Ht.
  assert (Hpad : ~ In ESC (pad t w)) by (apply pad_no; [discriminate | assumption]).
  destruct col as [[|x c]|]; cbn [colored_text]; try (apply strip_copy; assumption).
  destruct (Hcol (x :: c) eq_refl) as [_ [Hnil | (b & Hb & Hnom)]]; [discriminate|].
  rewrite Hb. unfold tt_esc_prefix, tt_esc_suffix.
  repeat rewrite <- app_assoc. simpl.
  rewrite strip_skip by assumption.
  rewrite strip_copy by assumption. reflexivity.
Qed.

(* x is none of the listed characters *)
Ltac no_such_char :=
  let H := fresh "H" in
  intro H; cbv [In NL ESC LM SP BAR] in H;
  repeat match type of H with _ \/ _ => destruct H as [H|H]; [discriminate H|] end;
  first [exact (False_ind _ H) | discriminate H].

Lemma colored_no_nl t w col : wf_ocolor col -> ~ In NL t -> ~ In NL (colored_text t w col).
Proof.
  intros Hcol Ht.
  assert (Hpad : ~ In NL (pad t w)) by (apply pad_no; [discriminate | assumption]).
  destruct col as [[|x c]|]; cbn [colored_text]; try assumption.
  destruct (Hcol (x :: c) eq_refl) as [Hnl _].
  unfold tt_esc_prefix, tt_esc_suffix.
  apply not_in_app; split; [no_such_char|]. apply not_in_app; split; [assumption|].
  apply not_in_app; split; [assumption | no_such_char].
Qed.

Lemma colored_nonempty t w col : t <> [] -> colored_text t w col <> [].
Proof.
  intros Ht. destruct col as [[|x c]|]; cbn [colored_text]; unfold pad, tt_esc_prefix;
    (destruct t; [congruence | discriminate]).
Qed.

(* ================= one line of the table ================= *)

Definition cell_ok (c : cell) : Prop :=
  wf_ocolor (c_color c) /\ ~ In ESC (c_text c) /\ ~ In NL (c_text c).
Definition row_ok (r : row) : Prop := wf_ocolor (r_color r) /\ Forall cell_ok (r_cells r).

Fixpoint total_width (ws : list nat) : nat :=
  match ws with [] => 0 | w :: r => (w + 2) + total_width r end.

(* visible width of a line: every column plus its two margins, plus the bars of the border *)
Definition line_width (ws : list nat) (border : bool) : nat :=
  total_width ws + (if border then S (length ws) else 0).

Lemma border_strip border bc rest :
  wf_ocolor bc ->
  length (strip_aux false (border_text border bc ++ rest)) = (if border then 1 else 0) + length (strip_aux false rest).
Proof.
  intros Hbc. destruct border; simpl border_text; [|reflexivity].
  rewrite strip_colored; [|assumption | no_such_char].
  rewrite app_length, pad_length. reflexivity.
Qed.

Lemma fits_tail w ws c cs : fits (w :: ws) (c :: cs) -> length (c_text c) <= w /\ fits ws cs.
Proof.
  intros H. split.
  - destruct (H 0 c eq_refl) as (w' & Hw & Hle). inversion Hw; subst. assumption.
  - intros i c' Hc'. apply (H (S i) c'). assumption.
Qed.

Lemma cells_repr_width ws : forall cells rc border bc rest,
  wf_ocolor rc -> wf_ocolor bc -> Forall cell_ok cells -> fits ws cells ->
  length (strip_aux false (cells_repr ws cells rc border bc ++ rest))
  = total_width ws + (if border then length ws else 0) + length (strip_aux false rest).
Proof.
  induction ws as [|w ws IH]; intros cells rc border bc rest Hrc Hbc Hcells Hfit.
  - simpl. destruct border; reflexivity.
  - destruct cells as [|c cs]; cbn [cells_repr]; repeat rewrite <- app_assoc.
    + rewrite strip_colored; [|assumption | no_such_char].
      rewrite app_length, pad_length, border_strip by assumption.
      rewrite IH; try assumption; [|intros i c H; destruct i; discriminate].
      cbn [total_width length]. destruct border; lia.
    + inversion Hcells as [|c' cs' (Hcol & Hesc & _) Hcs]; subst.
      destruct (fits_tail _ _ _ _ Hfit) as [Hle Hfit'].
      rewrite strip_colored; [|assumption|].
      2:{ simpl. intros [E|Hin]; [discriminate|]. apply in_app_iff in Hin. destruct Hin as [Hin|[E|[]]]; [tauto | discriminate]. }
      rewrite app_length, pad_length, border_strip by assumption.
      rewrite IH; try assumption.
      cbn [total_width length]. rewrite app_length. cbn [length]. destruct border; lia.
Qed.

(* (C20) ignoring colour codes, a line is as wide as the columns say - whatever the cells hold,
   also for a row with fewer cells than columns *)
Lemma row_visible_width ws border bc r :
  row_ok r -> wf_ocolor bc -> fits ws (r_cells r) ->
  length (strip_colors (row_repr ws border bc r)) = line_width ws border.
Proof.
  intros [Hrc Hcells] Hbc Hfit. unfold strip_colors, row_repr, line_width.
  rewrite border_strip by assumption.
  rewrite <- (app_nil_r (cells_repr _ _ _ _ _)).
  rewrite cells_repr_width by assumption. simpl. destruct border; lia.
Qed.

Lemma border_no_nl border bc : wf_ocolor bc -> ~ In NL (border_text border bc).
Proof.
  intros Hbc. destruct border; simpl; [|tauto].
  apply colored_no_nl; [assumption | no_such_char].
Qed.

Lemma cells_repr_no_nl ws : forall cells rc border bc,
  wf_ocolor rc -> wf_ocolor bc -> Forall cell_ok cells -> ~ In NL (cells_repr ws cells rc border bc).
Proof.
  induction ws as [|w ws IH]; intros cells rc border bc Hrc Hbc Hcells; [simpl; tauto|].
  destruct cells as [|c cs]; cbn [cells_repr]; repeat (apply not_in_app; split).
  - apply colored_no_nl; [assumption | no_such_char].
  - apply border_no_nl; assumption.
  - apply IH; assumption.
  - inversion Hcells as [|c' cs' (Hcol & _ & Hnl) Hcs]; subst.
    apply colored_no_nl; [assumption|].
    simpl. intros [E|Hin]; [discriminate|]. apply in_app_iff in Hin. destruct Hin as [Hin|[E|[]]]; [tauto | discriminate].
  - apply border_no_nl; assumption.
  - inversion Hcells; subst. apply IH; assumption.
Qed.

Lemma row_repr_no_nl ws border bc r : row_ok r -> wf_ocolor bc -> ~ In NL (row_repr ws border bc r).
Proof.
  intros [Hrc Hcells] Hbc. unfold row_repr. apply not_in_app. split.
  - apply border_no_nl; assumption.
  - apply cells_repr_no_nl; assumption.
Qed.

Lemma row_repr_nonempty ws border bc r : border = true \/ ws <> [] -> row_repr ws border bc r <> [].
Proof.
  intros [Hb | Hws]; unfold row_repr.
  - subst. simpl. intro H. apply app_eq_nil in H. destruct H as [H _].
    revert H. apply colored_nonempty. discriminate.
  - destruct ws as [|w ws]; [congruence|]. intro H. apply app_eq_nil in H. destruct H as [_ H].
    destruct (r_cells r); cbn [cells_repr] in H; apply app_eq_nil in H; destruct H as [H _];
      revert H; apply colored_nonempty; discriminate.
Qed.

(* ================= lines of the whole text ================= *)

Definition join_lines (ls : list text) : text :=
  match ls with [] => [] | l :: r => l ++ concat (map (cons NL) r) end.

Lemma split_lines_one a : ~ In NL a -> split_lines a = [a].
Proof.
  induction a as [|x a IH]; intros H; simpl; [reflexivity|].
  destruct (N.eqb_spec x NL) as [E|E]; [exfalso; apply H; left; assumption|].
  rewrite IH; [reflexivity|]. intro Hin. apply H. right. assumption.
Qed.

Lemma split_lines_app a b : ~ In NL a -> split_lines (a ++ NL :: b) = a :: split_lines b.
Proof.
  induction a as [|x a IH]; intros H; simpl.
  - reflexivity.
  - destruct (N.eqb_spec x NL) as [E|E]; [exfalso; apply H; left; assumption|].
    rewrite IH; [reflexivity|]. intro Hin. apply H. right. assumption.
Qed.

Lemma split_join ls : ls <> [] -> Forall (fun l => ~ In NL l) ls -> split_lines (join_lines ls) = ls.
Proof.
  destruct ls as [|l ls]; [congruence|]. intros _ H. simpl.
  revert l H. induction ls as [|l' ls IH]; intros l H; simpl.
  - rewrite app_nil_r. apply split_lines_one. inversion H; assumption.
  - inversion H as [|? ? Hl Hr]; subst. rewrite split_lines_app by assumption.
    f_equal. apply IH. assumption.
Qed.

Lemma text_repr_fold (line : row -> text) rows : forall acc,
  acc <> [] ->
  fold_left (fun res r => match res with [] => [] | _ => res ++ [NL] end ++ line r) rows acc
  = acc ++ concat (map (fun r => NL :: line r) rows).
Proof.
  induction rows as [|r rows IH]; intros acc Hacc; simpl.
  - rewrite app_nil_r. reflexivity.
  - rewrite IH.
    + destruct acc; [congruence|]. repeat rewrite <- app_assoc. reflexivity.
    + destruct acc; [congruence | discriminate].
Qed.

Lemma text_repr_join rows border bc :
  border = true \/ widths rows <> [] ->
  text_repr rows border bc = join_lines (map (row_repr (widths rows) border bc) rows).
Proof.
  intros H. unfold text_repr. destruct rows as [|r rows]; [reflexivity|].
  cbn [fold_left map join_lines]. rewrite text_repr_fold.
  - simpl. rewrite map_map. reflexivity.
  - simpl. apply row_repr_nonempty. assumption.
Qed.

(* (C20) the printed text consists of exactly one line per row, in order *)
Lemma text_repr_lines rows border bc :
  rows <> [] -> border = true \/ widths rows <> [] -> Forall row_ok rows -> wf_ocolor bc ->
  split_lines (text_repr rows border bc) = map (row_repr (widths rows) border bc) rows.
Proof.
  intros Hne Hb Hrows Hbc. rewrite text_repr_join by assumption. apply split_join.
  - destruct rows; [congruence | discriminate].
  - apply Forall_forall. intros l Hl. apply in_map_iff in Hl. destruct Hl as (r & <- & Hr).
    apply row_repr_no_nl; [|assumption]. eapply Forall_forall; eassumption.
Qed.

Lemma widths_nonempty rows r : In r rows -> r_cells r <> [] -> widths rows <> [].
Proof.
  intros Hin Hc Hw. destruct (r_cells r) as [|c cs] eqn:E; [congruence|].
  destruct (widths_fit rows r Hin 0 c) as (w & Hw' & _); [rewrite E; reflexivity|].
  rewrite Hw in Hw'. discriminate.
Qed.

(* (C20) all lines of a table have the same visible width, and every column holds its cells *)
Theorem table_aligned rows border bc :
  rows <> [] -> border = true \/ widths rows <> [] -> Forall row_ok rows -> wf_ocolor bc ->
  Forall (fun l => length (strip_colors l) = line_width (widths rows) border)
         (split_lines (text_repr rows border bc)).
Proof.
  intros Hne Hb Hrows Hbc. rewrite text_repr_lines by assumption.
  apply Forall_forall. intros l Hl. apply in_map_iff in Hl. destruct Hl as (r & <- & Hr).
  apply row_visible_width; [eapply Forall_forall; eassumption | assumption | apply widths_fit; assumption].
Qed.

(* ================= which rows a sheet has ================= *)

Section TreeInd.
Variable P : tree -> Prop.
Hypothesis Hnode : forall d ch, Forall P ch -> P (Node d ch).
Fixpoint tree_ind' (t : tree) : P t :=
  match t with
  | Node d ch =>
      Hnode d ch ((fix go (l : list tree) : Forall P l :=
                     match l with
                     | [] => Forall_nil P
                     | x :: r => Forall_cons x (tree_ind' x) (go r)
                     end) ch)
  end.
End TreeInd.

Fixpoint size (t : tree) : nat :=
  match t with Node _ ch => S (fold_right (fun c n => size c + n) 0 ch) end.

Lemma preorder_length t : forall level, length (preorder level t) = size t.
Proof.
  induction t as [d ch IH] using tree_ind'; intros level. simpl. f_equal.
  induction IH as [|c ch Hc _ IHch]; simpl; [reflexivity|].
  rewrite app_length, Hc, IHch. reflexivity.
Qed.

Section Sheets.
Variables upper lower : text -> text.

Lemma subtree_rows_spec fields th t : forall level,
  subtree_rows lower fields th true level t
  = map (fun ld => task_row lower fields th (fst ld) (snd ld)) (preorder level t).
Proof.
  induction t as [d ch IH] using tree_ind'; intros level. simpl. f_equal.
  rewrite map_flat_map. apply flat_map_ext_Forall.
  eapply Forall_impl; [|exact IH]. intros c Hc. apply Hc.
Qed.

Lemma subtree_rows_flat fields th level t :
  subtree_rows lower fields th false level t = [task_row lower fields th level (root_data t)].
Proof. destruct t. reflexivity. Qed.

(* (C20) a sheet is the header row followed by one row per shown task, in depth-first order:
   every descendant when children are shown, only the given tasks otherwise *)
Theorem sheet_rows_spec ts fields children th :
  sheet_rows upper lower ts fields children th
  = header_row upper (the_fields fields) (the_theme th)
    :: map (fun ld => task_row lower (the_fields fields) (the_theme th) (fst ld) (snd ld)) (shown children ts).
Proof.
  unfold sheet_rows, shown. f_equal. destruct children.
  - rewrite map_flat_map. apply flat_map_ext_Forall. apply Forall_forall. intros t _.
    apply subtree_rows_spec.
  - induction ts as [|t ts IH]; simpl; [reflexivity|].
    rewrite subtree_rows_flat. simpl. f_equal. exact IH.
Qed.

Lemma shown_count_children ts : length (shown true ts) = fold_right (fun t n => size t + n) 0 ts.
Proof.
  unfold shown. induction ts as [|t ts IH]; simpl; [reflexivity|].
  rewrite app_length, preorder_length, IH. reflexivity.
Qed.

Lemma shown_count_flat ts : length (shown false ts) = length ts.
Proof. unfold shown. apply map_length. Qed.

Lemma sheet_rows_count ts fields children th :
  length (sheet_rows upper lower ts fields children th) = S (length (shown children ts)).
Proof. rewrite sheet_rows_spec. simpl. rewrite map_length. reflexivity. Qed.

Lemma header_cells fields th : length (r_cells (header_row upper fields th)) = length fields.
Proof. unfold header_row, build_row. simpl. rewrite !map_length. reflexivity. Qed.

Lemma sheet_widths_nonempty ts fields children th :
  the_fields fields <> [] -> widths (sheet_rows upper lower ts fields children th) <> [].
Proof.
  intros Hf. apply widths_nonempty with (r := header_row upper (the_fields fields) (the_theme th)).
  - unfold sheet_rows. left. reflexivity.
  - intro H. apply Hf. apply length_zero_iff_nil. rewrite <- (header_cells (the_fields fields) (the_theme th)), H. reflexivity.
Qed.

(* (C20) the printed sheet has one header line plus one line per shown task, each the rendering of
   its row; all lines have the same visible width, the sum of the column widths and margins *)
Theorem sheet_lines ts fields children th :
  let rows := sheet_rows upper lower ts fields children th in
  the_fields fields <> [] -> Forall row_ok rows ->
  split_lines (sheet_text upper lower ts fields children th) = map (row_repr (widths rows) false None) rows
  /\ length (split_lines (sheet_text upper lower ts fields children th)) = S (length (shown children ts))
  /\ Forall (fun l => length (strip_colors l) = total_width (widths rows))
            (split_lines (sheet_text upper lower ts fields children th)).
Proof.
  intros rows Hf Hok. unfold sheet_text. fold rows.
  assert (Hne : rows <> []) by (unfold rows, sheet_rows; discriminate).
  assert (Hw : false = true \/ widths rows <> []) by (right; apply sheet_widths_nonempty; assumption).
  split; [|split].
  - apply text_repr_lines; try assumption. apply wf_ocolor_none.
  - rewrite text_repr_lines; try assumption; [|apply wf_ocolor_none].
    rewrite map_length. apply sheet_rows_count.
  - pose proof (table_aligned rows false None Hne Hw Hok wf_ocolor_none) as H.
    unfold line_width in H. eapply Forall_impl; [|exact H]. simpl. intros l Hl. lia.
Qed.

(* ================= indentation ================= *)

Lemma level_indent_spaces level : level_indent level = repeat SP (3 * level).
Proof.
  unfold level_indent, sheet_indent. induction level as [|l IH]; [reflexivity|].
  replace (3 * S l) with (S (S (S (3 * l)))) by lia. simpl. rewrite IH. reflexivity.
Qed.

Lemma task_row_cell fields th level d j f :
  nth_error fields j = Some f ->
  exists c, nth_error (r_cells (task_row lower fields th level d)) j = Some c
            /\ c_text c = cell_value lower level d f
            /\ c_color c = row_color th level d.
Proof.
  intros Hj. unfold task_row, build_row. simpl. rewrite map_map.
  eexists. split; [apply map_nth_error; exact Hj|]. split; reflexivity.
Qed.

(* (C20) in every column whose field is 'name' the cell is three spaces per level, then the name
   (nothing for a None name) *)
Theorem name_cell_indented fields th level d j :
  nth_error fields j = Some sheet_fld_name ->
  exists c, nth_error (r_cells (task_row lower fields th level d)) j = Some c
            /\ c_text c = repeat SP (3 * level) ++ opt_text (t_name d).
Proof.
  intros Hj. destruct (task_row_cell fields th level d j _ Hj) as (c & Hc & Ht & _).
  exists c. split; [assumption|]. rewrite Ht. unfold cell_value.
  rewrite text_eqb_refl. unfold name_cell. rewrite level_indent_spaces. reflexivity.
Qed.

(* the level a shown task is printed with is its depth below the given task *)
Lemma preorder_occurs t : forall k l d,
  In (l, d) (preorder k t) <-> exists l', l = k + l' /\ occurs t l' d.
Proof.
  induction t as [d0 ch IH] using tree_ind'; intros k l d. simpl. split.
  - intros [Heq | Hin].
    + inversion Heq; subst. exists 0. split; [lia | constructor].
    + apply in_flat_map in Hin. destruct Hin as (c & Hc & Hin).
      rewrite Forall_forall in IH. apply (IH c Hc) in Hin. destruct Hin as (l' & -> & Hocc).
      exists (S l'). split; [lia|]. econstructor; eassumption.
  - intros (l' & -> & Hocc). inversion Hocc as [d1 ch1 | d1 ch1 c l1 d2 Hc Hocc']; subst.
    + left. f_equal. lia.
    + right. apply in_flat_map. exists c. split; [assumption|].
      rewrite Forall_forall in IH. apply (IH c); [assumption|]. exists l1. split; [lia | assumption].
Qed.

Theorem shown_levels ts l d :
  (In (l, d) (shown true ts) <-> exists t, In t ts /\ occurs t l d) /\
  (In (l, d) (shown false ts) <-> l = 0 /\ exists t, In t ts /\ d = root_data t).
Proof.
  unfold shown. split.
  - rewrite in_flat_map. split.
    + intros (t & Ht & Hin). apply preorder_occurs in Hin. destruct Hin as (l' & -> & Hocc). exists t. split; assumption.
    + intros (t & Ht & Hocc). exists t. split; [assumption|]. apply preorder_occurs. exists l. split; [reflexivity | assumption].
  - rewrite in_map_iff. split.
    + intros (t & Heq & Ht). inversion Heq; subst. split; [reflexivity|]. exists t. split; [assumption | reflexivity].
    + intros (-> & t & Ht & ->). exists t. split; [reflexivity | assumption].
Qed.

(* ================= dependency and parent columns ================= *)

Lemma owner_eqb_spec a b : owner_eqb a b = true <-> a = b.
Proof. apply opt_eqb_spec. intros x y. apply Nat.eqb_eq. Qed.

(* "(external)" *)
Definition external_marker : text := [40; 101; 120; 116; 101; 114; 110; 97; 108; 41]%N.

(* (C20) a linked task is shown by its id, followed by the marker exactly when its WBS is not the
   WBS of the task of the row *)
Theorem link_text_spec t l :
  id_is_empty (l_id l) = false ->
  (l_owner l = t_owner t -> link_text t (Some l) = id_text (l_id l)) /\
  (l_owner l <> t_owner t -> link_text t (Some l) = id_text (l_id l) ++ external_marker).
Proof.
  intros He. unfold link_text. rewrite He. split; intros H.
  - apply owner_eqb_spec in H. rewrite H. apply app_nil_r.
  - destruct (owner_eqb (l_owner l) (t_owner t)) eqn:E; [apply owner_eqb_spec in E; contradiction | reflexivity].
Qed.

Theorem link_columns t :
  field_value lower t sheet_fld_predecessors
    = sheet_lbracket ++ join sheet_link_sep (map (fun l => link_text t (Some l)) (t_preds t)) ++ sheet_rbracket
  /\ field_value lower t sheet_fld_successors
    = sheet_lbracket ++ join sheet_link_sep (map (fun l => link_text t (Some l)) (t_succs t)) ++ sheet_rbracket
  /\ field_value lower t sheet_fld_parent = link_text t (t_parent t)
  /\ link_text t None = [].
Proof. repeat split; reflexivity. Qed.

(* an unknown field gives an empty cell, a None attribute a dash *)
Lemma unknown_field_empty t f :
  existsb (text_eqb f) [sheet_fld_predecessors; sheet_fld_successors; sheet_fld_parent; sheet_fld_id;
                        sheet_fld_estimate; sheet_fld_spent] = false ->
  dict_get t f = None -> dict_get t (lower f) = None -> field_value lower t f = [].
Proof.
  intros Hsp H1 H2. unfold field_value. simpl in Hsp.
  repeat (apply orb_false_iff in Hsp; let E := fresh "E" in destruct Hsp as [E Hsp]; rewrite E).
  rewrite H1, H2. reflexivity.
Qed.

(* ================= usage table ================= *)

Lemma days_loop_spec n : forall d mx,
  (mx < d + Z.of_nat n * DAY)%Z -> (n > 0 -> (d + (Z.of_nat n - 1) * DAY <= mx)%Z) ->
  days_loop n d mx = map (fun k => d + Z.of_nat k * DAY)%Z (seq 0 n).
Proof.
  induction n as [|n IH]; intros d mx Hlt Hle; [reflexivity|].
  cbn [days_loop]. unfold DAY in *.
  destruct (Z.leb_spec d mx) as [Hd|Hd]; [|lia].
  rewrite IH; [|lia|lia].
  cbn [seq map]. f_equal; [lia|].
  rewrite <- seq_shift, map_map. apply map_ext. intros k. lia.
Qed.

(* (C20) the loop visits the first day, then every following day up to the last one *)
Lemma usage_days_spec mn mx :
  (mn <= mx)%Z ->
  usage_days mn mx = map (fun k => mn + Z.of_nat k * DAY)%Z (seq 0 (Z.to_nat ((mx - mn) / DAY + 1))).
Proof.
  intros H. unfold usage_days. apply days_loop_spec; unfold DAY in *.
  - rewrite Z2Nat.id by (apply Z.add_nonneg_nonneg; [apply Z.div_pos|]; lia).
    pose proof (Z.mod_pos_bound (mx - mn) 86400000000). pose proof (Z.div_mod (mx - mn) 86400000000). lia.
  - intros _. rewrite Z2Nat.id by (apply Z.add_nonneg_nonneg; [apply Z.div_pos|]; lia).
    pose proof (Z.mod_pos_bound (mx - mn) 86400000000). pose proof (Z.div_mod (mx - mn) 86400000000). lia.
Qed.

Lemma zmin_le_zmax l : forall a b, (a <= b)%Z -> (zmin_list a l <= zmax_list b l)%Z.
Proof. induction l as [|y l IH]; intros a b H; simpl; [assumption | apply IH; lia]. Qed.

Lemma day_start_mono a b : (a <= b)%Z -> (day_start a <= day_start b)%Z.
Proof. intros H. unfold day_start. pose proof (day_of_mono a b H) as Hm. unfold day_of in Hm. unfold DAY in *. lia. Qed.

Lemma zmin_day_start l : forall x, zmin_list (day_start x) (map day_start l) = day_start (zmin_list x l).
Proof.
  induction l as [|y l IH]; intros x; simpl; [reflexivity|]. rewrite <- IH. f_equal.
  destruct (Z.le_ge_cases x y) as [H|H].
  - rewrite !Z.min_l; [reflexivity | assumption | apply day_start_mono; assumption].
  - rewrite !Z.min_r; [reflexivity | assumption | apply day_start_mono; assumption].
Qed.

Lemma zmax_day_start l : forall x, zmax_list (day_start x) (map day_start l) = day_start (zmax_list x l).
Proof.
  induction l as [|y l IH]; intros x; simpl; [reflexivity|]. rewrite <- IH. f_equal.
  destruct (Z.le_ge_cases x y) as [H|H].
  - rewrite !Z.max_r; [reflexivity | assumption | apply day_start_mono; assumption].
  - rewrite !Z.max_l; [reflexivity | assumption | apply day_start_mono; assumption].
Qed.

Lemma zmin_day_of l : forall x, zmin_list (day_of x) (map day_of l) = day_of (zmin_list x l).
Proof.
  induction l as [|y l IH]; intros x; simpl; [reflexivity|]. rewrite <- IH. f_equal.
  destruct (Z.le_ge_cases x y) as [H|H].
  - rewrite !Z.min_l; [reflexivity | assumption | apply day_of_mono; assumption].
  - rewrite !Z.min_r; [reflexivity | assumption | apply day_of_mono; assumption].
Qed.

Lemma zmax_day_of l : forall x, zmax_list (day_of x) (map day_of l) = day_of (zmax_list x l).
Proof.
  induction l as [|y l IH]; intros x; simpl; [reflexivity|]. rewrite <- IH. f_equal.
  destruct (Z.le_ge_cases x y) as [H|H].
  - rewrite !Z.max_r; [reflexivity | assumption | apply day_of_mono; assumption].
  - rewrite !Z.max_l; [reflexivity | assumption | apply day_of_mono; assumption].
Qed.

(* the days between two dates, both included *)
Definition days_between (first last : Z) : list Z :=
  map (fun k => DAY * (day_of first + Z.of_nat k))%Z (seq 0 (Z.to_nat (day_of last - day_of first + 1))).

(* (C20) the usage table is the header plus one row per day from the day of the earliest
   reservation to the day of the latest one *)
Theorem usage_rows_spec x l cols cells :
  let u := mk_usage (x :: l) cols cells in
  usage_rows upper u
  = usage_header upper u :: map (usage_day_row u) (days_between (zmin_list x l) (zmax_list x l))
  /\ length (usage_rows upper u) = S (Z.to_nat (day_of (zmax_list x l) - day_of (zmin_list x l) + 1)).
Proof.
  intros u.
  assert (Hrows : usage_rows upper u
            = usage_header upper u :: map (usage_day_row u) (days_between (zmin_list x l) (zmax_list x l))).
  { unfold usage_rows, first_day, last_day. cbn [u u_dates map].
    rewrite zmin_day_start, zmax_day_start.
    assert (Hle : (zmin_list x l <= zmax_list x l)%Z) by (apply zmin_le_zmax; lia).
    rewrite usage_days_spec by (apply day_start_mono; assumption).
    f_equal. f_equal. unfold days_between.
    assert (Hn : ((day_start (zmax_list x l) - day_start (zmin_list x l)) / DAY
                  = day_of (zmax_list x l) - day_of (zmin_list x l))%Z).
    { unfold day_start. rewrite <- Z.mul_sub_distr_l, Z.mul_comm. apply Z.div_mul. unfold DAY. lia. }
    rewrite Hn. apply map_ext. intros k. unfold day_start, day_of, DAY. lia. }
  split; [exact Hrows|]. rewrite Hrows. cbn [length]. unfold days_between. rewrite !map_length, seq_length. reflexivity.
Qed.

(* the printed usage table: one line per row, all of the same visible width *)
Theorem usage_lines u :
  u_dates u <> [] ->
  let rows := usage_rows upper u in
  Forall row_ok rows ->
  split_lines (usage_text upper u) = map (row_repr (widths rows) true None) rows
  /\ Forall (fun l => length (strip_colors l) = line_width (widths rows) true) (split_lines (usage_text upper u)).
Proof.
  intros Hd rows Hok. unfold usage_text. destruct (u_dates u) as [|x l] eqn:E; [congruence|]. fold rows.
  assert (Hne : rows <> []) by (unfold rows, usage_rows; discriminate).
  split.
  - apply text_repr_lines; try assumption; [left; reflexivity | apply wf_ocolor_none].
  - apply table_aligned; try assumption; [left; reflexivity | apply wf_ocolor_none].
Qed.

End Sheets.

(* ================= meaning of the oracles of SheetCheck ================= *)

Lemma same_width_b_spec lines :
  same_width_b lines = true <->
  forall l, In l lines -> length (strip_colors l) = length (strip_colors (hd [] lines)).
Proof.
  destruct lines as [|l0 ls]; simpl.
  - split; [intros _ l [] | reflexivity].
  - rewrite forallb_forall. unfold vis_len. split.
    + intros H l [<- | Hin]; [reflexivity | apply Nat.eqb_eq, H, Hin].
    + intros H l Hin. apply Nat.eqb_eq, H. right. assumption.
Qed.

Lemma line_count_b_spec lines n : line_count_b lines n = true <-> length lines = S n.
Proof. unfold line_count_b. apply Nat.eqb_eq. Qed.

Lemma name_cell_b_spec line off w level name :
  name_cell_b line off w level name = true <->
  firstn (w + 2) (skipn off (strip_colors line)) = pad (SP :: repeat SP (3 * level) ++ name ++ [SP]) (w + 2).
Proof. unfold name_cell_b. apply text_eqb_spec. Qed.

(* the number of days the usage oracle demands is the one of the theorem *)
Lemma day_span_spec x l :
  day_span (x :: l) = Z.to_nat (day_of (zmax_list x l) - day_of (zmin_list x l) + 1).
Proof. unfold day_span. cbn [map]. rewrite zmin_day_of, zmax_day_of. reflexivity. Qed.

(* ================= the hypotheses of the width theorems, decidably ================= *)

Definition no_char_b (c : N) (t : text) : bool := forallb (fun y => negb (N.eqb y c)) t.

Lemma no_char_b_sound c t : no_char_b c t = true -> ~ In c t.
Proof.
  unfold no_char_b. rewrite forallb_forall. intros H Hin. apply H in Hin.
  rewrite N.eqb_refl in Hin. discriminate.
Qed.

Definition wf_color_b (c : text) : bool :=
  no_char_b NL c &&
  match rev c with
  | [] => true
  | x :: b => N.eqb x LM && no_char_b LM b
  end.

Definition wf_ocolor_b (o : option text) : bool :=
  match o with None => true | Some c => wf_color_b c end.

Lemma wf_ocolor_b_sound o : wf_ocolor_b o = true -> wf_ocolor o.
Proof.
  intros H c ->. simpl in H. unfold wf_color_b in H. apply andb_true_iff in H. destruct H as [Hnl H].
  split; [apply no_char_b_sound; assumption|].
  destruct (rev c) as [|x b] eqn:E.
  - left. rewrite <- (rev_involutive c), E. reflexivity.
  - right. apply andb_true_iff in H. destruct H as [Hx Hb]. apply N.eqb_eq in Hx. subst x.
    exists (rev b). split.
    + rewrite <- (rev_involutive c), E. reflexivity.
    + intro Hin. apply in_rev in Hin. revert Hin. apply no_char_b_sound. assumption.
Qed.

Definition cell_ok_b (c : cell) : bool :=
  wf_ocolor_b (c_color c) && no_char_b ESC (c_text c) && no_char_b NL (c_text c).
Definition row_ok_b (r : row) : bool := wf_ocolor_b (r_color r) && forallb cell_ok_b (r_cells r).

Lemma row_ok_b_sound r : row_ok_b r = true -> row_ok r.
Proof.
  unfold row_ok_b, row_ok. intros H. apply andb_true_iff in H. destruct H as [Hc Hcells].
  split; [apply wf_ocolor_b_sound; assumption|].
  apply Forall_forall. intros c Hin. rewrite forallb_forall in Hcells. apply Hcells in Hin.
  unfold cell_ok_b in Hin. apply andb_true_iff in Hin. destruct Hin as [Hin Hnl].
  apply andb_true_iff in Hin. destruct Hin as [Hcol Hesc].
  unfold cell_ok. split; [apply wf_ocolor_b_sound; assumption|].
  split; apply no_char_b_sound; assumption.
Qed.

Lemma rows_ok_b_sound rows : forallb row_ok_b rows = true -> Forall row_ok rows.
Proof.
  intros H. apply Forall_forall. intros r Hin. rewrite forallb_forall in H.
  apply row_ok_b_sound, H, Hin.
Qed.
