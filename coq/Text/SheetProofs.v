(* C20 - proofs about the sheet model (Text/Sheet.v) and the meaning of the oracles of
   Text/SheetCheck.v.  Statements used by Props/Props_C20.v are marked (C20). *)
From Coq Require Import NArith Lia.
From PJ Require Import Base.Prelude gen.Consts Text.Sheet Text.SheetCheck.
Local Open Scope nat_scope.

(* ================= generic list facts ================= *)

Lemma not_in_app {A} (x : A) (a b : list A) : ~ In x (a ++ b) <-> ~ In x a /\ ~ In x b.
Proof. rewrite in_app_iff. tauto. Qed.

Lemma not_in_repeat {A} (x y : A) n : x <> y -> ~ In x (repeat y n).
Proof. intros Hxy Hin. apply repeat_spec in Hin. congruence. Qed.

(* x is none of the listed characters *)
Ltac notin := unfold NL, ESC, LM, SP, BAR; notin.

Lemma map_flat_map {A B C} (f : B -> C) (g : A -> list B) (l : list A) :
  map f (flat_map g l) = flat_map (fun x => map f (g x)) l.
Proof. induction l as [|x l IH]; simpl; [reflexivity|]. rewrite map_app, IH. reflexivity. Qed.

Lemma flat_map_ext_Forall {A B} (f g : A -> list B) (l : list A) :
  Forall (fun x => f x = g x) l -> flat_map f l = flat_map g l.
Proof. induction 1 as [|x l Hx _ IH]; simpl; [reflexivity|]. rewrite Hx, IH. reflexivity. Qed.

Lemma text_eqb_spec (a b : text) : text_eqb a b = true <-> a = b.
Proof. apply list_eqb_spec. intros x y. apply N.eqb_eq. Qed.

Lemma text_eqb_refl (a : text) : text_eqb a a = true.
Proof. apply text_eqb_spec. reflexivity. Qed.

(* ================= column widths ================= *)

(* ws is at least ls, position by position *)
Definition covers (ws ls : list nat) : Prop :=
  forall i l, nth_error ls i = Some l -> exists w, nth_error ws i = Some w /\ l <= w.

Lemma covers_refl ws : covers ws ws.
Proof. intros i l H. exists l. split; [assumption | lia]. Qed.

Lemma covers_trans a b c : covers a b -> covers b c -> covers a c.
Proof.
  intros Hab Hbc i l H. destruct (Hbc i l H) as (w & Hw & Hle).
  destruct (Hab i w Hw) as (w' & Hw' & Hle'). exists w'. split; [assumption | lia].
Qed.

Lemma merge_covers_l ws : forall ls, covers (merge_widths ws ls) ws.
Proof.
  induction ws as [|w ws IH]; intros ls i l H.
  - destruct i; discriminate.
  - destruct ls as [|l0 ls]; simpl.
    + exists l. split; [assumption | lia].
    + destruct i as [|i]; simpl in *.
      * inversion H; subst. exists (Nat.max l0 l). split; [reflexivity | lia].
      * apply IH. assumption.
Qed.

Lemma merge_covers_r ws : forall ls, covers (merge_widths ws ls) ls.
Proof.
  induction ws as [|w ws IH]; intros ls i l H.
  - simpl. exists l. split; [assumption | lia].
  - destruct ls as [|l0 ls]; simpl.
    + destruct i; discriminate.
    + destruct i as [|i]; simpl in *.
      * inversion H; subst. exists (Nat.max l w). split; [reflexivity | lia].
      * apply IH. assumption.
Qed.

Lemma widths_fold_covers rows : forall acc,
  covers (fold_left (fun ws r => merge_widths ws (cell_lens r)) rows acc) acc /\
  forall r, In r rows -> covers (fold_left (fun ws r => merge_widths ws (cell_lens r)) rows acc) (cell_lens r).
Proof.
  induction rows as [|r0 rows IH]; intros acc; simpl.
  - split; [apply covers_refl | intros r []].
  - destruct (IH (merge_widths acc (cell_lens r0))) as [Hacc Hrows]. split.
    + eapply covers_trans; [exact Hacc | apply merge_covers_l].
    + intros r [Heq | Hin].
      * subst. eapply covers_trans; [exact Hacc | apply merge_covers_r].
      * apply Hrows. assumption.
Qed.

(* a row fits the widths: every one of its cells has a column at least as wide *)
Definition fits (ws : list nat) (cells : list cell) : Prop :=
  forall i c, nth_error cells i = Some c -> exists w, nth_error ws i = Some w /\ length (c_text c) <= w.

(* (C20) every column is wide enough for every cell of it *)
Lemma widths_fit rows r : In r rows -> fits (widths rows) (r_cells r).
Proof.
  intros Hin i c Hc.
  destruct (widths_fold_covers rows []) as [_ H].
  apply (H r Hin i (length (c_text c))).
  unfold cell_lens. apply map_nth_error with (f := fun c => length (c_text c)) in Hc. exact Hc.
Qed.

(* ================= colour codes ================= *)

(* a colour code: characters other than m, then m;  the empty colour prints nothing *)
Definition wf_color (c : text) : Prop := exists b, c = b ++ [LM] /\ ~ In LM b.
Definition wf_ocolor (o : option text) : Prop :=
  forall c, o = Some c -> ~ In NL c /\ (c = [] \/ wf_color c).

Lemma wf_ocolor_none : wf_ocolor None.
Proof. intros c H. discriminate. Qed.

Lemma strip_copy t : forall r, ~ In ESC t -> strip_aux false (t ++ r) = t ++ strip_aux false r.
Proof.
  induction t as [|x t IH]; intros r H; simpl; [reflexivity|].
  destruct (N.eqb_spec x ESC) as [E|E].
  - exfalso. apply H. left. assumption.
  - rewrite IH; [reflexivity|]. intro Hin. apply H. right. assumption.
Qed.

Lemma strip_skip b : forall r, ~ In LM b -> strip_aux true (b ++ LM :: r) = strip_aux false r.
Proof.
  induction b as [|x b IH]; intros r H; simpl.
  - reflexivity.
  - destruct (N.eqb_spec x LM) as [E|E].
    + exfalso. apply H. left. assumption.
    + simpl. apply IH. intro Hin. apply H. right. assumption.
Qed.

Lemma pad_length t w : length (pad t w) = Nat.max (length t) w.
Proof. unfold pad. rewrite app_length, repeat_length. lia. Qed.

Lemma pad_no c t w : c <> SP -> ~ In c t -> ~ In c (pad t w).
Proof. intros Hc Ht. unfold pad. apply not_in_app. split; [assumption | apply not_in_repeat; assumption]. Qed.

(* (C20) what remains of a coloured cell when the colour codes are ignored: the padded text *)
Lemma strip_colored t w col rest :
  wf_ocolor col -> ~ In ESC t ->
  strip_aux false (colored_text t w col ++ rest) = pad t w ++ strip_aux false rest.
Proof.
  intros Hcol Ht.
  assert (Hpad : ~ In ESC (pad t w)) by (apply pad_no; [discriminate | assumption]).
  destruct col as [[|x c]|]; cbn [colored_text]; try (apply strip_copy; assumption).
  destruct (Hcol (x :: c) eq_refl) as [_ [Hnil | (b & Hb & Hnom)]]; [discriminate|].
  rewrite Hb. unfold tt_esc_prefix, tt_esc_suffix.
  repeat rewrite <- app_assoc. simpl.
  rewrite strip_skip by assumption.
  rewrite strip_copy by assumption. reflexivity.
Qed.

Lemma colored_no_nl t w col : wf_ocolor col -> ~ In NL t -> ~ In NL (colored_text t w col).
Proof.
  intros Hcol Ht.
  assert (Hpad : ~ In NL (pad t w)) by (apply pad_no; [discriminate | assumption]).
  destruct col as [[|x c]|]; cbn [colored_text]; try assumption.
  destruct (Hcol (x :: c) eq_refl) as [Hnl _].
  unfold tt_esc_prefix, tt_esc_suffix.
  repeat (apply not_in_app; split); try assumption; notin.
Qed.

Lemma colored_nonempty t w col : t <> [] -> colored_text t w col <> [].
Proof.
  intros Ht. destruct col as [[|x c]|]; simpl; unfold pad; try (destruct t; [congruence | discriminate]).
  unfold tt_esc_prefix. discriminate.
Qed.

(* ================= one line of the table ================= *)

Definition cell_ok (c : cell) : Prop :=
  wf_ocolor (c_color c) /\ ~ In ESC (c_text c) /\ ~ In NL (c_text c).
Definition row_ok (r : row) : Prop := wf_ocolor (r_color r) /\ Forall cell_ok (r_cells r).

Fixpoint total_width (ws : list nat) : nat :=
  match ws with [] => 0 | w :: r => (w + 2) + total_width r end.

(* visible width of a line: every column plus its two margins, plus the bars of the border *)
Definition line_width (ws : list nat) (border : bool) : nat :=
  total_width ws + (if border then S (length ws) else 0).

Lemma border_strip border bc rest :
  wf_ocolor bc ->
  length (strip_aux false (border_text border bc ++ rest)) = (if border then 1 else 0) + length (strip_aux false rest).
Proof.
  intros Hbc. destruct border; simpl border_text; [|reflexivity].
  rewrite strip_colored; [|assumption | notin].
  rewrite app_length, pad_length. reflexivity.
Qed.

Lemma fits_tail w ws c cs : fits (w :: ws) (c :: cs) -> length (c_text c) <= w /\ fits ws cs.
Proof.
  intros H. split.
  - destruct (H 0 c eq_refl) as (w' & Hw & Hle). inversion Hw; subst. assumption.
  - intros i c' Hc'. apply (H (S i) c'). assumption.
Qed.

Lemma cells_repr_width ws : forall cells rc border bc rest,
  wf_ocolor rc -> wf_ocolor bc -> Forall cell_ok cells -> fits ws cells ->
  length (strip_aux false (cells_repr ws cells rc border bc ++ rest))
  = total_width ws + (if border then length ws else 0) + length (strip_aux false rest).
Proof.
  induction ws as [|w ws IH]; intros cells rc border bc rest Hrc Hbc Hcells Hfit.
  - simpl. destruct border; reflexivity.
  - destruct cells as [|c cs]; cbn [cells_repr]; repeat rewrite <- app_assoc.
    + rewrite strip_colored; [|assumption | notin].
      rewrite app_length, pad_length, border_strip by assumption.
      rewrite IH; try assumption; [|intros i c H; destruct i; discriminate].
      cbn [total_width length]. destruct border; lia.
    + inversion Hcells as [|c' cs' (Hcol & Hesc & _) Hcs]; subst.
      destruct (fits_tail _ _ _ _ Hfit) as [Hle Hfit'].
      rewrite strip_colored; [|assumption|].
      2:{ simpl. intros [E|Hin]; [discriminate|]. apply in_app_iff in Hin. destruct Hin as [Hin|[E|[]]]; [tauto | discriminate]. }
      rewrite app_length, pad_length, border_strip by assumption.
      rewrite IH; try assumption.
      cbn [total_width length]. rewrite app_length. cbn [length]. destruct border; lia.
Qed.

(* (C20) ignoring colour codes, a line is as wide as the columns say - whatever the cells hold,
   also for a row with fewer cells than columns *)
Lemma row_visible_width ws border bc r :
  row_ok r -> wf_ocolor bc -> fits ws (r_cells r) ->
  length (strip_colors (row_repr ws border bc r)) = line_width ws border.
Proof.
  intros [Hrc Hcells] Hbc Hfit. unfold strip_colors, row_repr, line_width.
  rewrite border_strip by assumption.
  rewrite <- (app_nil_r (cells_repr _ _ _ _ _)).
  rewrite cells_repr_width by assumption. simpl. destruct border; lia.
Qed.

Lemma border_no_nl border bc : wf_ocolor bc -> ~ In NL (border_text border bc).
Proof.
  intros Hbc. destruct border; simpl; [|tauto].
  apply colored_no_nl; [assumption | notin].
Qed.

Lemma cells_repr_no_nl ws : forall cells rc border bc,
  wf_ocolor rc -> wf_ocolor bc -> Forall cell_ok cells -> ~ In NL (cells_repr ws cells rc border bc).
Proof.
  induction ws as [|w ws IH]; intros cells rc border bc Hrc Hbc Hcells; [simpl; tauto|].
  destruct cells as [|c cs]; cbn [cells_repr]; repeat (apply not_in_app; split).
  - apply colored_no_nl; [assumption | notin].
  - apply border_no_nl; assumption.
  - apply IH; assumption.
  - inversion Hcells as [|c' cs' (Hcol & _ & Hnl) Hcs]; subst.
    apply colored_no_nl; [assumption|].
    simpl. intros [E|Hin]; [discriminate|]. apply in_app_iff in Hin. destruct Hin as [Hin|[E|[]]]; [tauto | discriminate].
  - apply border_no_nl; assumption.
  - inversion Hcells; subst. apply IH; assumption.
Qed.

Lemma row_repr_no_nl ws border bc r : row_ok r -> wf_ocolor bc -> ~ In NL (row_repr ws border bc r).
Proof.
  intros [Hrc Hcells] Hbc. unfold row_repr. apply not_in_app. split.
  - apply border_no_nl; assumption.
  - apply cells_repr_no_nl; assumption.
Qed.

Lemma row_repr_nonempty ws border bc r : border = true \/ ws <> [] -> row_repr ws border bc r <> [].
Proof.
  intros [Hb | Hws]; unfold row_repr.
  - subst. simpl. intro H. apply app_eq_nil in H. destruct H as [H _].
    revert H. apply colored_nonempty. discriminate.
  - destruct ws as [|w ws]; [congruence|]. intro H. apply app_eq_nil in H. destruct H as [_ H].
    destruct (r_cells r); cbn [cells_repr] in H; apply app_eq_nil in H; destruct H as [H _];
      revert H; apply colored_nonempty; discriminate.
Qed.

(* ================= lines of the whole text ================= *)

Definition join_lines (ls : list text) : text :=
  match ls with [] => [] | l :: r => l ++ concat (map (cons NL) r) end.

Lemma split_lines_one a : ~ In NL a -> split_lines a = [a].
Proof.
  induction a as [|x a IH]; intros H; simpl; [reflexivity|].
  destruct (N.eqb_spec x NL) as [E|E]; [exfalso; apply H; left; assumption|].
  rewrite IH; [reflexivity|]. intro Hin. apply H. right. assumption.
Qed.

Lemma split_lines_app a b : ~ In NL a -> split_lines (a ++ NL :: b) = a :: split_lines b.
Proof.
  induction a as [|x a IH]; intros H; simpl.
  - reflexivity.
  - destruct (N.eqb_spec x NL) as [E|E]; [exfalso; apply H; left; assumption|].
    rewrite IH; [reflexivity|]. intro Hin. apply H. right. assumption.
Qed.

Lemma split_join ls : ls <> [] -> Forall (fun l => ~ In NL l) ls -> split_lines (join_lines ls) = ls.
Proof.
  destruct ls as [|l ls]; [congruence|]. intros _ H. simpl.
  revert l H. induction ls as [|l' ls IH]; intros l H; simpl.
  - rewrite app_nil_r. apply split_lines_one. inversion H; assumption.
  - inversion H as [|? ? Hl Hr]; subst. rewrite split_lines_app by assumption.
    f_equal. apply IH. assumption.
Qed.

Lemma text_repr_fold (line : row -> text) rows : forall acc,
  acc <> [] ->
  fold_left (fun res r => match res with [] => [] | _ => res ++ [NL] end ++ line r) rows acc
  = acc ++ concat (map (fun r => NL :: line r) rows).
Proof.
  induction rows as [|r rows IH]; intros acc Hacc; simpl.
  - rewrite app_nil_r. reflexivity.
  - rewrite IH.
    + destruct acc; [congruence|]. repeat rewrite <- app_assoc. reflexivity.
    + destruct acc; [congruence | discriminate].
Qed.

Lemma text_repr_join rows border bc :
  border = true \/ widths rows <> [] ->
  text_repr rows border bc = join_lines (map (row_repr (widths rows) border bc) rows).
Proof.
  intros H. unfold text_repr. destruct rows as [|r rows]; [reflexivity|].
  cbn [fold_left map join_lines]. rewrite text_repr_fold.
  - simpl. rewrite map_map. reflexivity.
  - simpl. apply row_repr_nonempty. assumption.
Qed.

(* (C20) the printed text consists of exactly one line per row, in order *)
Lemma text_repr_lines rows border bc :
  rows <> [] -> border = true \/ widths rows <> [] -> Forall row_ok rows -> wf_ocolor bc ->
  split_lines (text_repr rows border bc) = map (row_repr (widths rows) border bc) rows.
Proof.
  intros Hne Hb Hrows Hbc. rewrite text_repr_join by assumption. apply split_join.
  - destruct rows; [congruence | discriminate].
  - apply Forall_forall. intros l Hl. apply in_map_iff in Hl. destruct Hl as (r & <- & Hr).
    apply row_repr_no_nl; [|assumption]. eapply Forall_forall; eassumption.
Qed.

Lemma widths_nonempty rows r : In r rows -> r_cells r <> [] -> widths rows <> [].
Proof.
  intros Hin Hc Hw. destruct (r_cells r) as [|c cs] eqn:E; [congruence|].
  destruct (widths_fit rows r Hin 0 c) as (w & Hw' & _); [rewrite E; reflexivity|].
  rewrite Hw in Hw'. discriminate.
Qed.

(* (C20) all lines of a table have the same visible width, and every column holds its cells *)
Theorem table_aligned rows border bc :
  rows <> [] -> border = true \/ widths rows <> [] -> Forall row_ok rows -> wf_ocolor bc ->
  Forall (fun l => length (strip_colors l) = line_width (widths rows) border)
         (split_lines (text_repr rows border bc)).
Proof.
  intros Hne Hb Hrows Hbc. rewrite text_repr_lines by assumption.
  apply Forall_forall. intros l Hl. apply in_map_iff in Hl. destruct Hl as (r & <- & Hr).
  apply row_visible_width; [eapply Forall_forall; eassumption | assumption | apply widths_fit; assumption].
Qed.
