(* C20 - model of the text sheets: utils.TextTable (cells with colours, column widths, padding,
   optional border), task._Repr (header row, one row per shown task in preorder, indented name,
   field values) and schedule.ResourceUsageReport.__repr__ (one line per day).
   Only definitions here; the proofs are in Text/SheetProofs.v.
   Text is a list of code points, so [length] is Python's [len].  All literal strings and colour
   codes come from gen/Consts.v, i.e. from the source of the repository as it is now. *)
From Coq Require Import NArith Decimal.
From PJ Require Import Base.Prelude gen.Consts.
Local Open Scope nat_scope.

Definition text := list N.
Definition SP : N := 32%N.     (* ' ' *)
Definition NL : N := 10%N.     (* '\n' *)
Definition ESC : N := 27%N.    (* '\033' *)
Definition BAR : N := 124%N.   (* '|' *)
Definition LM : N := 109%N.    (* 'm', the last character of a colour code *)

Definition text_eqb (a b : text) : bool := list_eqb N.eqb a b.
Definition opt_text (o : option text) : text := match o with Some s => s | None => [] end.

(* ================= utils.py ================= *)

(* text + ' ' * (width - len(text)) *)
Definition pad (t : text) (w : nat) : text := t ++ repeat SP (w - length t).

(* colored_text(text, width, color, bg_color) with bg_color = None (the sheets never set it):
   no colour or the empty colour gives the padded text, otherwise ESC[ colour text ESC[0m *)
Definition colored_text (t : text) (w : nat) (color : option text) : text :=
  match color with
  | Some (x :: c) => tt_esc_prefix ++ (x :: c) ++ pad t w ++ tt_esc_suffix
  | _ => pad t w
  end.

Record cell := mk_cell { c_text : text; c_color : option text }.
Record row := mk_row { r_color : option text; r_cells : list cell }.

(* _TextTableRow.add_cell: a cell without colour inherits the colour of its row *)
Definition add_cell (rc : option text) (tc : text * option text) : cell :=
  mk_cell (fst tc) (match snd tc with Some c => Some c | None => rc end).

(* new_row(color) followed by new_cell(text, color) for every element *)
Definition build_row (rc : option text) (cells : list (text * option text)) : row :=
  mk_row rc (map (add_cell rc) cells).

(* widths_map[i] = max(len(cell i), widths_map.setdefault(i, 0)) for one row *)
Fixpoint merge_widths (ws ls : list nat) : list nat :=
  match ws, ls with
  | [], _ => ls
  | _, [] => ws
  | w :: ws', l :: ls' => Nat.max l w :: merge_widths ws' ls'
  end.

Definition cell_lens (r : row) : list nat := map (fun c => length (c_text c)) (r_cells r).

Definition widths (rows : list row) : list nat :=
  fold_left (fun ws r => merge_widths ws (cell_lens r)) rows [].

Definition border_text (border : bool) (bc : option text) : text :=
  if border then colored_text [BAR] 1 bc else [].

(* _TextTableRow.repr: one padded cell per column; a row with fewer cells gets blanks *)
Fixpoint cells_repr (ws : list nat) (cells : list cell) (rc : option text) (border : bool) (bc : option text) : text :=
  match ws with
  | [] => []
  | w :: ws' =>
      match cells with
      | c :: cs => colored_text (SP :: c_text c ++ [SP]) (w + 2) (c_color c)
                   ++ border_text border bc ++ cells_repr ws' cs rc border bc
      | [] => colored_text [SP; SP] (w + 2) rc
              ++ border_text border bc ++ cells_repr ws' [] rc border bc
      end
  end.

Definition row_repr (ws : list nat) (border : bool) (bc : option text) (r : row) : text :=
  border_text border bc ++ cells_repr ws (r_cells r) (r_color r) border bc.

(* TextTable.text_repr: res = ''; for r in rows: if len(res) > 0: res += '\n'; res += r.repr(...) *)
Definition text_repr (rows : list row) (border : bool) (bc : option text) : text :=
  let ws := widths rows in
  fold_left (fun res r => match res with [] => [] | _ => res ++ [NL] end ++ row_repr ws border bc r) rows [].

(* what a terminal shows: colour codes ESC ... m removed *)
Fixpoint strip_aux (skip : bool) (t : text) : text :=
  match t with
  | [] => []
  | c :: r =>
      if skip then strip_aux (negb (N.eqb c LM)) r
      else if N.eqb c ESC then strip_aux true r
      else c :: strip_aux false r
  end.
Definition strip_colors (t : text) : text := strip_aux false t.

Fixpoint split_lines (t : text) : list text :=
  match t with
  | [] => [[]]
  | c :: r =>
      if N.eqb c NL then [] :: split_lines r
      else match split_lines r with
           | l :: ls => (c :: l) :: ls
           | [] => [[c]]
           end
  end.

(* ================= Python values as text ================= *)

Fixpoint uint_text (u : uint) : text :=
  match u with
  | Nil => []
  | D0 u => 48%N :: uint_text u | D1 u => 49%N :: uint_text u | D2 u => 50%N :: uint_text u
  | D3 u => 51%N :: uint_text u | D4 u => 52%N :: uint_text u | D5 u => 53%N :: uint_text u
  | D6 u => 54%N :: uint_text u | D7 u => 55%N :: uint_text u | D8 u => 56%N :: uint_text u
  | D9 u => 57%N :: uint_text u
  end.

(* str(int) *)
Definition Z_text (z : Z) : text :=
  match Z.to_int z with
  | Pos u => uint_text u
  | Neg u => 45%N :: uint_text u
  end.

(* proleptic Gregorian date of a day number (days since 1970-01-01) *)
Definition civil (days : Z) : Z * Z * Z :=
  (let z := days + 719468 in
   let era := z / 146097 in
   let doe := z - era * 146097 in
   let yoe := (doe - doe / 1460 + doe / 36524 - doe / 146096) / 365 in
   let doy := doe - (365 * yoe + yoe / 4 - yoe / 100) in
   let mp := (5 * doy + 2) / 153 in
   let d := doy - (153 * mp + 2) / 5 + 1 in
   let m := if mp <? 10 then mp + 3 else mp - 9 in
   let y := yoe + era * 400 + (if m <=? 2 then 1 else 0) in
   (y, m, d))%Z.

Definition pad2 (n : Z) : text := [Z.to_N (48 + n / 10); Z.to_N (48 + n mod 10)]%Z.

(* strftime('%d.%m.%Y %H:%M'), years 1000-9999 *)
Definition datetime_text (us : Z) : text :=
  let '(y, m, d) := civil (day_of us) in
  let s := (time_of_day us / 1000000)%Z in
  pad2 d ++ [46%N] ++ pad2 m ++ [46%N] ++ Z_text y ++ [SP] ++ pad2 (s / 3600)%Z ++ [58%N] ++ pad2 (s / 60 mod 60)%Z.

(* strftime('%y-%m-%d') *)
Definition short_date_text (us : Z) : text :=
  let '(y, m, d) := civil (day_of us) in
  pad2 (y mod 100)%Z ++ [45%N] ++ pad2 m ++ [45%N] ++ pad2 d.

(* attribute values: None, str, int, bool, datetime, anything else through its str() as computed
   by Python (floats, dates, objects) *)
Inductive pyv := VNone | VStr (s : text) | VInt (z : Z) | VBool (b : bool) | VDate (us : Z) | VRepr (s : text).
Inductive num := NInt (z : Z) | NRepr (s : text).
Inductive tid := IdInt (z : Z) | IdStr (s : text).

Definition num_text (n : num) : text := match n with NInt z => Z_text z | NRepr s => s end.
Definition id_text (i : tid) : text := match i with IdInt z => Z_text z | IdStr s => s end.

(* ================= task._Repr ================= *)

(* a linked task as a row needs it: its id and the WBS that owns it *)
Record link := mk_link { l_id : tid; l_owner : option nat }.

Record tdata := mk_tdata {
  t_obj : nat;                       (* object identity *)
  t_id : tid;
  t_owner : option nat;              (* task.wbs *)
  t_name : option text;
  t_estimate : option num;
  t_spent : option num;
  t_parent : option link;            (* the public parent (None below the hidden WBS root) *)
  t_preds : list link;
  t_succs : list link;
  t_attrs : list (text * pyv)        (* the other public entries of __dict__ *)
}.

Inductive tree := Node (d : tdata) (ch : list tree).
Definition root_data (t : tree) : tdata := match t with Node d _ => d end.
Definition children_of (t : tree) : list tree := match t with Node _ ch => ch end.

Definition id_is_empty (i : tid) : bool :=
  match i with IdInt z => Z.eqb z sheet_empty_task_id | IdStr _ => false end.
Definition owner_eqb (a b : option nat) : bool := opt_eqb Nat.eqb a b.

(* __get_linked_task_id *)
Definition link_text (t : tdata) (l : option link) : text :=
  match l with
  | None => []
  | Some l => if id_is_empty (l_id l) then []
              else id_text (l_id l) ++ (if owner_eqb (l_owner l) (t_owner t) then [] else sheet_external)
  end.

Fixpoint join (sep : text) (l : list text) : text :=
  match l with
  | [] => []
  | x :: r => match r with [] => x | _ => x ++ sep ++ join sep r end
  end.

(* __get_linked_tasks_id *)
Definition links_text (t : tdata) (ls : list link) : text :=
  join sheet_link_sep (map (fun l => link_text t (Some l)) ls).

Fixpoint assoc (k : text) (m : list (text * pyv)) : option pyv :=
  match m with
  | [] => None
  | (k', v) :: r => if text_eqb k k' then Some v else assoc k r
  end.

(* field in t.__dict__ / t.__getattribute__(field) on the public entries *)
Definition dict_get (t : tdata) (k : text) : option pyv :=
  if text_eqb k sheet_fld_name then Some (match t_name t with Some s => VStr s | None => VNone end)
  else assoc k (t_attrs t).

Definition show_value (v : pyv) : text :=
  match v with
  | VDate us => datetime_text us
  | VNone => sheet_dash
  | VStr s => s
  | VInt z => Z_text z
  | VBool true => [84; 114; 117; 101]%N
  | VBool false => [70; 97; 108; 115; 101]%N
  | VRepr s => s
  end.

Definition level_indent (level : nat) : text := concat (repeat sheet_indent level).

Record theme := mk_theme {
  th_header : option (option text);          (* 'header_color' absent / present (None or a code) *)
  th_levels : option (list (option text))    (* 'level_colors' absent / present *)
}.
Definition default_theme : theme := mk_theme (Some sheet_default_header) (Some sheet_default_levels).

Section WithCase.
(* str.upper / str.lower: any functions; the correspondence run uses the ASCII ones on field and
   resource names whose Python case mapping is the ASCII one *)
Variables upper lower : text -> text.

(* __get_field_value *)
Definition field_value (t : tdata) (f : text) : text :=
  if text_eqb f sheet_fld_predecessors then sheet_lbracket ++ links_text t (t_preds t) ++ sheet_rbracket
  else if text_eqb f sheet_fld_successors then sheet_lbracket ++ links_text t (t_succs t) ++ sheet_rbracket
  else if text_eqb f sheet_fld_parent then link_text t (t_parent t)
  else if text_eqb f sheet_fld_id then id_text (t_id t)
  else if text_eqb f sheet_fld_estimate then match t_estimate t with None => sheet_dash | Some n => num_text n end
  else if text_eqb f sheet_fld_spent then match t_spent t with None => sheet_dash | Some n => num_text n end
  else match dict_get t f with
       | Some v => show_value v
       | None => match dict_get t (lower f) with
                 | Some v => show_value v
                 | None => []
                 end
       end.

Definition name_cell (level : nat) (t : tdata) : text := level_indent level ++ opt_text (t_name t).

Definition cell_value (level : nat) (t : tdata) (f : text) : text :=
  if text_eqb f sheet_fld_name then name_cell level t else field_value t f.

Definition print_color (t : tdata) : option text :=
  match assoc sheet_fld_print_color (t_attrs t) with Some (VStr c) => Some c | _ => None end.

(* colours of the theme by level; a level beyond the list (or a theme without the list, after
   the repair C20-1) gets the fallback colour *)
Definition level_color (th : theme) (level : nat) : option text :=
  match nth_error (match th_levels th with Some l => l | None => [] end) level with
  | Some c => c
  | None => Some sheet_level_fallback
  end.

Definition row_color (th : theme) (level : nat) (t : tdata) : option text :=
  match print_color t with Some c => Some c | None => level_color th level end.

Definition task_row (fields : list text) (th : theme) (level : nat) (t : tdata) : row :=
  build_row (row_color th level t) (map (fun f => (cell_value level t f, None)) fields).

(* __print_task_subtree *)
Fixpoint subtree_rows (fields : list text) (th : theme) (children : bool) (level : nat) (t : tree) : list row :=
  match t with
  | Node d ch =>
      task_row fields th level d
      :: (if children then flat_map (subtree_rows fields th children (S level)) ch else [])
  end.

Definition header_color (th : theme) : option text :=
  match th_header th with Some c => c | None => Some sheet_header_fallback end.

Definition header_row (fields : list text) (th : theme) : row :=
  build_row (header_color th) (map (fun f => (upper f, None)) fields).

Definition the_fields (fields : option (list text)) : list text :=
  match fields with Some f => f | None => sheet_default_fields end.
Definition the_theme (th : option theme) : theme :=
  match th with Some t => t | None => default_theme end.

(* _Repr.repr *)
Definition sheet_rows (ts : list tree) (fields : option (list text)) (children : bool) (th : option theme) : list row :=
  header_row (the_fields fields) (the_theme th)
  :: flat_map (subtree_rows (the_fields fields) (the_theme th) children 0) ts.

Definition sheet_text (ts : list tree) (fields : option (list text)) (children : bool) (th : option theme) : text :=
  text_repr (sheet_rows ts fields children th) false None.

(* ================= ResourceUsageReport.__repr__ ================= *)

Record ucell := mk_ucell {
  u_text : text;       (* f"{val:.1f}" of the units reserved on that day, formatted by Python *)
  u_class : nat        (* 0: val == 0, 1: val == available units, 2: otherwise *)
}.

Record usage := mk_usage {
  u_dates : list Z;                         (* date of every row of the report *)
  u_cols : list (option text);              (* name of every distinct resource, in column order *)
  u_cells : list ((nat * Z) * ucell)        (* (column, day) -> cell, for the days with a row *)
}.

Fixpoint zmin_list (x : Z) (l : list Z) : Z := match l with [] => x | y :: r => zmin_list (Z.min x y) r end.
Fixpoint zmax_list (x : Z) (l : list Z) : Z := match l with [] => x | y :: r => zmax_list (Z.max x y) r end.

(* d = min_date; while d <= max_date: ...; d += timedelta(days=1) *)
Fixpoint days_loop (fuel : nat) (d mx : Z) : list Z :=
  match fuel with
  | O => []
  | S f => if (d <=? mx)%Z then d :: days_loop f (d + DAY)%Z mx else []
  end.
Definition usage_days (mn mx : Z) : list Z := days_loop (Z.to_nat ((mx - mn) / DAY + 1)) mn mx.

Fixpoint ucell_at (k : nat) (d : Z) (m : list ((nat * Z) * ucell)) : ucell :=
  match m with
  | [] => mk_ucell [48; 46; 48]%N 0          (* nothing reserved: f"{0:.1f}" *)
  | ((k', d'), c) :: r => if Nat.eqb k k' && Z.eqb d d' then c else ucell_at k d r
  end.

Definition class_color (c : nat) : text :=
  match c with 0 => usage_zero_color | 1 => usage_full_color | _ => usage_part_color end.

Definition usage_header (u : usage) : row :=
  build_row None ((usage_date_header, Some usage_header_color)
                  :: map (fun nm => (upper (match nm with Some n => n | None => usage_none_name end),
                                     Some usage_header_color)) (u_cols u)).

Definition usage_day_row (u : usage) (d : Z) : row :=
  build_row None ((short_date_text d, None)
                  :: map (fun k => let c := ucell_at k d (u_cells u) in (u_text c, Some (class_color (u_class c))))
                         (seq 0 (length (u_cols u)))).

(* the first and the last day with a reservation (rows of the schedulers carry midnights; after the
   repair C20-3 the table works on days for any row date) *)
Definition first_day (u : usage) : Z :=
  match map day_start (u_dates u) with [] => 0%Z | x :: r => zmin_list x r end.
Definition last_day (u : usage) : Z :=
  match map day_start (u_dates u) with [] => 0%Z | x :: r => zmax_list x r end.

Definition usage_rows (u : usage) : list row :=
  usage_header u :: map (usage_day_row u) (usage_days (first_day u) (last_day u)).

Definition usage_text (u : usage) : text :=
  match u_dates u with
  | [] => usage_empty
  | _ => text_repr (usage_rows u) true None
  end.

End WithCase.

(* ================= which tasks are shown ================= *)

Fixpoint preorder (level : nat) (t : tree) : list (nat * tdata) :=
  match t with Node d ch => (level, d) :: flat_map (preorder (S level)) ch end.

Definition shown (children : bool) (ts : list tree) : list (nat * tdata) :=
  if children then flat_map (preorder 0) ts else map (fun t => (0, root_data t)) ts.

(* d occurs in t at depth l *)
Inductive occurs : tree -> nat -> tdata -> Prop :=
| occ_root d ch : occurs (Node d ch) 0 d
| occ_child d0 ch c l d : In c ch -> occurs c l d -> occurs (Node d0 ch) (S l) d.
