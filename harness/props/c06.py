"""C06 - calc is pure and deterministic.  Theorems: Props_C06.v (every member of a returned schedule has
both dates - the pass reaches every member; the forward result does not depend on the clock as long as the
clock is not later than the project start; reflection of the oracle).  NOT theorems - decided by this
differential run only, i.e. by testing: input purity (full snapshot of the input WBS and of the outside
tasks before/after calc, `pure`, `pure2`), shape of the result (`shape`: same ids, hierarchy, sibling order,
links, custom attributes, separate objects) and determinism (every case is run twice on one scheduler
object, once on a fresh one and - forward, clock <= start - once under another clock; the observations must
be equal: bit 512 of Case.check_case)."""
from harness import common
from harness.props import sched_common as sc

ID = 'C06'
PROPS_FILE = 'Props/Props_C06.v'
EXTRA_TARGETS = ['Sched/Case.vo']
CONST_PARTS = ('sched', 'srcpass')
FAIL = sc.BITS['c06']
MISMATCH = sc.BITS['model_oracle']


def extra(ctx, case, out, code, desc):
    d = case['dir']
    flags = [bool(k['ext']) for k in out['w']]
    if flags != sorted(flags):
        raise common.InfraError('C06: abstract input lists a task outside the WBS before a member (ext_last violated)')
    if out.get('pure') is False or out.get('pure2', True) is False:
        ctx.failure('C06/%s/input-changed' % d,
                    'calc changed the input WBS, one of its tasks or a task outside it (%s)' % (out.get('impure_detail') or 'after repeated calls'),
                    desc)
    if out.get('shape'):
        ctx.failure('C06/%s/shape' % d, 'the returned WBS differs from the input in: %s' % ', '.join(out['shape'][:6]), desc)
    if 'again_exc' in out:
        ctx.failure('C06/%s/repeat-raised' % d, 'calc returned a schedule but a repeated call raised %s' % out['again_exc'], desc)


def run(ctx):
    # (round Y/Z) a WBS without tasks: the result is still a WBS of its own
    empty = [sc.C('fwd', []), sc.C('bwd', []), sc.C('bwd', [], balance=False), sc.C('fwd', [], balance=False)]
    kept, codes = sc.run_property(ctx, ID, FAIL, MISMATCH, extra=extra, extra_cases=empty)
    repeats = clock_pairs = snapshots = 0
    for (case, out), code in zip(kept, codes):
        if case.get('offgrid') or code & sc.BITS['illformed']:
            continue
        if 'pure' in out:
            snapshots += 1
        n = len(out.get('again', []))
        repeats += min(n, 3)          # same scheduler object, fresh scheduler, fresh scheduler after a calc that raised
        if n == 4:
            clock_pairs += 1
    ctx.coverage.setdefault('distribution', {}).update(
        {'input_snapshots_compared': snapshots, 'repeated_calls_compared': repeats, 'other_clock_runs_compared': clock_pairs})
    ctx.assumptions += [
        'C06: input purity, shape of the result and equality of repeated calls are NOT theorems (a Gallina function is pure and '
        'deterministic by construction): they are decided by this differential run alone - snapshots before/after, shape '
        'comparison, repeated observations (bit 512) - which is testing',
        'C06: the snapshot covers to_dict(), estimate, spent, parent, children, predecessors, successors among members, owner, '
        'roots, public WBS attributes and the fields of outside tasks; object state not reachable that way is not observed',
    ]


def replay(ctx, rep):
    case = rep['case']['case']
    outs, kept, codes = sc.evaluate(ctx, [case], jobs=1)
    print('replay: implementation outcome %s, pure=%s pure2=%s shape=%s repeated observations=%d' % (
        outs[0].get('outcome'), outs[0].get('pure'), outs[0].get('pure2'), outs[0].get('shape'), len(outs[0].get('again', []))))
    if not kept:
        print('replay: case left the dyadic grid: %s' % outs[0].get('offgrid'))
        return
    code, out = codes[0], kept[0][1]
    print('replay: checker code %d = %s' % (code, [k for k, v in sc.BITS.items() if code & v]))
    desc = {'case': case, 'abstract_input': out['w'], 'observed': out.get('obs'), 'code': code}
    if code & FAIL:
        ctx.failure('C06/%s/replay' % case['dir'], 'oracle false on replayed case (a task without dates, or repeated calls differ)', desc)
    elif code & MISMATCH:
        ctx.mismatch('model and implementation differ on replayed case', desc)
    extra(ctx, case, out, code, desc)
    ctx.coverage.update(evaluations=1, distinct_nontrivial=1, rule='replay of one case', samples=[case])
