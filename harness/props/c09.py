"""C09 - backward schedules: deadline, declared and inherited dependencies, late packing, date encoding.
Theorems: Props_C09.v (invariant of the backward machine on top of C03's ledger invariant; reflection of
the oracle c09_b).  Tie: the verified oracle c09_b evaluated on the schedule the implementation returns
(bit c09) and on the model's own output (bit model_oracle); dates and rows of model and implementation
compared exactly on the dyadic grid (the date formulas of C09 need the deterministic layer).
Backward scheduler only."""
from harness import common
from harness.props import sched_common as sc

ID = 'C09'
PROPS_FILE = 'Props/Props_C09.v'
EXTRA_TARGETS = ['Sched/Case.vo']
CONST_PARTS = ('sched', 'srcfill', 'srcpass')
FAIL = sc.BITS['c09']
MISMATCH = sc.BITS['model_oracle'] | sc.BITS['dates'] | sc.BITS['rows']

# measured on this run: how often the oracle is not vacuous (its domain: no member has a user-fixed date)
STATS = {}


def reset_stats():
    STATS.clear()
    STATS.update({'backward_cases': 0, 'no_user_dates': 0, 'no_user_dates_and_returned': 0,
                  'no_user_dates_returned_with_rows': 0, 'no_user_dates_returned_with_links_or_hierarchy': 0,
                  'user_dates_oracle_vacuous': 0})


def no_user_dates(w):
    """the oracle's domain predicate (Oracles.no_user_dates) on the abstract input"""
    return all(k['start'] is None and k['end'] is None for k in w if not k['ext'])


def members_first(w):
    """hypothesis of C09_model_passes_order_clauses: members are numbered before the outside tasks"""
    flags = [bool(k['ext']) for k in w]
    return flags == sorted(flags)


def extra(ctx, case, out, code, desc):
    w = out['w']
    if not members_first(w):
        raise common.InfraError('C09: abstract input does not number the members before the outside tasks')
    STATS['backward_cases'] += 1
    if no_user_dates(w):
        STATS['no_user_dates'] += 1
        if out['outcome'] == 0:
            STATS['no_user_dates_and_returned'] += 1
            obs = out.get('obs') or {}
            if obs.get('rows'):
                STATS['no_user_dates_returned_with_rows'] += 1
            if any((k['children'] or k['preds'] or k['succs']) for k in w if not k['ext']):
                STATS['no_user_dates_returned_with_links_or_hierarchy'] += 1
    else:
        STATS['user_dates_oracle_vacuous'] += 1


def run(ctx):
    reset_stats()
    sc.run_property(ctx, ID, FAIL, MISMATCH, dirs=('bwd',), extra=extra)
    dist = dict(ctx.coverage.get('distribution') or {})
    dist['c09_domain'] = dict(STATS)
    ctx.coverage['distribution'] = dist
    ctx.assumptions += [
        'C09: the oracle c09_b is vacuous on WBSs with user-fixed dates (outside the stated domain); the number of '
        'backward cases inside the domain is reported in coverage.distribution.c09_domain',
        'C09: members are numbered before the outside tasks in the abstract input (members_first, asserted on every case)',
    ]


def replay(ctx, rep):
    reset_stats()
    sc.replay_generic(ctx, rep, FAIL, MISMATCH, ID)
