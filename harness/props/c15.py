"""C15 - a rejected mutation changes nothing.
Search: after every raising call `state_eqb pre post` on the full snapshots (relations in order, owners, root
lists, attributes).  Tie: the model raises exactly when the implementation does, with the same exception type."""
from harness.props import graph_common as gc

ID = 'C15'
PROPS_FILE = 'Props/Props_C15.v'
EXTRA_TARGETS = ['Graph/Check.vo']
CONST_PARTS = ('srcgraph',)

SPEC = gc.Spec(
    ID, 15,
    fail={1: 'partial-effect'},
    mismatch={2: 'outcome-class'},
    # recorded in known_findings.json under its original name
    alias={'C15/NewTaskRel/partial-effect': 'C15/constructor-with-relations-not-atomic'},
    notes='state_eqb pre post after every raising call (full snapshot by object identity); outcome class incl. exception type '
          'against the model')


def run(ctx):
    gc.run_property(ctx, SPEC)


def replay(ctx, rep):
    gc.replay_generic(ctx, SPEC, rep)
