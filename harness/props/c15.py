"""C15 - a rejected mutation changes nothing.
Search: after every raising call `state_eqb pre post` on the full snapshots (relations in order, owners, root
lists, attributes).  Tie: the model raises exactly when the implementation does, with the same exception type."""
from harness.props import graph_common as gc

ID = 'C15'
PROPS_FILE = 'Props/Props_C15.v'
EXTRA_TARGETS = ['Graph/Check.vo']
CONST_PARTS = ('srcgraph',)

SPEC = gc.Spec(
    ID, 15,
    fail={1: 'partial-effect'},
    mismatch={2: 'outcome-class'},
    # recorded in known_findings.json under its original name
    alias={'C15/NewTaskRel/partial-effect': 'C15/constructor-with-relations-not-atomic'},
    notes='state_eqb pre post after every raising call (full snapshot by object identity); outcome class incl. exception type '
          'against the model')


CLONE_PROBE = [
    # Task.clone(**kwargs): the keywords are applied one after the other; one that is rejected must undo the relations set before it
    {'source': 'free', 'kwargs': [['parent', 'p'], ['estimate', -1]]},
    {'source': 'free', 'kwargs': [['parent', 'b'], ['spent', -2]]},
    {'source': 'free', 'kwargs': [['predecessors', ['b']], ['estimate', -1]]},
    {'source': 'free', 'kwargs': [['successors', ['a']], ['estimate', -1]]},
    {'source': 'free', 'kwargs': [['parent', 'p'], ['wbs', 'w']]},                 # a read-only property
    {'source': 'free', 'kwargs': [['parent', 'p'], ['predecessors', ['p']]]},      # the parent as a dependency
    {'source': 'member', 'kwargs': [['parent', 'b'], ['estimate', -1]]},           # the clone of a member carries its id: rejected at once
    {'source': 'free', 'kwargs': [['parent', 'p'], ['estimate', 3]]},              # control: accepted
    {'source': 'free', 'kwargs': [['estimate', -1], ['parent', 'p']]},             # control: rejected before anything is set
    # (round Y/Z) the tasks named by the call are instances of a user subclass of Task
    {'source': 'free', 'kwargs': [['parent', 'p'], ['predecessors', ['p']]], 'subclass': True},
    {'source': 'free', 'kwargs': [['parent', 'p'], ['estimate', -1]], 'subclass': True},
    {'source': 'free', 'kwargs': [['parent', 'p'], ['predecessors', ['p']]], 'subclass': True, 'op': 'ctor'},
    {'source': 'free', 'kwargs': [['children', ['free']], ['successors', ['free']]], 'subclass': True, 'op': 'ctor'},
    {'source': 'free', 'kwargs': [['parent', 'p'], ['estimate', 3]], 'subclass': True},      # control: accepted
]


def clone_probe(ctx):
    outs = ctx.impl_run('c15x_impl', CLONE_PROBE)
    stat = {'cases': len(CLONE_PROBE), 'raised': 0, 'returned': 0}
    for c, o in zip(CLONE_PROBE, outs):
        if o['code'] == 0:
            stat['returned'] += 1
            continue
        stat['raised'] += 1
        if o['before'] != o['after']:
            ctx.failure('C15/clone/rejected-keyword-leaves-the-clone-attached',
                        '%s(%s) raised %s and changed the relations of existing tasks' % ('Task' if c.get('op') == 'ctor' else 'Task.clone', 
                            ', '.join('%s=%r' % (k, v) for k, v in c['kwargs']), o.get('exc')), {'case': c, 'observed': o})
    return stat


def run(ctx):
    ctx.coverage_clone = clone_probe(ctx)
    gc.run_property(ctx, SPEC)
    dist = dict(ctx.coverage.get('distribution') or {})
    dist['probe_Task_clone_with_relation_keywords'] = ctx.coverage_clone
    ctx.coverage['distribution'] = dist


def replay(ctx, rep):
    gc.replay_generic(ctx, SPEC, rep)
