"""C16 - accepted mutations have exactly their documented effect and touch nothing else.
The model step IS the specification of the documented effect (Props_C16.v ties it to the declarative
statements), so a difference between the model's post-state and the implementation's post-state on an
accepted call is a concrete failing input.  Comparison: the whole state - every relation in order, owners,
attributes, of every object (the frame included)."""
from harness.props import graph_common as gc

ID = 'C16'
PROPS_FILE = 'Props/Props_C16.v'
EXTRA_TARGETS = ['Graph/Check.vo']
CONST_PARTS = ('srcgraph',)

SPEC = gc.Spec(
    ID, 16,
    fail={1: 'effect-differs'},
    mismatch={2: 'outcome-class'},
    notes='on every returning call the model post-state equals the snapshot exactly (task_eqb on every object: id, raw parent, '
          'children / predecessors / successors in order, owner, attributes); accepted/rejected agreement')


def run(ctx):
    gc.run_property(ctx, SPEC)


def replay(ctx, rep):
    gc.replay_generic(ctx, SPEC, rep)
