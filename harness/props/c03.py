"""C03 - schedules never over-allocate a resource.  Theorems: Props_C03.v (ledger invariant of both
scheduler models, reflection of the oracle; model of the usage report, of the resource table of a run and of
the default resource).  Tie: the verified oracle c03_b (+ report totals, resources present, default resource)
evaluated on the rows the implementation returns; a second pass (Sched/C03ReportCheck.check_report, meaning
proved in C03_report_checker_meaning) evaluates the report / resources clauses one by one on every returned
schedule: per-day totals = sums of the rows, Schedule.resources = exactly the supplied and the named
resources, every other resource's tabulated capacity = the default calendar read from the source; a third pass
(props/captie.py, Sched/CapTie.check_captie, meaning proved in C03_captie_meaning / C03_captie_cap_nonneg) ties the
tabulated capacity of EVERY resource of every on-grid case to the C17 calendar model evaluated inside Coq on the
case's calendar expressions: the capacity function of the scheduler model is the calendar model."""
import time

from harness.props import sched_common as sc
from harness.props import captie
from harness.common import z, coq_list, coq_bool

ID = 'C03'
PROPS_FILE = 'Props/Props_C03.v'
EXTRA_TARGETS = ['Sched/Case.vo', 'Sched/CaseOff.vo', 'Sched/C03ReportCheck.vo', 'Sched/CapTie.vo']
CONST_PARTS = ('sched', 'srcsched', 'srcfill', 'srcpass')
FAIL = sc.BITS['c03']
MISMATCH = sc.BITS['model_oracle']


def extra(ctx, case, out, code, desc):
    obs = out.get('obs')
    if obs and not obs.get('filter_ok', True):
        ctx.failure('C03/%s/rows-filter' % case['dir'], 'ResourceUsageReport.rows(filter) disagrees with its rows', desc)
    if obs and obs.get('row_not_a_day'):
        ctx.failure('C03/%s/row-not-dated-by-a-day' % case['dir'],
                    'a usage row is not dated by a day (%s): per-day totals cannot agree with the rows' % obs['row_not_a_day'], desc)
    if obs and obs.get('row_unknown_task_or_resource'):
        ctx.failure('C03/%s/row-foreign' % case['dir'], 'a usage row names a task or resource that is not in the result', desc)
    if out.get('resource_differs_from_calendar'):
        ctx.failure('C03/%s/resource-differs-from-calendar' % case['dir'],
                    'a resource reports a capacity its calendar does not offer: %s' % out['resource_differs_from_calendar'][0], desc)


REP_HEADER = """From PJ Require Import Base.Prelude Sched.Model Sched.Check Sched.Oracles Sched.C03Report Sched.C03ReportCheck.
Open Scope Z_scope.
"""

REPORT_CODES = {
    1: ('report-totals', 'ResourceUsageReport.reserved(resource, day) is not the sum of the units of its rows on that resource and day'),
    2: ('resource-missing', 'a resource that was supplied or is named by a task (summary tasks and milestones included) is missing from Schedule.resources'),
    3: ('resource-extra', 'Schedule.resources holds a resource that was neither supplied nor named by a task'),
    4: ('default-resource', 'a resource that was not supplied is not the default Monday-Friday 8-unit resource (its tabulated capacity '
                            'differs from the default calendar read from calendar.DEFAULT_CALENDAR)'),
}


def emit_repcase(case, out):
    obs = out['obs']
    K = out.get('K', 8)
    # per-day totals are float sums: exact on the dyadic grid, within the tolerance of the off-grid stream otherwise
    eps = (K * 32 // 10 ** 9 + 1) if case.get('offgrid') else 0
    return '(Build_repcase %s %s %s %s %s %s %s %s)' % (
        coq_list([sc.emit_itask(k) for k in out['w']]), coq_list([sc.emit_rescal(r) for r in out['rs']]),
        coq_list([coq_bool(b) for b in out['supplied']]), z(K), z(eps),
        coq_list(['(%s, %s, %s, %s)' % (sc.nat(r[0]), z(r[1]), sc.nat(r[2]), z(r[3])) for r in obs['rows']]),
        coq_list(['(%s, %s, %s)' % (sc.nat(a), z(b), z(c)) for a, b, c in obs['reserved']]),
        sc.natlist(obs['resources']))


def check_reports(ctx, kept, codes):
    """second pass: the report / resources clauses, clause by clause, on every schedule the implementation returned"""
    skip = sc.BITS['illformed'] | sc.BITS['foreign_rows']
    pairs = [(c, o) for (c, o), code in zip(kept, codes) if o.get('outcome') == 0 and o.get('obs') and not code & skip]
    if ctx.tier == 'quick':
        pairs = pairs[:160]          # the corpus and the first generated cases; the thorough tier takes all
    t0 = time.time()
    rc = ctx.coq_codes('c03rep', REP_HEADER, 'repcase', [emit_repcase(c, o) for c, o in pairs], 'check_report', shard=25)
    ctx.coverage['report_pass_wall_s'] = round(time.time() - t0, 1)
    hist = {}
    for (case, out), code in zip(pairs, rc):
        hist[code] = hist.get(code, 0) + 1
        if code:
            sig, what = REPORT_CODES.get(code, ('report-code-%d' % code, 'check_report = %d' % code))
            ctx.failure('C03/%s/%s' % (case['dir'], sig), what + ' (check_report = %d)' % code,
                        {'case': case, 'abstract_input': out['w'], 'outcome': out['outcome'], 'observed': out.get('obs'),
                         'supplied': out['supplied'], 'resources_tabulated': out['rs'], 'report_code': code})
    named = [len(set(k['res'] for k in o['w'] if not k['ext'])) for _, o in pairs]
    ctx.coverage['report_pass_evaluated'] = len(pairs)
    ctx.coverage['report_pass_codes'] = {str(k): v for k, v in sorted(hist.items())}
    ctx.coverage['report_pass_cases_with_default_resources'] = sum(1 for _, o in pairs if not all(o['supplied']))
    ctx.coverage['report_pass_cases_resource_named_by_summary_or_milestone_only'] = sum(
        1 for _, o in pairs if set(k['res'] for k in o['w'] if not k['ext'])
        - set(k['res'] for k in o['w'] if not k['ext'] and not k['children'] and not k['milestone']))
    ctx.coverage['report_pass_max_resources_named'] = max(named) if named else 0


CAPTIE_QUICK_LIMIT = 150     # cases of the capacity-tie pass in the quick tier (the thorough tier takes all)


def run(ctx):
    kept, codes = sc.run_property(ctx, ID, FAIL, MISMATCH, extra=extra, offgrid_fail=sc.BITS['c03'])
    check_reports(ctx, kept, codes)
    # third pass: the tabulated capacity the model and the oracles ran with IS the C17 calendar model of the case's
    # calendar expressions (Sched/CapTie.check_captie); a difference is a broken tie, not a failing input of C03
    captie.check(ctx, kept, limit=CAPTIE_QUICK_LIMIT if ctx.tier == 'quick' else None)
    ctx.assumptions += [
        'C03 report pass: Schedule.resources is observed as the set of numbers of the resource names that some member task '
        'names (the runner numbers only those); a supplied resource that no task names is not observed, so code 3 '
        '(resource-extra) can only fire on a number outside the named ones',
        'C03 default resource: the capacity of a resource that was not supplied is compared with default_cal on the tabulated '
        'window and the weekly patterns around it (C03_default_tabulation: then on every day); default_cal is proved to be '
        'built from gen.Consts.default_weekdays / default_units, which constparts/sched.py reads from the source (fail-closed)',
    ]


def replay(ctx, rep):
    sc.replay_generic(ctx, rep, FAIL, MISMATCH, ID)
    outs, kept, codes = sc.evaluate(ctx, [rep['case']['case']], jobs=1)
    if kept:
        check_reports(ctx, kept, codes)
        print('replay: report pass codes %s' % ctx.coverage.get('report_pass_codes'))
        tcodes = captie.check(ctx, kept)
        print('replay: capacity tie (check_captie_full) %s' % tcodes)
