"""C03 - schedules never over-allocate a resource.  Theorems: Props_C03.v (ledger invariant of both
scheduler models, reflection of the oracle).  Tie: the verified oracle c03_b (+ report totals,
resources present, default resource) evaluated on the rows the implementation returns."""
from harness.props import sched_common as sc

ID = 'C03'
PROPS_FILE = 'Props/Props_C03.v'
EXTRA_TARGETS = ['Sched/Case.vo', 'Sched/CaseOff.vo']
CONST_PARTS = ('sched',)
FAIL = sc.BITS['c03']
MISMATCH = sc.BITS['model_oracle']


def extra(ctx, case, out, code, desc):
    obs = out.get('obs')
    if obs and not obs.get('filter_ok', True):
        ctx.failure('C03/%s/rows-filter' % case['dir'], 'ResourceUsageReport.rows(filter) disagrees with its rows', desc)
    if obs and obs.get('row_not_a_day'):
        ctx.failure('C03/%s/row-not-dated-by-a-day' % case['dir'],
                    'a usage row is not dated by a day (%s): per-day totals cannot agree with the rows' % obs['row_not_a_day'], desc)
    if obs and obs.get('row_unknown_task_or_resource'):
        ctx.failure('C03/%s/row-foreign' % case['dir'], 'a usage row names a task or resource that is not in the result', desc)
    if out.get('resource_differs_from_calendar'):
        ctx.failure('C03/%s/resource-differs-from-calendar' % case['dir'],
                    'a resource reports a capacity its calendar does not offer: %s' % out['resource_differs_from_calendar'][0], desc)


def run(ctx):
    sc.run_property(ctx, ID, FAIL, MISMATCH, extra=extra, offgrid_fail=sc.BITS['c03'])


def replay(ctx, rep):
    sc.replay_generic(ctx, rep, FAIL, MISMATCH, ID)
