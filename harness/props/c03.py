"""C03 - schedules never over-allocate a resource.  Theorems: Props_C03.v (ledger invariant of both
scheduler models, reflection of the oracle).  Tie: the verified oracle c03_b (+ report totals,
resources present, default resource) evaluated on the rows the implementation returns."""
from harness.props import sched_common as sc

ID = 'C03'
PROPS_FILE = 'Props/Props_C03.v'
EXTRA_TARGETS = ['Sched/Case.vo']
CONST_PARTS = ('sched',)
FAIL = sc.BITS['c03']
MISMATCH = sc.BITS['model_oracle']


def extra(ctx, case, out, code, desc):
    obs = out.get('obs')
    if obs and not obs.get('filter_ok', True):
        ctx.failure('C03/%s/rows-filter' % case['dir'], 'ResourceUsageReport.rows(filter) disagrees with its rows', desc)


def run(ctx):
    sc.run_property(ctx, ID, FAIL, MISMATCH, extra=extra)


def replay(ctx, rep):
    sc.replay_generic(ctx, rep, FAIL, MISMATCH, ID)
