"""C14 - calc terminates with a schedule or a RuntimeError.  Theorems: Props_C14.v (both scheduler
models answer Ok or Err, never Crash; the four unschedulable classes answer Err; an Err has no other
cause, hence completeness).  Tie: alpha = outcome class of calc (returned / RuntimeError / exact other
exception type / 60 s alarm) compared in Coq with the outcome class of the model on the abstract input
read back from the WBS that was actually built; any outcome other than "returned" or RuntimeError is a
failure of the property itself."""
import copy

from harness.props import sched_common as sc

ID = 'C14'
PROPS_FILE = 'Props/Props_C14.v'
EXTRA_TARGETS = ['Sched/Case.vo', 'Props/Props_Glue.vo']   # Glue: WFin holds of every reachable graph state
CONST_PARTS = ('sched', 'srcfill', 'srcpass')
FAIL = sc.BITS['crash']
MISMATCH = sc.BITS['outcome'] | sc.BITS['model_oracle']

CLASSES = ('outside_predecessor_undated', 'fixed_end_in_future', 'resource_never_available', 'hierarchy_cycle')
NEVER = [['fixed', ['i', 0], None, None], ['wdays', None, None, [], ['i', 8]], ['dated', []],
         ['wdict', None, None, [[2, ['i', 0]]]]]


# ---------- the extra stream: unschedulable inputs of each class ---------------------------------------
def _prepend(case, new_tasks):
    """put tasks in front of the WBS (they are reached first by the forward pass): shift every index"""
    k = len(new_tasks)
    for t in case['tasks']:
        if t['parent'] is not None:
            t['parent'] += k
    for l in case['links']:
        for ref in l:
            if ref[0] == 't':
                ref[1] += k
    case['tasks'] = new_tasks + case['tasks']


def _leaves(case):
    parents = {t['parent'] for t in case['tasks'] if t['parent'] is not None}
    return [i for i in range(len(case['tasks'])) if i not in parents]


def gen_unschedulable(rng, cls, d):
    case = copy.deepcopy(sc.gen_case(rng, d))
    case['links'] = [[list(a), list(b)] for a, b in case['links']]
    case['c14_class'] = cls
    tasks = case['tasks']
    n = len(tasks)
    if cls == 'hierarchy_cycle':
        variant = rng.choice(['direct', 'direct', 'grandchild', 'inherited', 'long'])
        case['c14_variant'] = variant
        fresh = iter(rng.sample(range(50, 90), 6))
        mk = lambda parent: sc.T(next(fresh), parent, est=rng.choice([0, 8, 64, 100]), resource=rng.choice(['a', 'b', None]))
        first = []          # B (and C) in front of the WBS, or behind it
        b_first = rng.random() < 0.5
        if b_first:
            first.append(mk(None))
            if variant == 'long':
                first.append(mk(None))
            _prepend(case, first)
            tasks = case['tasks']
        base = len(tasks)
        p_parent = None
        if rng.random() < 0.3 and base > len(first):
            p_parent = rng.randrange(len(first), base)         # P below an existing task
            tasks[p_parent]['milestone'] = False
        tasks.append(mk(p_parent))
        P = base
        if variant in ('grandchild', 'inherited'):
            tasks.append(mk(P))
            Q = base + 1
            tasks.append(mk(Q))
            A = base + 2
        else:
            Q = None
            tasks.append(mk(P))
            A = base + 1
        if b_first:
            B = 0
            Cx = 1 if variant == 'long' else None
        else:
            tasks.append(mk(None))
            B = len(tasks) - 1
            Cx = None
            if variant == 'long':
                tasks.append(mk(None))
                Cx = len(tasks) - 1
        t_ = sc.t_
        waiter = Q if variant == 'inherited' else A
        new_links = [[t_(B), t_(waiter)]]                        # A (or its parent Q) waits for B
        if Cx is None:
            new_links.append([t_(P), t_(B)])                     # B waits for P
        else:
            new_links += [[t_(Cx), t_(B)], [t_(P), t_(Cx)]]      # B waits for C waits for P
        case['links'] = new_links + case['links']                # first, so that random links cannot pre-empt them
    elif cls == 'outside_predecessor_undated':
        j = len(case['ext'])
        e_end = sc.day_us(rng.randint(-10, 12))
        x = {'id': 100 + j, 'start': e_end - rng.randint(0, 5) * sc.DAY, 'end': e_end, 'in_wbs': rng.random() < 0.6, 'est': None}
        which = rng.choice(['start', 'end', 'both'])
        if which in ('start', 'both'):
            x['start'] = None
        if which in ('end', 'both'):
            x['end'] = None
        case['ext'].append(x)
        case['links'].insert(0, [sc.x_(j), sc.t_(rng.randrange(n))])
    elif cls == 'fixed_end_in_future':
        i = rng.choice(_leaves(case))
        tasks[i]['end'] = case['now'] + rng.choice([1, 3600_000_000, sc.DAY, 5 * sc.DAY, 400 * sc.DAY])
        if rng.random() < 0.3:
            tasks[i]['start'] = tasks[i]['end'] - rng.randint(0, 3) * sc.DAY
    elif cls == 'resource_never_available':
        i = rng.choice(_leaves(case))
        tasks[i].update(resource='z', start=None, end=None, milestone=False, est=rng.choice([None, 8, 64, 100]), spent=None)
        q = rng.random()
        if q < 0.3:
            # capacity exists next to the bound but runs out before the work is placed: the FILL loop (not the search
            # for the first free day) walks away from the bound over days without capacity until its step limit
            tasks[i]['est'] = rng.choice([200, 320, 640])
            pbd = (case['pbound'] // sc.DAY) - sc.BASE_DAY
            if d == 'fwd':
                cal = sc.wk([0, 1, 2, 3, 4, 5, 6], ['i', 8], None, sc.day_us(pbd + rng.randint(1, 3), sc.DAY - 1))
            else:
                cal = sc.wk([0, 1, 2, 3, 4, 5, 6], ['i', 8], sc.day_us(pbd - rng.randint(2, 4)), None)
            if d == 'fwd' and case['now'] > case['pbound']:
                case['now'] = case['pbound']
                case['now2'] = None
        elif q < 0.75:
            cal = rng.choice(NEVER)
        elif d == 'fwd':     # available only until a date before the project start: the horizon is exhausted
            cal = sc.wk([0, 1, 2, 3, 4], ['i', 8], None, sc.day_us(rng.randint(-30, -3), sc.DAY - 1))
        else:                # available only from a date after the project end
            cal = sc.wk([0, 1, 2, 3, 4], ['i', 8], sc.day_us(rng.randint(30, 60)), None)
        case['resources'] = [r for r in case['resources'] if r['name'] != 'z'] + [{'name': 'z', 'cal': cal}]
    return case


def extra_cases(ctx):
    per_class = 12 if ctx.tier == 'quick' else 250
    res = []
    for cls in CLASSES:
        for k in range(per_class):
            d = 'fwd' if (cls == 'fixed_end_in_future' or k % 2 == 0) else 'bwd'
            res.append(gen_unschedulable(ctx.rng, cls, d))
    return res


# ---------- which class an input belongs to, by analysis of the abstract input ---------------------------
def classes_of(case, out):
    w = out['w']
    fwd = case['dir'] == 'fwd'
    members = [i for i, k in enumerate(w) if not k['ext']]
    found = []
    if any(w[p]['ext'] and (w[p]['start'] is None or w[p]['end'] is None) for i in members for p in w[i]['preds']):
        found.append('outside_predecessor_undated')
    if fwd and any(w[i]['end'] is not None and w[i]['end'] > case['now'] for i in members):
        found.append('fixed_end_in_future')
    rs = out.get('rs') or []

    def dead(r):
        c = rs[r]
        return not any(c['tab']) and not any(c['pre']) and not any(c['post'])
    for i in members:
        k = w[i]
        if not k['children'] and not k['milestone'] and k['res'] < len(rs) and dead(k['res']) \
                and ((fwd and k['start'] is None) or (not fwd and k['end'] is None)):
            found.append('resource_never_available')
            break
    for i in members:
        k = w[i]
        if not k['children'] and not k['milestone'] and k['res'] < len(rs) and not dead(k['res']) \
                and not any(rs[k['res']]['post' if fwd else 'pre']):
            found.append('calendar_ends')        # may or may not exhaust the horizon
            break
    # cycle of the effective waiting relation (own + inherited prerequisites / dependants, children)
    def anc(i):
        res = []
        while w[i]['parent'] is not None and len(res) <= len(w):
            i = w[i]['parent']
            res.append(i)
        return res
    key = 'preds' if fwd else 'succs'
    edges = {}
    for i in members:
        e = list(w[i][key])
        for a in anc(i):
            e += w[a][key]
        edges[i] = [p for p in e + list(w[i]['children']) if not w[p]['ext']]
    state = {}

    def cyclic(i):
        stack = [(i, iter(edges[i]))]
        state[i] = 1
        while stack:
            node, it = stack[-1]
            for nx in it:
                if state.get(nx) == 1:
                    return True
                if nx not in state:
                    state[nx] = 1
                    stack.append((nx, iter(edges[nx])))
                    break
            else:
                state[node] = 2
                stack.pop()
        return False
    if any(i not in state and cyclic(i) for i in members):
        found.append('hierarchy_cycle')
    return found or ['none_of_the_classes']


def deep_chains(ctx):
    """F16: the recursive helpers (all_predecessors, clone, the loop check, the passes) need one interpreter
    frame per link of a dependency chain: chains longer than the recursion limit crash calc with
    RecursionError.  The model has no interpreter stack, so this is probed on the implementation only."""
    outs = ctx.impl_run('c14_deep_impl', {'lengths': [400, 1500]})
    for o in outs:
        if o['outcome'] >= 10 or o['build'] >= 10:
            ctx.failure('C14/deep-chain/RecursionError' if 10 in (o['outcome'], o['build']) else 'C14/deep-chain/crash',
                        'calc (%s) on a chain of %d dependent tasks: outcome class %d (recursion limit %d)'
                        % (o['dir'], o['n'], o['outcome'] or o['build'], o['recursion_limit']), o)
    return outs


gen_tod_calendar = sc.gen_tod_calendar


def gen_last_day_case(rng):
    fwd = rng.random() < 0.7
    every = [0, 1, 2, 3, 4, 5, 6]
    full = rng.randint(1, 3)                      # days on which the second resource is fully booked
    half = rng.choice([8, 16, 32, 48])            # the work of the task on the other resource (an eighth .. three quarters of a day)
    edge_tod = rng.choice([0, 0, 0, 0, 6 * sc.H, 12 * sc.H])
    if fwd:
        edge = sc.day_us(full + rng.choice([0, 0, 0, 1]), edge_tod)
        cal_b = rng.choice([['fixed', ['i', 8], None, edge], sc.wk(every, ['i', 8], None, edge)])
        tasks = [sc.T(1, resource='a', est=half), sc.T(2, resource='b', est=64 * full), sc.T(3, resource='b', est=rng.choice([8, 32, 64]))]
        links = [(sc.t_(0), sc.t_(2))]
        pb = sc.day_us(0)
        # the first task ends in the middle of the last fully booked day of `b`
        tasks[0]['est'] = 64 * (full - 1) + half
    else:
        edge = sc.day_us(-full - rng.choice([0, 0, 0, 1]), edge_tod)
        cal_b = rng.choice([['fixed', ['i', 8], edge, None], sc.wk(every, ['i', 8], edge, None)])
        tasks = [sc.T(1, resource='b', est=rng.choice([8, 32, 64])), sc.T(2, resource='b', est=64 * full), sc.T(3, resource='a', est=64 * (full - 1) + half)]
        links = [(sc.t_(0), sc.t_(2))]
        pb = sc.day_us(0)
    c = sc.C('fwd' if fwd else 'bwd', tasks, links=links, pb=pb, now=sc.day_us(-9),
             resources=[{'name': 'a', 'cal': sc.wk(every, ['i', 8])}, {'name': 'b', 'cal': cal_b}])
    c['outcome_only'] = True
    c['edit_calendars'] = []
    c['last_day'] = True
    return c


def robustness_stream(ctx):
    """calc on inputs outside the model's domain: only `returned or RuntimeError, in bounded time` is judged"""
    n = 60 if ctx.tier == 'quick' else 1500
    cases = []
    for _ in range(n):
        c = copy.deepcopy(sc.gen_case(ctx.rng))
        c['edit_calendars'] = []
        c['outcome_only'] = True
        names = sorted(set(t['resource'] for t in c['tasks']), key=str)
        if ctx.rng.random() < 0.2:
            # every resource is an object of a user-defined class that is not hashable
            c['unhashable_resources'] = True
            have = [r['name'] for r in c['resources']]
            c['resources'] += [{'name': nm, 'cal': sc.wk([0, 1, 2, 3, 4], ['i', 8])} for nm in names if nm not in have]
            cases.append(c)
            continue
        if ctx.rng.random() < 0.25:
            # user-defined resources whose capacity depends on the task asked for (blocked days, overtime days)
            cases.append(sc.gen_task_aware_case(ctx.rng))
            continue
        if ctx.rng.random() < 0.35:
            # float dust: remaining work such as 0.1 + 0.2 - 0.3 (5.6e-17 hours) - positive, far below any tolerance, and a
            # divisor-side hazard for whoever mixes `== 0` with `> epsilon`; ordinary calendars
            for t in c['tasks']:
                if t['est'] is not None and ctx.rng.random() < 0.6:
                    a, b = ctx.rng.choice([(0.1, 0.2), (0.7, 0.1), (1.1, 2.2), (0.3, 0.6)])
                    t['est_raw'] = float(a + b).hex()
                    t['spent_raw'] = float(round(a + b, 10)).hex() if ctx.rng.random() < 0.7 else float(a).hex()
                    t['start'] = t['end'] = None
            cases.append(c)
            continue
        c['resources'] = [{'name': nm, 'cal': gen_tod_calendar(ctx.rng)} for nm in names if ctx.rng.random() < 0.8]
        # clock and bound inside a day, near the boundaries of the calendars
        if ctx.rng.random() < 0.7:
            c['pbound'] = sc.day_us(ctx.rng.randint(-6, 14), ctx.rng.choice([0, 10, 13, 16, 19]) * sc.H)
            c['now'] = c['pbound'] + ctx.rng.choice([-3 * sc.DAY, -2 * sc.H, 0, sc.H, 5 * sc.H])
            c['now2'] = None
            for t in c['tasks']:
                if t.get('end') is not None and t['end'] > c['now']:
                    t['end'] = None
        cases.append(c)
    # ids of both legal types in one WBS (int and str) in an eighth of the cases (decided by a stream of its own)
    import random as _random
    rng2 = _random.Random('C14/mixed-ids/%s' % ctx.seed)
    for c in cases:
        if rng2.random() < 0.125 and 'task_aware' not in c:
            c['mixed_ids'] = True
    # aimed: work that fits into one overtime day (closed in the calendar, opened by the resource for this task)
    cases += [sc.gen_overtime_case(ctx.rng, d) for d in ('bwd', 'fwd', 'bwd', 'fwd')]
    # aimed: the last day of a calendar (its `end` is a midnight: the day counts when asked for at 00:00 and is over at
    # any later time) reached by a search that stands at a time of day - a leaf that becomes ready in the middle of a
    # fully booked day; mirrored for the backward scheduler with the first day of a calendar
    rng3 = _random.Random('C14/last-day/%s' % ctx.seed)
    cases += [gen_last_day_case(rng3) for _ in range(6 if ctx.tier == 'quick' else 60)]
    # aimed: capacity counted in very small units - a thousand million or more reserved on the partly used day
    for d in ('fwd', 'bwd'):
        big = 2_000_000_000 * rng3.choice([1, 3])
        c = sc.C(d, [sc.T(1, resource='a', est=8 * (2 * big + big // 2))], pb=sc.day_us(0), now=sc.day_us(-9),
                 resources=[{'name': 'a', 'cal': sc.wk([0, 1, 2, 3, 4, 5, 6], ['i', big])}])
        c['outcome_only'] = True
        c['edit_calendars'] = []
        cases.append(c)
    outs = []
    for i in range(0, len(cases), 20):
        outs += ctx.impl_run('sched_impl', cases[i:i + 20])
    stat = {'cases': len(cases), 'last_day_cases': sum(1 for c in cases if c.get('last_day')), 'returned': 0, 'runtime_error': 0, 'crash': 0, 'timeout': 0, 'not_built': 0}
    for c, o in zip(cases, outs):
        if not o.get('outcome_only'):
            stat['not_built'] += 1
            continue
        oc = o['outcome']
        stat['returned' if oc == 0 else 'runtime_error' if oc == 1 else 'timeout' if oc == 20 else 'crash'] += 1
        if oc == 20:
            ctx.failure('C14/%s/timeout' % c['dir'], 'calc did not terminate within the alarm (%s scheduler, calendar with time-of-day '
                        'bounds)' % c['dir'], {'case': c, 'observed': o})
        elif oc >= 10:
            ctx.failure('C14/%s/crash' % c['dir'], 'calc raised %s (%s scheduler, calendar with time-of-day bounds): only RuntimeError '
                        'is a diagnosis' % (o.get('exc'), c['dir']), {'case': c, 'observed': o})
    return stat


def run(ctx):
    ctx.coverage_deep = deep_chains(ctx)
    robust = robustness_stream(ctx)
    stats = {}
    generated = {}

    def extra(ctx_, case, out, code, desc):
        oc = out['outcome']
        if out.get('again_exc') and not out['again_exc'].startswith(('RuntimeError', 'Timeout')):
            # the later calculations of the runner (same scheduler again, fresh ones, the same scheduler on another plan)
            ctx_.failure('C14/%s/later-call-crash' % case['dir'], 'a later calc on a valid WBS raised %s: only RuntimeError is a '
                         'diagnosis' % out['again_exc'], desc)
        if oc == 20:
            ctx_.failure('C14/%s/timeout' % case['dir'], 'calc did not terminate within the 60 s alarm (%s scheduler)' % case['dir'], desc)
        label = 'returned' if oc == 0 else 'runtime_error' if oc == 1 else 'timeout' if oc == 20 else 'crash'
        cls_here = classes_of(case, out)
        if oc == 0 and not (code & sc.BITS['illformed']):
            # "RuntimeError is the outcome for inputs that cannot be scheduled": the class is recomputed from the abstract
            # input (theorems C14_err_isolated / _future_end / _no_capacity_any / _cycle say the model answers Err)
            for cls in cls_here:
                if cls in CLASSES:
                    ctx_.failure('C14/%s/unschedulable-input-returned-a-schedule' % case['dir'],
                                 'calc returned a schedule for an input of the class %s (RuntimeError is the documented outcome)' % cls, desc)
                    break
        for cls in cls_here:
            s = stats.setdefault(cls, {'cases': 0, 'fwd': 0, 'bwd': 0, 'returned': 0, 'runtime_error': 0, 'crash': 0, 'timeout': 0})
            s['cases'] += 1
            s[case['dir']] += 1
            s[label] += 1
        if case.get('c14_class'):
            g = generated.setdefault(case['c14_class'], {'cases': 0, 'returned': 0, 'runtime_error': 0, 'crash': 0, 'timeout': 0})
            g['cases'] += 1
            g[label] += 1

    sc.run_property(ctx, ID, FAIL, MISMATCH, extra=extra, n_quick=150, n_thorough=3000, extra_cases=extra_cases)
    dist = dict(ctx.coverage.get('distribution') or {})
    dist['classes_by_analysis_of_the_abstract_input'] = stats
    dist['extra_stream_by_intended_class'] = generated
    dist['robustness_stream_calendars_with_time_of_day_bounds'] = robust
    ctx.coverage['distribution'] = dist
    ctx.coverage['rule'] = (ctx.coverage.get('rule') or '') + \
        '; plus a stream of unschedulable inputs of each class (outside predecessor without start/end, fixed end after the ' \
        'clock, never-available or bounded calendar on a leaf, cycles closing through the hierarchy in 4 shapes, entered ' \
        'from either side); the class of every case is recomputed from the abstract input and counted with its outcome' \
        '; plus a robustness stream outside the model (calendars whose validity bounds carry a time of day): outcome class only'
    missing = [c for c in CLASSES if stats.get(c, {}).get('runtime_error', 0) == 0]
    if missing:
        raise sc.InfraError('no RuntimeError case of class(es) %s ran: the generator does not reach them' % ', '.join(missing))
    if stats.get('none_of_the_classes', {}).get('returned', 0) == 0:
        raise sc.InfraError('no schedulable case returned a schedule')
    ctx.assumptions += [
        'interpreter recursion depth is not modelled (DESIGN.md F16): dependency chains or hierarchies deeper than the '
        'recursion limit (about 990 tasks) make calc - in fact already clone() and _check_loops - raise RecursionError; '
        'generated WBSs have at most 18 tasks',
        'resources and calendars are pjplan\'s own classes; user-supplied IResource / calendar objects that raise are outside the model',
    ]


def replay(ctx, rep):
    case = rep['case']['case']
    if case.get('outcome_only'):
        o = ctx.impl_run('sched_impl', [case])[0]
        print('replay: implementation outcome %s %s' % (o.get('outcome'), o.get('exc', '')))
        if o.get('outcome', 0) >= 10:
            ctx.failure('C14/%s/replay' % case['dir'], 'calc did not end with a schedule or a RuntimeError on the replayed case', {'case': case, 'observed': o})
        ctx.coverage.update(evaluations=1, distinct_nontrivial=1, rule='replay of one case of the robustness stream', samples=[case])
        return
    sc.replay_generic(ctx, rep, FAIL, MISMATCH, ID)
