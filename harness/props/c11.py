"""C11 - Task.wbs tells the truth about WBS membership (also after every removal path).
Search: wf_own_b (owner = the WBS whose hidden root is the raw root of the task, None for detached trees) and
wf_hid_b on the snapshot after every call; and, on the observations themselves, `t.wbs is w` exactly for the
tasks listed by w.tasks.  Tie: outcome class and Task.wbs of every object."""
from harness.props import graph_common as gc

ID = 'C11'
PROPS_FILE = 'Props/Props_C11.v'
EXTRA_TARGETS = ['Graph/Check.vo']
CONST_PARTS = ('srcgraph',)

SPEC = gc.Spec(
    ID, 11,
    fail={1: 'owner-disagrees-with-membership'},
    mismatch={2: 'outcome-class', 3: 'owners'},
    notes='wf_hid_b && wf_own_b on the snapshot after every call; model step from the actual pre-state: outcome class, Task.wbs '
          'of every object')


def run(ctx):
    hists, _ = gc.run_property(ctx, SPEC)
    # The property in its own words, on the observations themselves: a task reports WBS w exactly when it is among
    # WBS.tasks of w.  wf_own_b decides ownership by walking UP the raw parents, WBS.tasks walks DOWN the children
    # lists; the two agree only while parent and children mirror each other (C01), so a task that is still listed
    # but has lost parent and owner would pass wf_own_b.
    shown = {}
    for h in hists:
        pre = gc.EMPTY
        prev_lists = []
        for ix, st in enumerate(h['steps']):
            lists = (st.get('reads') or {}).get('tasks', [])
            heap = st['post']['heap']
            bad = None
            for wi, l in enumerate(lists):
                if l == [10 ** 6]:          # WBS.tasks itself raised (a cycle): C01's business
                    continue
                members = set(l)
                for x, rec in enumerate(heap):
                    if rec[6]:              # hidden root
                        continue
                    if (x in members) != (rec[5] == wi):
                        bad = (wi, x, rec[5], x in members)
                        break
                if bad:
                    break
            if not bad:
                bad = released_clause(st, pre, prev_lists)
            prev_lists = lists
            if bad:
                k = st['op'][0]
                shown[k] = shown.get(k, 0) + 1
                if shown[k] <= 2:
                    origin = ('corpus: ' + h['corpus']) if 'corpus' in h else 'generated history, seed %s' % h.get('seed')
                    sig = 'owner-disagrees-with-WBS.tasks' if len(bad) == 4 else 'removed-task-not-released'
                    text = ('object %d reports WBS %r but %s listed by WBS.tasks of WBS %d' % (bad[1], bad[2], 'is' if bad[3] else 'is not', bad[0])
                            if len(bad) == 4 else bad[4])
                    ctx.failure('C11/%s/%s' % (k, sig),
                                'C11/%s/%s: %s, after %s (%s)' % (k, sig, text, gc.describe_call(st), origin),
                                {'kind': 'ops', 'items': gc.items_of(h, ix), 'origin': origin, 'call_index': ix, 'op': st['op'],
                                 'how': st['how'], 'pre': pre, 'observed': {'reads': st['reads'], 'post': st['post']}})
                break                       # the state is ill-formed from here on
            pre = st['post']
    if shown:
        ctx.coverage.setdefault('distribution', {})['owner_vs_tasks_by_call_site'] = shown


def released_clause(st, pre, prev_lists):
    """The last sentence of the property on the observations: a task taken out by a call that RETURNED - WBS.remove of a
    task the WBS listed, list removal, being left out of a children / roots assignment - reports no owner afterwards and
    is listed by no WBS.tasks.  Returns None or a 5-tuple whose last element says what is wrong."""
    if st.get('code', 0) != 0 or not pre or 'heap' not in pre:
        return None
    op = st['op']
    k = op[0]
    heap0, heap = pre['heap'], st['post']['heap']
    lists = (st.get('reads') or {}).get('tasks', [])
    out = []
    if k == 'WbsRemove' and op[2] is not None and op[1] < len(prev_lists) and op[2] in prev_lists[op[1]]:
        out = [op[2]]
    elif k == 'ChRemove' and op[1] < len(heap0) and op[2] in heap0[op[1]][2]:
        out = [op[2]]
    elif k == 'SetChildren' and op[1] < len(heap0):
        keep = set(x for x in op[2] if x is not None)
        out = [c for c in heap0[op[1]][2] if c not in keep]
    elif k == 'WbsRemoveAll' and op[1] < len(prev_lists) and prev_lists[op[1]] != [10 ** 6]:
        # every member whose id the filter names (at any depth: a match below a match leaves with it)
        out = [x for x in prev_lists[op[1]] if x < len(heap0) and heap0[x][0] in op[2]]
    elif k == 'ChRemoveAll' and op[1] < len(heap0):
        out = [c for c in heap0[op[1]][2] if c < len(heap0) and heap0[c][0] in op[2]]
    for x in out:
        if x >= len(heap):
            continue
        if heap[x][5] is not None:
            return (heap[x][5], x, heap[x][5], True, 'object %d was taken out by the call but still reports WBS %r' % (x, heap[x][5]))
        for wi, l in enumerate(lists):
            if l != [10 ** 6] and x in l:
                return (wi, x, None, True, 'object %d was taken out by the call but is still listed by WBS.tasks of WBS %d' % (x, wi))
    return None


def replay(ctx, rep):
    gc.replay_generic(ctx, SPEC, rep)
