"""C11 - Task.wbs tells the truth about WBS membership (also after every removal path).
Search: wf_own_b (owner = the WBS whose hidden root is the raw root of the task, None for detached trees) and
wf_hid_b on the snapshot after every call.  Tie: outcome class and Task.wbs of every object."""
from harness.props import graph_common as gc

ID = 'C11'
PROPS_FILE = 'Props/Props_C11.v'
EXTRA_TARGETS = ['Graph/Check.vo']
CONST_PARTS = ()

SPEC = gc.Spec(
    ID, 11,
    fail={1: 'owner-disagrees-with-membership'},
    mismatch={2: 'outcome-class', 3: 'owners'},
    notes='wf_hid_b && wf_own_b on the snapshot after every call; model step from the actual pre-state: outcome class, Task.wbs '
          'of every object')


def run(ctx):
    gc.run_property(ctx, SPEC)


def replay(ctx, rep):
    gc.replay_generic(ctx, SPEC, rep)
