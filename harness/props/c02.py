"""C02 - forward schedules never start a task before its prerequisites are finished.  Theorems:
Props_C02.v (invariant of the forward machine: release instant of every leaf without a user start,
milestones at the latest prerequisite end, roll-up of ends to all descendants; reflection of the
oracle; the model's output passes it).  Tie: the verified oracle c02_b evaluated on the schedule the
implementation returns (bit 32), dates compared exactly with the model (bit 2) on the dyadic grid."""
from harness import common
from harness.props import sched_common as sc

ID = 'C02'
PROPS_FILE = 'Props/Props_C02.v'
EXTRA_TARGETS = ['Sched/Case.vo', 'Props/Props_Glue.vo']   # Glue: WFin holds of every reachable graph state
CONST_PARTS = ('sched', 'srcpass')
FAIL = sc.BITS['c02']
MISMATCH = sc.BITS['model_oracle'] | sc.BITS['dates']


def ext_last(out):
    """hypothesis [ext_last] of C02_forward_passes_oracle: the members are numbered before the tasks outside the WBS"""
    flags = [bool(k['ext']) for k in out['w']]
    return flags == sorted(flags)


def extra(ctx, case, out, code, desc):
    if not ext_last(out):
        raise common.InfraError('C02: abstract input lists a task outside the WBS before a member (ext_last violated)')


def run(ctx):
    kept, codes = sc.run_property(ctx, ID, FAIL, MISMATCH, dirs=('fwd',), extra=extra)
    # how many of the evaluated cases exercise the clauses of the property (measured)
    leaf = mil = inherited = 0
    for (case, out), code in zip(kept, codes):
        if case.get('offgrid') or code & sc.BITS['illformed'] or out.get('outcome') != 0:
            continue
        w = out['w']
        mem = [k for k in w if not k['ext']]
        if any(k['milestone'] for k in mem):
            mil += 1
        if any(not k['children'] and not k['milestone'] and k['start'] is None and k['end'] is None for k in mem):
            leaf += 1
        if any(k['parent'] is not None and w[k['parent']]['preds'] for k in mem):
            inherited += 1
    ctx.coverage.setdefault('distribution', {}).update(
        {'returned_with_free_leaf': leaf, 'returned_with_milestone': mil, 'returned_with_inherited_prerequisite': inherited})
    ctx.assumptions += [
        'C02: the start clause is demanded of leaves with neither a user start nor a user end (a fixed end clamps the start, '
        'repair F24 / property C07; see C02_fixed_end_conflict); milestones: max(project start, latest prerequisite end)',
        'C02: ext_last (members numbered before the tasks outside the WBS), a hypothesis of C02_forward_passes_oracle, is asserted '
        'by this module on every abstract input, not by wfin_b',
    ]


def replay(ctx, rep):
    sc.replay_generic(ctx, rep, FAIL, MISMATCH, ID)
