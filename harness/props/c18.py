"""C18 - task queries select exactly the matching tasks; bulk operations touch only those.

The Gallina model (Query/Query.v) is the functional specification: Props_C18.v proves that its
loops equal the declarative meaning (filter by the conjunction of the keyword filters, each suffix
with its meaning, assignment on exactly the selected tasks, remove_all = pruning exactly the
matching tasks with their subtrees).  Here the model is run (inside Coq, Query/QueryCheck.v) on
generated WBSs / task lists / filter combinations and compared with what the implementation did;
a difference is a concrete input on which the property fails on the implementation."""
import json

from harness import common
from harness.common import z, coq_list, coq_bool, InfraError

ID = 'C18'
PROPS_FILE = 'Props/Props_C18.v'
DAY = 86400_000_000
BASE = 19723 * DAY          # 2024-01-01

HEADER = """From Coq Require Import NArith.
From PJ Require Import Base.Prelude Query.Query Query.QueryCheck.
Open Scope Z_scope.
"""

KINDS = ['', '_in_', '_not_in_', '_is_none_', '_is_not_none_', '_ne_', '_lt_', '_le_', '_gt_', '_ge_', '_like_', '_not_like_']
CTOR = ('name', 'resource', 'start', 'end', 'milestone', 'estimate', 'spent', 'min_start')
DEFAULTS = {'name': None, 'resource': None, 'start': None, 'end': None, 'milestone': ['b', False],
            'estimate': None, 'spent': None, 'min_start': None}


# ---------- wire values ---------------------------------------------------------------------------
def vi(n):
    return ['i', str(n)]


def vf(x):
    return ['f', float(x).hex()]


def vs(s):
    return ['s', s]


def vb(b):
    return ['b', bool(b)]


def vt(days, us=0):
    return ['t', BASE + days * DAY + us]


NAMES = ['alpha', 'beta', 'alp', 'MVP 1', 'a_b', 'x-y', '', 'Beta', 'gamma 2', 'альфа']
RESOURCES = ['R1', 'R2', 'dev', 'R10']
NUMS = [vi(0), vi(1), vi(2), vi(4), vi(8), vf(0.5), vf(2.5), vf(8.0), vf(1.0), vi(16), vf(0.1), vf(4.0)]
PATTERNS = ['a', 'lp', 'MVP', '', ' ', '_', '-', 'R', '1', 'alpha', 'eta', 'B', 'R1', 'а', 'x-y', 'a_b', 'zz', ' 1', 'ma 2']
CUSTOM = ['prio', 'tag', 'flag', 'x', 'x_not', 'kind_is']


def gen_value_for(rng, attr):
    """A value of the type the attribute usually has."""
    if attr in ('name', 'tag'):
        return vs(rng.choice(NAMES))
    if attr == 'resource':
        return vs(rng.choice(RESOURCES))
    if attr in ('estimate', 'spent', 'prio', 'x', 'x_not'):
        return rng.choice(NUMS)
    if attr in ('milestone', 'flag'):
        return vb(rng.random() < 0.5)
    if attr in ('start', 'end', 'min_start'):
        return vt(rng.randint(0, 6), rng.choice([0, 0, 9 * 3600_000_000]))
    if attr in ('id', 'parent_id'):
        return vi(rng.randint(1, 9))
    return rng.choice([vi(1), vs('a'), vb(True)])


def gen_any_value(rng):
    r = rng.random()
    if r < 0.1:
        return None
    return gen_value_for(rng, rng.choice(['name', 'resource', 'estimate', 'milestone', 'start', 'id']))


# ---------- worlds --------------------------------------------------------------------------------
def gen_node(rng, counter, ids, depth, str_ids):
    o = counter[0]
    counter[0] += 1
    tid = ids.pop()
    attrs = []
    dele = []
    r = rng.random
    if r() < 0.8:
        attrs.append(['name', vs(rng.choice(NAMES)) if r() < 0.85 else None])
    elif r() < 0.3:
        dele.append('name')
    if r() < 0.6:
        attrs.append(['resource', vs(rng.choice(RESOURCES)) if r() < 0.85 else None])
    elif r() < 0.15:
        dele.append('resource')
    if r() < 0.6:
        attrs.append(['estimate', rng.choice(NUMS) if r() < 0.85 else None])
    if r() < 0.45:
        attrs.append(['spent', rng.choice(NUMS) if r() < 0.85 else None])
    if r() < 0.3:
        attrs.append(['milestone', vb(r() < 0.6) if r() < 0.9 else None])
    elif r() < 0.05:
        dele.append('milestone')
    if r() < 0.4:
        attrs.append(['start', gen_value_for(rng, 'start') if r() < 0.85 else None])
    elif r() < 0.05:
        dele.append('start')
    for c in CUSTOM:
        if r() < 0.3:
            attrs.append([c, gen_value_for(rng, c) if r() < 0.8 else None])
    if r() < 0.1:
        attrs.append(['prio', gen_any_value(rng)])
        attrs = dedupe(attrs)
    rng.shuffle(attrs)
    node = {'o': o, 'id': vs('t%d' % tid) if str_ids else vi(tid), 'attrs': attrs, 'del': dele, 'ch': []}
    return node


def dedupe(attrs):
    seen = {}
    for k, v in attrs:
        seen[k] = v
    return [[k, v] for k, v in seen.items()]


def gen_forest(rng):
    n = rng.choice([1, 2, 3, 4, 4, 5, 5, 6, 6, 7, 8])
    ids = list(range(1, 10))
    rng.shuffle(ids)
    str_ids = rng.random() < 0.07
    counter = [0]
    nodes = [gen_node(rng, counter, ids, 0, str_ids) for _ in range(n)]
    forest = []
    placed = []     # (node, depth), creation order = preorder is not required
    for nd in nodes:
        if placed and rng.random() < 0.6:
            cands = [p for p, d in placed if d < 3]
            par = rng.choice(cands)
            par['ch'].append(nd)
            placed.append((nd, [d for p, d in placed if p is par][0] + 1))
        else:
            forest.append(nd)
            placed.append((nd, 0))
    renumber(forest, [0])
    return forest


def renumber(forest, c):
    for n in forest:
        n['o'] = c[0]
        c[0] += 1
        renumber(n['ch'], c)


def all_nodes(forest):
    for n in forest:
        yield n
        yield from all_nodes(n['ch'])


def effective_attrs(node):
    d = dict(DEFAULTS)
    for k, v in node['attrs']:
        d[k] = v
    for k in node.get('del', []):
        d.pop(k, None)
    return d


# ---------- filters -------------------------------------------------------------------------------
def gen_filter(rng, forest, used):
    nodes = list(all_nodes(forest))
    live = sorted({k for n in nodes for k, v in effective_attrs(n).items() if v is not None} | {'id', 'parent_id'})
    for _ in range(20):
        if rng.random() < 0.7:
            attr = rng.choice(live)      # an attribute some task really has
        else:
            attr = rng.choice(['name', 'name', 'resource', 'estimate', 'estimate', 'spent', 'milestone', 'start',
                               'parent_id', 'id', 'id', 'prio', 'tag', 'flag', 'x', 'x_not', 'kind_is', 'zzz'])
        suffix = rng.choice(KINDS)
        kw = attr + suffix
        if kw not in used:
            break
    used.add(kw)

    def typed():
        # mostly a value some task really has, sometimes a fresh one of the usual type, sometimes any type
        r = rng.random()
        if r < 0.65:
            vals = []
            for n in nodes:
                if attr == 'id':
                    vals.append(n['id'])
                elif attr == 'parent_id':
                    vals.append(n['id'])
                else:
                    v = effective_attrs(n).get(attr)
                    if v is not None:
                        vals.append(v)
            if vals:
                return rng.choice(vals)
        if r < 0.88:
            return gen_value_for(rng, attr)
        return gen_any_value(rng)

    if suffix in ('_in_', '_not_in_'):
        if rng.random() < 0.06:
            return [kw, ['v', rng.choice([vs('alpha beta R1'), vi(3), None, vs('')])]]
        vals = [typed() for _ in range(rng.choice([0, 1, 2, 2, 3]))]
        if rng.random() < 0.25:
            vals.append(None)
        shape = rng.choice(['list', 'list', 'tuple', 'set'])
        if shape == 'set':
            # a set merges equal elements (1, 1.0, True); keep the first so that both sides see the same values
            vals = set_like(vals)
        return [kw, ['l', vals, shape]]
    if suffix in ('_like_', '_not_like_'):
        r = rng.random()
        if r < 0.93:
            return [kw, ['v', vs(rng.choice(PATTERNS))]]
        return [kw, ['v', rng.choice([None, vi(1), vb(True)])]]
    if suffix in ('_is_none_', '_is_not_none_'):
        return [kw, ['v', rng.choice([vb(True), vb(True), vb(False), None, vi(1)])]]
    if rng.random() < 0.04:
        return [kw, ['l', [typed()], 'list']]
    return [kw, ['v', typed()]]


def set_like(vals):
    out = []
    for v in vals:
        if not any(py_eq_wire(v, w) for w in out):
            out.append(v)
    return out


def wire_py(v):
    if v is None:
        return None
    k = v[0]
    if k == 'b':
        return bool(v[1])
    if k == 'i':
        return int(v[1])
    if k == 'f':
        return float.fromhex(v[1])
    if k == 's':
        return v[1]
    return ('t', v[1])


def py_eq_wire(a, b):
    return wire_py(a) == wire_py(b)


def node_view(node, parent, attr):
    if attr == 'id':
        return node['id']
    if attr == 'parent_id':
        return parent['id'] if parent is not None else None
    return effective_attrs(node).get(attr)


def other_value(rng, v):
    for _ in range(10):
        w = gen_value_for(rng, {'s': 'name', 'i': 'estimate', 'f': 'estimate', 'b': 'flag', 't': 'start'}[v[0]] if v else 'name')
        if not py_eq_wire(v, w):
            return w
    return vs('no such value')


def gen_filter_for(rng, node, parent, used):
    """A filter the given task satisfies (so that conjunctions select something)."""
    for _ in range(20):
        attr = rng.choice(['id', 'parent_id', 'name', 'resource', 'estimate', 'spent', 'milestone', 'start']
                          + [k for k, _ in node['attrs']])
        v = node_view(node, parent, attr)
        if v is None:
            suffix = rng.choice(['_is_none_', '', '_in_', '_not_in_'])
        elif v[0] == 's':
            suffix = rng.choice(KINDS[:3] + KINDS[4:])
        else:
            suffix = rng.choice(KINDS[:3] + KINDS[4:10])
        kw = attr + suffix
        if kw not in used:
            break
    used.add(kw)
    return filter_for_attr(rng, attr, suffix, v)


def filter_for_attr(rng, attr, suffix, v):
    """the keyword attr+suffix with a value that a task whose attribute is `v` satisfies"""
    kw = attr + suffix
    if v is None:
        if suffix == '_is_none_':
            return [kw, ['v', vb(True)]]
        if suffix == '':
            return [kw, ['v', None]]
        if suffix == '_in_':
            return [kw, ['l', [gen_value_for(rng, attr), None], 'list']]
        return [kw, ['l', [gen_value_for(rng, attr)], rng.choice(['list', 'tuple'])]]
    if suffix == '':
        return [kw, ['v', v]]
    if suffix == '_in_':
        vals = [other_value(rng, v), v]
        rng.shuffle(vals)
        return [kw, ['l', vals, rng.choice(['list', 'tuple'])]]
    if suffix == '_not_in_':
        return [kw, ['l', [other_value(rng, v), None][:rng.randint(1, 2)], 'list']]
    if suffix == '_is_not_none_':
        return [kw, ['v', vb(True)]]
    if suffix == '_ne_':
        return [kw, ['v', other_value(rng, v)]]
    if suffix in ('_le_', '_ge_'):
        return [kw, ['v', v]]
    if suffix in ('_lt_', '_gt_'):
        up = suffix == '_lt_'
        if v[0] == 's':
            w = vs(v[1] + 'a') if up else vs(v[1][:-1] if v[1] else '')
            if not up and not v[1]:
                return [kw[:-4] + '_ge_', ['v', v]]
            return [kw, ['v', w]]
        if v[0] == 't':
            return [kw, ['v', ['t', v[1] + (DAY if up else -DAY)]]]
        x = wire_py(v)
        return [kw, ['v', vf(float(x) + (0.5 if up else -0.5))]]
    if suffix == '_like_':
        txt = v[1]
        a = rng.randint(0, len(txt))
        b = rng.randint(a, len(txt))
        sub = txt[a:b]
        return [kw, ['v', vs(sub)]]
    if suffix == '_not_like_':
        return [kw, ['v', vs(rng.choice(['zz', 'qq', '#', 'Z9']))]]
    raise ValueError(suffix)


def gen_same_attr_case(rng):
    """aimed: two or three keywords on ONE attribute in one call (a range `x_ge_ .. x_le_`, a pattern with an exception
    `name_like_ .. name_not_like_`, ...), all satisfied by one chosen task: each keyword is a test of its own"""
    forest = gen_forest(rng)
    nodes = list(all_nodes(forest))
    pm = parent_map(forest)
    for _ in range(30):
        target = rng.choice(nodes)
        par = pm[target['o']]
        attr = rng.choice(['id', 'name', 'name', 'resource', 'estimate', 'spent'] + [k for k, _ in target['attrs']])
        v = node_view(target, par, attr)
        if v is not None:
            break
    else:
        attr, v = 'id', node_view(target, par, 'id')
    if v[0] == 's':
        pool = [['_like_', '_not_like_'], ['_like_', '_not_like_'], ['_not_like_', '_like_'], ['_like_', '_not_like_', '_ne_'],
                ['_ge_', '_le_'], ['_like_', '_not_in_'], ['_not_like_', '_in_'], ['_like_', '_not_like_', '_is_not_none_']]
    else:
        pool = [['_ge_', '_le_'], ['_gt_', '_lt_'], ['_le_', '_ge_', '_ne_'], ['_in_', '_not_in_'], ['_ne_', '_in_'], ['_gt_', '_le_']]
    fs = [filter_for_attr(rng, attr, sfx, v) for sfx in rng.choice(pool)]
    free = rng.random() < 0.2
    r = rng.random()
    if r < 0.6 or free:
        op = ['query', ['all'], None, fs]
    elif r < 0.8:
        k, val = gen_assign(rng)
        op = ['assign', ['query', ['all'], None, fs], k, val]
    else:
        op = ['wbs_remove_all', None, fs]
    return {'free': free, 'forest': forest, 'op': op}


def parent_map(forest):
    m = {}

    def walk(n, p):
        m[n['o']] = p
        for c in n['ch']:
            walk(c, n)
    for r in forest:
        walk(r, None)
    return m


def gen_filters(rng, forest, lo=1, hi=3):
    used = set()
    nodes = list(all_nodes(forest))
    if len(nodes) >= 2 and lo <= 1 and rng.random() < 0.12:
        # aimed: ONE membership keyword whose values are the values of several tasks, NOT in list order and with
        # a repetition (a shortcut that answers a lone membership test from an index would reorder / repeat)
        attr = rng.choice(['id', 'id', 'id', 'name', 'resource', 'estimate', 'parent_id'])
        par = parent_map(forest)
        vals = [node_view(n, par[n['o']], attr) for n in rng.sample(nodes, rng.randint(2, min(4, len(nodes))))]
        vals = [v for v in vals if v is not None] or [node_view(nodes[0], None, 'id')]
        vals.reverse()
        if rng.random() < 0.5:
            vals.append(vals[0])
        return [[attr + rng.choice(['_in_', '_in_', '_in_', '_not_in_']), ['l', vals, rng.choice(['list', 'tuple'])]]]
    if nodes and rng.random() < 0.5:
        # all filters are satisfied by one chosen task
        target = rng.choice(nodes)
        par = parent_map(forest)[target['o']]
        n = rng.choice([k for k in (1, 1, 2, 2, 3, 3) if lo <= k <= hi])
        out = []
        for _ in range(n):
            f = gen_filter_for(rng, target, par, used)
            if f[0] not in [g[0] for g in out]:
                out.append(f)
        return out
    n = rng.choice([k for k in (1, 1, 1, 2, 2, 3, 0) if lo <= k <= hi])
    return [gen_filter(rng, forest, used) for _ in range(n)]


def gen_pred(rng, forest, depth=0):
    r = rng.random()
    if r < 0.15:
        return ['const', rng.random() < 0.7]
    if r < 0.55:
        ids = [n['id'] for n in all_nodes(forest)]
        return ['idin', rng.sample(ids, rng.randint(0, len(ids)))]
    if r < 0.85 or depth > 0:
        return ['has', rng.choice(['name', 'resource', 'estimate', 'spent', 'parent_id', 'prio', 'tag', 'zzz'])]
    return ['not', gen_pred(rng, forest, depth + 1)]


def gen_key(rng, forest):
    r = rng.random()
    if r < 0.72:
        return None
    if r < 0.96:
        return ['pred', gen_pred(rng, forest)]
    return ['bad', rng.choice([5, 'x', 1.5])]


def gen_source(rng, forest, free, depth=0):
    nodes = list(all_nodes(forest))
    r = rng.random()
    if r < 0.40:
        return ['all']
    if r < 0.50 and not free:
        return ['roots']
    inner = [n for n in nodes if n['ch']]
    pool = inner if inner and rng.random() < 0.85 else nodes
    if r < 0.64:
        return ['kids', rng.choice(pool)['o']]
    if r < 0.76:
        return ['desc', rng.choice(pool)['o']]
    if depth < 2:
        key = gen_key(rng, forest)
        if key is not None and key[0] == 'bad':
            key = None
        return ['query', gen_source(rng, forest, free, depth + 1), key, gen_filters(rng, forest, 0, 1)]
    return ['all']


ASSIGN_KEYS = ['name', 'resource', 'estimate', 'estimate', 'spent', 'milestone', 'prio', 'tag', 'fresh', 'start',
               '_tmp', '_x', 'id']


def gen_assign(rng):
    k = rng.choice(ASSIGN_KEYS)
    r = rng.random()
    if k in ('estimate', 'spent'):
        if r < 0.6:
            v = rng.choice(NUMS)
        elif r < 0.75:
            v = rng.choice([vi(-1), vf(-0.5), vi(-8)])
        elif r < 0.85:
            v = None
        elif r < 0.92:
            v = vb(rng.random() < 0.5)
        else:
            v = rng.choice([vs('8'), vt(1)])
        return k, v
    if r < 0.8:
        return k, gen_value_for(rng, k if k not in ('fresh', '_tmp', '_x') else 'prio')
    return k, gen_any_value(rng)


def gen_case(rng):
    forest = gen_forest(rng)
    free = rng.random() < 0.2
    nodes = list(all_nodes(forest))
    if free and len(forest) >= 2 and rng.random() < 0.6:
        # ids are unique per tree only: two tasks of DIFFERENT detached trees carry one id (a list such as
        # task.predecessors can hold both); a lone `id=` filter must return both
        ta, tb = rng.sample(forest, 2)
        x, y = rng.choice(list(all_nodes([ta]))), rng.choice(list(all_nodes([tb])))
        y['id'] = x['id']
        if rng.random() < 0.5:
            kind = rng.random()
            flt = [['id', ['v', x['id']]]]
            if kind < 0.5:
                return {'free': free, 'forest': forest, 'op': ['query', ['all'], None, flt]}
            if kind < 0.8:
                k, v = gen_assign(rng)
                return {'free': free, 'forest': forest, 'op': ['assign', ['query', ['all'], None, flt], k, v]}
            return {'free': free, 'forest': forest, 'op': ['query', ['all'], None, flt + [gen_filter(rng, forest, {'id'})][:rng.randint(0, 1)]]}   # ({'id'}: a keyword occurs once in a call)
    r = rng.random()
    if r < 0.45:
        op = ['query', gen_source(rng, forest, free), gen_key(rng, forest), gen_filters(rng, forest)]
    elif r < 0.70:
        k, v = gen_assign(rng)
        op = ['assign', gen_source(rng, forest, free), k, v]
    elif r < 0.86 and not free:
        op = ['wbs_remove_all', gen_key(rng, forest), gen_filters(rng, forest, 0, 2)]
    else:
        with_kids = [n for n in nodes if n['ch']]
        if free and not with_kids:
            op = ['query', ['all'], gen_key(rng, forest), gen_filters(rng, forest)]
        else:
            p = None
            if free or (with_kids and rng.random() < 0.7):
                p = rng.choice(with_kids)['o']
            op = ['list_remove_all', p, gen_key(rng, forest), gen_filters(rng, forest, 0, 2)]
    return {'free': free, 'forest': forest, 'op': op}


# ---------- corpus --------------------------------------------------------------------------------
def N(o, tid, attrs=None, ch=None, dele=None):
    return {'o': o, 'id': vi(tid), 'attrs': [[k, v] for k, v in (attrs or {}).items()], 'del': dele or [], 'ch': ch or []}


def flatworld():
    return [N(0, 1, {'name': vs('alpha'), 'estimate': vi(8), 'spent': vi(2)}),
            N(1, 2, {'name': vs('beta'), 'estimate': vi(4)}),
            N(2, 3, {'name': vs('alp'), 'resource': vs('R1')})]


def nested():
    return [N(0, 1, {'name': vs('m')}, [N(1, 2, {'name': vs('m')}), N(2, 3, {'name': vs('k')}, [N(3, 5, {'name': vs('m')})])]),
            N(4, 4, {'name': vs('m')}),
            N(5, 6, {'name': vs('z'), 'estimate': vf(2.5)})]


def Q(forest, src, key, fs, free=False):
    return {'free': free, 'forest': forest, 'op': ['query', src, key, fs]}


CORPUS = [
    # F21: estimate / spent were invisible to every filter
    Q(flatworld(), ['all'], None, [['estimate', ['v', vi(8)]]]),
    Q(flatworld(), ['all'], None, [['spent_is_none_', ['v', vb(True)]]]),
    Q(flatworld(), ['all'], None, [['estimate_ge_', ['v', vi(4)]]]),
    Q(flatworld(), ['all'], None, [['estimate_in_', ['l', [vf(8.0), vi(3)], 'list']]], free=True),
    Q(flatworld(), ['all'], None, [['spent_is_not_none_', ['v', vb(True)]], ['estimate_lt_', ['v', vf(8.5)]]]),
    {'free': False, 'forest': flatworld(), 'op': ['wbs_remove_all', None, [['spent_is_none_', ['v', vb(True)]]]]},
    # a callable key used to switch the keyword filters off
    Q(flatworld(), ['all'], ['pred', ['const', True]], [['name', ['v', vs('alpha')]]]),
    {'free': False, 'forest': flatworld(), 'op': ['wbs_remove_all', ['pred', ['idin', [vi(1), vi(2)]]], [['name', ['v', vs('beta')]]]]},
    # the twelve forms on a plain list (as in the test-suite), incl. None handling
    Q(flatworld(), ['all'], None, [['id', ['v', vi(1)]]], free=True),
    Q(flatworld(), ['all'], None, [['id_in_', ['l', [vi(1), vi(2)], 'list']]], free=True),
    Q(flatworld(), ['all'], None, [['id_not_in_', ['l', [vi(1), vi(2)], 'list']]], free=True),
    Q(flatworld(), ['all'], None, [['id_gt_', ['v', vi(1)]]]),
    Q(flatworld(), ['all'], None, [['id_ge_', ['v', vi(2)]]]),
    Q(flatworld(), ['all'], None, [['id_lt_', ['v', vi(3)]]]),
    Q(flatworld(), ['all'], None, [['id_le_', ['v', vi(2)]]]),
    Q(flatworld(), ['all'], None, [['id_ne_', ['v', vi(2)]]]),
    Q(flatworld(), ['all'], None, [['name_like_', ['v', vs('alp')]]]),
    Q(flatworld(), ['all'], None, [['name_not_like_', ['v', vs('alp')]]]),
    Q(flatworld(), ['all'], None, [['resource_like_', ['v', vs('R')]]]),
    Q(flatworld(), ['all'], None, [['resource_not_like_', ['v', vs('zz')]]]),
    Q(flatworld(), ['all'], None, [['resource_ne_', ['v', vs('R2')]]]),
    Q(flatworld(), ['all'], None, [['resource_in_', ['l', [None], 'list']]]),
    Q(flatworld(), ['all'], None, [['resource_not_in_', ['l', [None, vs('R2')], 'tuple']]]),
    Q(flatworld(), ['all'], None, [['resource', ['v', None]]]),
    Q(flatworld(), ['all'], None, [['zzz_is_none_', ['v', vb(True)]], ['zzz_lt_', ['v', vi(1)]]]),
    Q(flatworld(), ['all'], None, []),
    # numeric tower, type errors, short-circuit before a type error
    Q(flatworld(), ['all'], None, [['estimate', ['v', vf(8.0)]]]),
    Q(flatworld(), ['all'], None, [['milestone', ['v', vi(0)]]]),
    Q(flatworld(), ['all'], None, [['name_lt_', ['v', vi(3)]]]),
    Q(flatworld(), ['all'], None, [['id_like_', ['v', vs('1')]]]),
    Q(flatworld(), ['all'], None, [['id', ['v', vi(9)]], ['name_lt_', ['v', vi(3)]]]),
    Q(flatworld(), ['all'], ['bad', 5], []),
    Q([], ['all'], ['bad', 5], []),
    Q(flatworld(), ['all'], None, [['name_in_', ['v', vs('alpha beta')]]]),
    # keyword whose base name ends in "_not": read as NOT-IN on x (naming convention, model mirrors it)
    Q([N(0, 1, {'x_not': vi(1), 'x': vi(5)})], ['all'], None, [['x_not_in_', ['l', [vi(1)], 'list']]]),
    # hierarchy: parent_id, children lists, descendants, filtered lists
    Q(nested(), ['all'], None, [['parent_id', ['v', vi(1)]]]),
    Q(nested(), ['all'], None, [['parent_id_is_none_', ['v', vb(True)]]]),
    Q(nested(), ['kids', 0], None, [['name', ['v', vs('m')]]]),
    Q(nested(), ['desc', 0], None, [['name', ['v', vs('m')]]]),
    Q(nested(), ['query', ['all'], None, [['name', ['v', vs('m')]]]], None, [['parent_id_is_not_none_', ['v', vb(True)]]]),
    # bulk assignment
    {'free': False, 'forest': nested(), 'op': ['assign', ['query', ['all'], None, [['name', ['v', vs('m')]]]], 'resource', vs('R9')]},
    {'free': False, 'forest': nested(), 'op': ['assign', ['all'], 'estimate', vi(-1)]},
    {'free': False, 'forest': nested(), 'op': ['assign', ['all'], 'estimate', vf(1.5)]},
    {'free': False, 'forest': nested(), 'op': ['assign', ['kids', 0], '_tmp', vi(1)]},
    {'free': False, 'forest': nested(), 'op': ['assign', ['roots'], 'id', vi(7)]},
    {'free': False, 'forest': nested(), 'op': ['assign', ['query', ['all'], None, [['name', ['v', vs('none')]]]], 'id', vi(7)]},
    {'free': True, 'forest': nested(), 'op': ['assign', ['desc', 0], 'fresh', vb(True)]},
    # remove_all: a match nested under another match; nothing matches; list level
    {'free': False, 'forest': nested(), 'op': ['wbs_remove_all', None, [['name', ['v', vs('m')]]]]},
    {'free': False, 'forest': nested(), 'op': ['wbs_remove_all', None, [['name', ['v', vs('nothing')]]]]},
    {'free': False, 'forest': nested(), 'op': ['wbs_remove_all', None, [['id_in_', ['l', [vi(5), vi(3), vi(4)], 'list']]]]},
    {'free': False, 'forest': nested(), 'op': ['wbs_remove_all', None, []]},
    {'free': False, 'forest': nested(), 'op': ['list_remove_all', None, None, [['name', ['v', vs('m')]]]]},
    {'free': False, 'forest': nested(), 'op': ['list_remove_all', 0, None, [['name', ['v', vs('m')]]]]},
    {'free': True, 'forest': nested(), 'op': ['list_remove_all', 0, ['pred', ['has', 'name']], []]},
    {'free': False, 'forest': nested(), 'op': ['list_remove_all', 2, None, [['name_lt_', ['v', vi(1)]]]]},
]


# ---------- emission ------------------------------------------------------------------------------
INTERN = {}      # every distinct text of a run is written once, as a definition in the header of the case files


def text(s):
    name = INTERN.get(s)
    if name is None:
        name = INTERN[s] = 'tx%d' % len(INTERN)
    return name


def header():
    defs = ['Definition %s : text := %s.' % (name, '[' + '; '.join(str(ord(c)) for c in s) + ']%N' if s else '[]')
            for s, name in INTERN.items()]
    return HEADER + '\n'.join(defs) + '\n'


def nat(n):
    return '%d%%nat' % n


def emit_value(v):
    if v is None:
        return 'VNone'
    k = v[0]
    if k == 'b':
        return '(VBool %s)' % coq_bool(v[1])
    if k == 'i':
        return '(VInt %s)' % z(int(v[1]))
    if k == 'f':
        f = float.fromhex(v[1])
        if f != f or f in (float('inf'), float('-inf')):
            raise InfraError('non-finite float in a case: %r' % (v,))
        num, den = f.as_integer_ratio()
        return '(VNum %s %d%%N)' % (z(num), den.bit_length() - 1)
    if k == 's':
        return '(VStr %s)' % text(v[1])
    if k == 't':
        return '(VTime %s)' % z(v[1])
    raise InfraError('value the model does not have: %r' % (v,))


def emit_attrs(d):
    return coq_list(['(%s, %s)' % (text(k), emit_value(v)) for k, v in d])


def emit_tree(n):
    attrs = sorted(effective_attrs(n).items())
    return '(Node (Build_tdata %s %s %s) %s)' % (nat(n['o']), emit_value(n['id']), emit_attrs(attrs),
                                                 coq_list([emit_tree(c) for c in n['ch']]))


def emit_arg(a):
    if a[0] == 'v':
        return '(AVal %s)' % emit_value(a[1])
    return '(AList %s)' % coq_list([emit_value(x) for x in a[1]])


def emit_filters(fs):
    return coq_list(['(%s, %s)' % (text(k), emit_arg(a)) for k, a in fs])


def emit_pred(p):
    k = p[0]
    if k == 'const':
        return '(PConst %s)' % coq_bool(p[1])
    if k == 'idin':
        return '(PIdIn %s)' % coq_list([emit_value(x) for x in p[1]])
    if k == 'has':
        return '(PHas %s)' % text(p[1])
    if k == 'not':
        return '(PNot %s)' % emit_pred(p[1])
    raise ValueError(p)


def emit_key(k):
    if k is None:
        return 'KNone'
    if k[0] == 'bad':
        return 'KBad'
    return '(KPred %s)' % emit_pred(k[1])


def emit_source(s):
    k = s[0]
    if k == 'all':
        return 'SAll'
    if k == 'roots':
        return 'SRoots'
    if k == 'kids':
        return '(SKids %s)' % nat(s[1])
    if k == 'desc':
        return '(SDesc %s)' % nat(s[1])
    if k == 'query':
        return '(SQuery %s %s %s)' % (emit_source(s[1]), emit_key(s[2]), emit_filters(s[3]))
    raise ValueError(s)


def emit_op(op):
    k = op[0]
    if k == 'query':
        return '(OQuery %s %s %s)' % (emit_source(op[1]), emit_key(op[2]), emit_filters(op[3]))
    if k == 'assign':
        return '(OAssign %s %s %s)' % (emit_source(op[1]), text(op[2]), emit_value(op[3]))
    if k == 'wbs_remove_all':
        return '(OWbsRemoveAll %s %s)' % (emit_key(op[1]), emit_filters(op[2]))
    if k == 'list_remove_all':
        return '(OListRemoveAll %s %s %s)' % ('None' if op[1] is None else '(Some %s)' % nat(op[1]),
                                              emit_key(op[2]), emit_filters(op[3]))
    raise ValueError(op)


def emit_after(st):
    items = []
    for o, tid, par, has_par, attrs in st:
        if o < 0:
            o = 999999   # an object the case never created: guaranteed mismatch
        items.append('(Build_task %s %s %s %s)' % (nat(o), emit_value(tid),
                                                   '(Some %s)' % emit_value(par) if has_par else 'None', emit_attrs(attrs)))
    return coq_list(items)


def emit_case(case, obs):
    code = obs['code']
    if code == 19:
        code = 18      # an exception class the model never produces (OutOfFuel slot): guaranteed mismatch
    ret = coq_list([nat(o if o >= 0 else 999999) for o in obs['ret']])
    det = coq_list(['(%s, %s)' % (nat(o if o >= 0 else 999999), coq_list([nat(x if x >= 0 else 999999) for x in xs]))
                    for o, xs in obs['det']])
    return '(%s, %s, %s, %s, %s, %s)' % (coq_list([emit_tree(n) for n in case['forest']]), emit_op(case['op']),
                                         nat(code), ret, emit_after(obs['after']), det)


WHAT = {1: 'outcome class (returned / exception type) differs from the model',
        2: 'the returned tasks differ from the model (selection or order)',
        3: 'the task structure after the call differs from the model',
        4: 'the attribute state after the call differs from the model',
        5: 'a removed task lost part of its subtree'}


def op_site(case):
    op = case['op']
    src = op[1][0] if op[0] in ('query', 'assign') else ('roots' if op[1] is None else 'children') if op[0] == 'list_remove_all' else 'wbs'
    return '%s(%s)' % (op[0], src)


def signature(case, code):
    return 'C18/%s/%s' % (op_site(case), {1: 'outcome', 2: 'selection', 3: 'structure', 4: 'attributes', 5: 'subtree'}[code])


def evaluate(ctx, cases):
    chunks = [cases[i:i + 120] for i in range(0, len(cases), 120)]
    obs = [o for part in ctx.impl_run_many('c18_impl', chunks) for o in part]
    for c, o in zip(cases, obs):
        if 'build_error' in o:
            raise InfraError('could not build a generated world: %s / %s' % (o['build_error'], json.dumps(c)[:600]))
    terms = [emit_case(c, o) for c, o in zip(cases, obs)]
    codes = ctx.coq_codes('cases', header(), 'case', terms, 'check_case', shard=100, jobs=16)
    return obs, codes


def filters_of(case):
    op = case['op']
    fs = []

    def src(s):
        if s[0] == 'query':
            src(s[1])
            fs.extend(s[3])
    if op[0] in ('query', 'assign'):
        src(op[1])
    if op[0] == 'query':
        fs.extend(op[3])
    if op[0] == 'wbs_remove_all':
        fs.extend(op[2])
    if op[0] == 'list_remove_all':
        fs.extend(op[3])
    return fs


def kind_of_kw(kw):
    for s in ['_not_like_', '_like_', '_not_in_', '_is_none_', '_is_not_none_', '_in_', '_ne_', '_le_', '_lt_', '_ge_', '_gt_']:
        if kw.endswith(s):
            return s
    return 'eq'


def partial_order_stream(ctx):
    """outside the model's value type: NaN estimates and sets of labels (partially ordered values) under the comparison
    filters; judged on the literal clause - selected iff the attribute is there and `value OP filter value` is true"""
    import operator
    import random as _random
    rng = _random.Random('C18/partial-order/%s' % ctx.seed)
    ops = {'_lt_': operator.lt, '_le_': operator.le, '_gt_': operator.gt, '_ge_': operator.ge, '_ne_': operator.ne}

    def dec(v):
        return None if v is None else float('nan') if v[0] == 'nan' else set(v[1]) if v[0] == 'set' else float.fromhex(v[1]) if v[0] == 'f' else v[1]
    cases = []
    for _ in range(60 if ctx.tier == 'quick' else 1200):
        use_sets = rng.random() < 0.5
        tasks = []
        for _t in range(rng.randint(2, 6)):
            if use_sets:
                v = rng.choice([None, 'absent', ['set', sorted(rng.sample(['a', 'b', 'c'], rng.randint(0, 3)))]])
                tasks.append({'labels': v})
            else:
                v = rng.choice([None, 'absent', ['nan'], ['i', rng.randint(0, 3)], ['f', float(rng.choice([0.5, 1.0, 2.5])).hex()]])
                tasks.append({'estimate': v})
        attr = 'labels' if use_sets else 'estimate'
        sfx = rng.choice(list(ops))
        fv = ['set', sorted(rng.sample(['a', 'b', 'c'], rng.randint(0, 2)))] if use_sets else rng.choice([['i', 1], ['f', float(1.5).hex()], ['nan']])
        cases.append({'tasks': tasks, 'filters': [[attr + sfx, fv]], 'via': rng.choice(['tasks', 'roots'])})
    # membership filters over values that cannot be hashed (a list-valued custom attribute): `value in candidates` by ==
    member_cases = []
    for _ in range(30 if ctx.tier == 'quick' else 600):
        tasks = [{'labels': rng.choice([['list', rng.sample(['ui', 'db', 'api'], rng.randint(0, 2))], ['s', rng.choice(['ui', 'db'])],
                                        ['i', rng.randint(0, 2)]])} for _t in range(rng.randint(2, 6))]
        cand = ['tuple', [rng.choice([['s', 'ui'], ['s', 'db'], ['i', 1], ['i', 0]]) for _c in range(rng.randint(1, 3))]]
        member_cases.append({'tasks': tasks, 'filters': [['labels' + rng.choice(['_in_', '_not_in_']), cand]], 'via': rng.choice(['tasks', 'roots'])})
    member_outs = []
    for i in range(0, len(member_cases), 100):
        member_outs += ctx.impl_run('c18x_impl', member_cases[i:i + 100])

    def dec2(v):
        return list(v[1]) if v[0] == 'list' else v[1]
    for c, o in zip(member_cases, member_outs):
        kw, fv = c['filters'][0]
        cand = tuple(x[1] for x in fv[1])
        neg = kw.endswith('_not_in_')
        want = [i + 1 for i, t in enumerate(c['tasks']) if (dec2(t['labels']) in cand) != neg]
        if o['code'] != 0:
            ctx.failure('C18/unhashable/raised', 'filter %s over a list-valued attribute raised %s' % (kw, o.get('exc')), {'case': c, 'observed': o})
        elif o['ret'] != want:
            ctx.failure('C18/unhashable/selection', 'filter %s: selected %s, membership holds for %s' % (kw, o['ret'], want), {'case': c, 'observed': o})
    outs = []
    for i in range(0, len(cases), 100):
        outs += ctx.impl_run('c18x_impl', cases[i:i + 100])
    stat = {'cases': len(cases), 'returned': 0, 'raised': 0, 'selected_some_not_all': 0, 'membership_over_unhashable_values': len(member_cases)}
    for c, o in zip(cases, outs):
        kw, fv = c['filters'][0]
        attr, sfx = kw[:-4], kw[-4:]
        want = []
        for i, t in enumerate(c['tasks']):
            v = t.get(attr)
            if v is None or v == 'absent':
                continue
            if ops[sfx](dec(v), dec(fv)):
                want.append(i + 1)
        if o['code'] != 0:
            stat['raised'] += 1
            ctx.failure('C18/partial-order/raised', 'a comparison filter on comparable operands raised %s' % o.get('exc'), {'case': c, 'observed': o})
            continue
        stat['returned'] += 1
        if 0 < len(want) < len(c['tasks']):
            stat['selected_some_not_all'] += 1
        if o['ret'] != want:
            ctx.failure('C18/partial-order/selection', 'filter %s on %s values: selected %s, the comparison holds for %s'
                        % (kw, 'set' if attr == 'labels' else 'float/NaN', o['ret'], want), {'case': c, 'observed': o})
    return stat


def run(ctx):
    ctx.coverage_partial = partial_order_stream(ctx)
    n = 3000 if ctx.tier == "quick" else 40000
    cases = list(CORPUS) + [gen_case(ctx.rng) for _ in range(n)]
    import random as _random
    rng2 = _random.Random('C18/same-attribute/%s' % ctx.seed)
    cases += [gen_same_attr_case(rng2) for _ in range(max(20, n // 15))]
    # (round Y/Z) in a tenth of the generated cases every task is an instance of a user subclass of Task that changes nothing
    rng3 = _random.Random('C18/subclass/%s' % ctx.seed)
    for c in cases[len(CORPUS):]:
        if rng3.random() < 0.1:
            c['subclass'] = True
    obs, codes = evaluate(ctx, cases)
    distinct = set()
    dist = {'op': {}, 'outcome': {}, 'filter_kind': {}, 'selection': {'empty': 0, 'all': 0, 'proper_subset': 0},
            'callable_key': 0, 'free_tasks': 0, 'purity_violations': 0}
    for c, o in zip(cases, obs):
        opk = c['op'][0]
        dist['op'][opk] = dist['op'].get(opk, 0) + 1
        oc = 'returned' if o['code'] == 0 else o.get('exc', '?').split(':')[0]
        dist['outcome'][oc] = dist['outcome'].get(oc, 0) + 1
        for kw, _ in filters_of(c):
            k = kind_of_kw(kw)
            dist['filter_kind'][k] = dist['filter_kind'].get(k, 0) + 1
        if c['free']:
            dist['free_tasks'] += 1
        if opk != 'assign' and c['op'][2 if opk in ('query', 'list_remove_all') else 1] is not None:
            dist['callable_key'] += 1
        nontrivial = o['code'] != 0
        if o['code'] == 0 and opk != 'assign':
            sl = o.get('src_len', 0)
            k = 'empty' if not o['ret'] else 'all' if len(o['ret']) == sl else 'proper_subset'
            dist['selection'][k] += 1
            nontrivial = k == 'proper_subset'
        if opk == 'assign' and o['code'] == 0:
            nontrivial = 0 < o.get('src_len', 0)
        if opk == 'query' and o['code'] == 0 and not o.get('src_kept', True):
            dist['purity_violations'] += 1
        if nontrivial:
            distinct.add(json.dumps(c, sort_keys=True))
    for i, code in enumerate(codes):
        if code != 0:
            ctx.failure(signature(cases[i], code), '%s: %s' % (op_site(cases[i]), WHAT[code]),
                        {'case': cases[i], 'observed': obs[i], 'from_corpus': i < len(CORPUS)})
        elif cases[i]['op'][0] == 'query' and obs[i]['code'] == 0 and not obs[i].get('src_kept', True):
            ctx.failure('C18/query/source-list-changed', 'the queried list itself changed during the call',
                        {'case': cases[i], 'observed': obs[i], 'from_corpus': i < len(CORPUS)})
    k = len(CORPUS)
    ctx.coverage.update(
        evaluations=len(cases),
        distinct_nontrivial=len(distinct),
        rule='random WBSs / trees of free tasks (1-8 tasks, depth <= 3; name, resource, estimate, spent, milestone, start and '
             'custom attributes each present / None / absent; ints, floats, bools, strings, datetimes), one call each: '
             'query on wbs.tasks, roots, children, all_children or a filtered list with 1-3 keyword filters of the twelve '
             'kinds and/or a callable key, bulk assignment, WBS-level and list-level remove_all; distinct = distinct cases '
             'whose call raises or selects a non-empty proper subset of the list (assignment: a non-empty list)',
        samples=[{'case': cases[k], 'observed': obs[k]}, {'case': cases[-1], 'observed': obs[-1]}],
        distribution=dict(dist, robustness_stream_partially_ordered_values=ctx.coverage_partial),
        traces_validated_against_impl=len(cases),
        comparison='inside Coq (Query/QueryCheck.v check_case): outcome class, returned objects in order, structure and '
                   'type-exact attribute state of every task afterwards, subtrees of removed tasks',
    )
    ctx.assumptions += [
        're.search on a pattern without regex metacharacters is substring search (the generator writes literal patterns '
        'only; the theorems hold for any re_search function)',
        'callable keys are total, side-effect free predicates; filter values are None, bool, int, finite float, str, '
        'datetime, or a list/tuple/set of those (or a str used as container)',
        'keywords whose base name itself ends in "_not" (x_not + _in_) are read by the code as NOT-IN on x: a limit of '
        'the naming convention, mirrored by the model and excluded by the hypothesis of C18_suffix',
        'NaN and set-valued attributes (partially ordered values) are outside the value type of the model: a separate stream '
        'runs them under the five comparison suffixes and judges the selection on the literal clause, in Python',
        'bulk assignment of structural names (parent, children, predecessors, successors) belongs to C16, not to this check',
    ]


def replay(ctx, rep):
    case = rep['case']['case']
    obs, codes = evaluate(ctx, [case])
    print('replay: case %s' % json.dumps(case))
    print('replay: implementation observed %s' % json.dumps(obs[0]))
    print('replay: model verdict code %d (%s)' % (codes[0], WHAT.get(codes[0], 'agrees')))
    if codes[0] != 0:
        ctx.failure(signature(case, codes[0]), '%s: %s' % (op_site(case), WHAT[codes[0]]), {'case': case, 'observed': obs[0]})
    ctx.coverage.update(evaluations=1, distinct_nontrivial=1, rule='replay of one case', samples=[case])
