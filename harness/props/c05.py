"""C05 - task ids stay unique inside every WBS and tree; lookup by id is exact; WBS.tasks is the preorder.
Search: wf_ids_b on the snapshot after every call; WBS.tasks of every WBS equals the preorder of the snapshot;
wbs[id] for every id in use and one unused id equals the model's lookup on the snapshot (the one member with
that id / RuntimeError).  Tie: outcome class incl. the exception type, ids, tree membership."""
from harness.props import graph_common as gc

ID = 'C05'
PROPS_FILE = 'Props/Props_C05.v'
EXTRA_TARGETS = ['Graph/Check.vo']
CONST_PARTS = ()

SPEC = gc.Spec(
    ID, 5,
    fail={1: 'duplicate-id-in-one-tree', 4: 'tasks-not-the-preorder', 5: 'lookup-by-id'},
    mismatch={2: 'outcome-class', 3: 'membership'},
    notes='wf_ids_b on the snapshot; WBS.tasks = preorder of the snapshot; wbs[i] = first member with id i / RuntimeError; model '
          'step from the actual pre-state: outcome class (exact exception type), id, parent, children multiset of every object')


def run(ctx):
    gc.run_property(ctx, SPEC)


def replay(ctx, rep):
    gc.replay_generic(ctx, SPEC, rep)
