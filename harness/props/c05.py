"""C05 - task ids stay unique inside every WBS and tree; lookup by id is exact; WBS.tasks is the preorder.
Search: wf_ids_b on the snapshot after every call; WBS.tasks of every WBS equals the preorder of the snapshot;
the observed WBS.tasks holds no task twice;
wbs[id] for every id in use and one unused id equals the model's lookup on the snapshot (the one member with
that id / RuntimeError).  Tie: outcome class incl. the exception type, ids, tree membership."""
from harness.props import graph_common as gc

ID = 'C05'
PROPS_FILE = 'Props/Props_C05.v'
EXTRA_TARGETS = ['Graph/Check.vo']
CONST_PARTS = ('srcgraph',)

SPEC = gc.Spec(
    ID, 5,
    fail={1: 'duplicate-id-in-one-tree', 4: 'tasks-not-the-preorder', 5: 'lookup-by-id'},
    mismatch={2: 'outcome-class', 3: 'membership'},
    notes='wf_ids_b on the snapshot; WBS.tasks = preorder of the snapshot; wbs[i] = first member with id i / RuntimeError; model '
          'step from the actual pre-state: outcome class (exact exception type), id, parent, children multiset of every object')


def run(ctx):
    hists, _ = gc.run_property(ctx, SPEC)
    # "WBS.tasks lists every member exactly once": the comparison with the preorder of the snapshot does not see a
    # task that the snapshot itself lists twice (the same object twice in one children list), so the observed
    # enumeration is also required to be free of repetitions
    shown = {}
    for h in hists:
        pre = gc.EMPTY
        for ix, st in enumerate(h['steps']):
            for wi, l in enumerate((st.get('reads') or {}).get('tasks', [])):
                if len(set(l)) != len(l):
                    k = st['op'][0]
                    shown[k] = shown.get(k, 0) + 1
                    if shown[k] <= 2:
                        origin = ('corpus: ' + h['corpus']) if 'corpus' in h else 'generated history, seed %s' % h.get('seed')
                        ctx.failure('C05/%s/task-listed-twice' % k,
                                    'C05/%s/task-listed-twice: WBS.tasks of WBS %d lists a task more than once (%r) after %s (%s)'
                                    % (k, wi, l, gc.describe_call(st), origin),
                                    {'kind': 'ops', 'items': gc.items_of(h, ix), 'origin': origin, 'call_index': ix, 'op': st['op'],
                                     'how': st['how'], 'pre': pre, 'observed': {'reads': st['reads'], 'post': st['post']}})
                    break
            else:
                pre = st['post']
                continue
            break          # the state is ill-formed from here on
    if shown:
        ctx.coverage.setdefault('distribution', {})['tasks_listed_twice_by_call_site'] = shown


def replay(ctx, rep):
    gc.replay_generic(ctx, SPEC, rep)
