"""C01 - hierarchy and dependency graph stay well-formed under any mutation history.
Search: the boolean conjuncts wf_fin_b, wf_pc_b, wf_acy_b, wf_sym_b, wf_dag_b, wf_sep_b (Graph/Invariant.v)
on the implementation's snapshot after every call, raising calls included.  Tie: step-wise, outcome class
and the four relations of every object with children / links compared as multisets."""
from harness.props import graph_common as gc

ID = 'C01'
PROPS_FILE = 'Props/Props_C01.v'
EXTRA_TARGETS = ['Graph/Check.vo']
CONST_PARTS = ('srcgraph',)

SPEC = gc.Spec(
    ID, 1,
    fail={10: 'dangling-reference', 11: 'parent-children-disagree', 12: 'hierarchy-cycle', 13: 'links-asymmetric-or-repeated',
          14: 'dependency-cycle', 15: 'link-between-ancestor-and-descendant'},
    mismatch={2: 'outcome-class', 3: 'relations'},
    notes='wf_fin_b, wf_pc_b, wf_acy_b, wf_sym_b, wf_dag_b, wf_sep_b on the snapshot after every call; model step from the actual '
          'pre-state: outcome class; parent, children, predecessors, successors of every object (lists as multisets)')


def run(ctx):
    gc.run_property(ctx, SPEC)


def replay(ctx, rep):
    gc.replay_generic(ctx, SPEC, rep)
