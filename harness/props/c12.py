"""C12 - critical_path returns exactly the zero-float leaves of the dependency network.

The harness generates acyclic WBSs (hierarchy, links on leaves and on summaries, equal parallel
branches, zero-length tasks, fractional estimates, tasks of another project), expands every case to
its leaf network on its own (from the description, exact Fractions of the decimal strings, never
asking the implementation), runs WBS.critical_path() on the implementation and emits everything to
Coq.  Crit/CritCheck.v re-derives the leaf network with the verified expansion, checks it against the
harness' one, runs the model of calc() (proved equal to "ef + tail - d = L", Props_C12.v) and
compares the returned set.  The model is the specification, so a difference is a concrete failing
input.  Purity (snapshot of every task before/after the call) is compared here in Python."""
import json
import math
from fractions import Fraction

from harness.common import z, coq_list, InfraError

ID = 'C12'
PROPS_FILE = 'Props/Props_C12.v'

HEADER = """From PJ Require Import Base.Prelude Crit.CritPath Crit.CritCheck.
Open Scope Z_scope.
Definition T (p : option nat) (ps : list nat) (i : bool) (e s : option Z) : wtask :=
  {| wparent := p; wpreds := ps; winside := i; west := e; wspent := s |}.
"""

WHAT = {
    1: 'critical_path returned a task that is not a zero-float leaf of the WBS',
    2: 'critical_path missed a zero-float leaf (a leaf on a longest chain is not returned)',
    3: 'critical_path returned a task twice',
    5: 'critical_path raised an exception on an acyclic WBS',
}
SIG = {1: 'C12/result-set/extra', 2: 'C12/result-set/missing', 3: 'C12/result-set/duplicate', 5: 'C12/raised'}


# ---------- the harness' own reading of a case ----------------------------------------------------
def T(id, parent=None, preds=(), est=None, spent=None, inside=True, milestone=False, link_style='assign'):
    return {'id': id, 'parent': parent, 'preds': list(preds), 'est': est, 'spent': spent, 'inside': inside,
            'milestone': milestone, 'link_style': link_style}


def fr(s):
    return Fraction(0) if s is None else Fraction(s)


def expand(case):
    """-> (leaves, eff): leaves = positions of the leaf tasks of the WBS, eff[l] = set of effective
    predecessors of leaf l.  Independent of the implementation and of the Coq expansion."""
    tasks = case['tasks']
    n = len(tasks)
    kids = {i: [] for i in range(n)}
    for i, t in enumerate(tasks):
        if t['parent'] is not None:
            kids[t['parent']].append(i)
    leaves = [i for i in range(n) if tasks[i]['inside'] and not kids[i]]

    def below(p):
        if not kids[p]:
            return [p] if tasks[p]['inside'] else []
        out = []
        for c in kids[p]:
            out += below(c)
        return out

    eff = {}
    for l in leaves:
        s = set()
        a = l
        while a is not None:
            for p in tasks[a]['preds']:
                s.update(below(p))
            a = tasks[a]['parent']
        eff[l] = s
    return leaves, eff


def topo(leaves, eff, rank=None):
    """A topological order of the leaves (Kahn, smallest rank/position first); None if cyclic."""
    if rank:
        rank = {int(k): v for k, v in rank.items()}      # json turns the keys into strings
    key = (lambda l: rank[l]) if rank else (lambda l: l)
    left = set(leaves)
    order = []
    while left:
        ready = sorted([l for l in left if not (eff[l] & left)], key=key)
        if not ready:
            return None
        order.append(ready[0])
        left.discard(ready[0])
    return order


def durations(case, leaves):
    tasks = case['tasks']
    vals = []
    for t in tasks:
        vals += [fr(t['est']), fr(t['spent'])]
    k = 1
    for v in vals:
        k = k * v.denominator // math.gcd(k, v.denominator)
    return k, {l: max(fr(tasks[l]['est']) - fr(tasks[l]['spent']), Fraction(0)) for l in leaves}


def reference(order, eff, dur, num=lambda x: x):
    """ef / tail / zero-float set in plain Python (used for generation and coverage only; the
    comparison is done in Coq).  num=float gives the naive float evaluation."""
    ef, tl = {}, {}
    for l in order:
        ef[l] = num(dur[l]) + max([ef[p] for p in eff[l]] + [0])
    succ = {l: [s for s in order if l in eff[s]] for l in order}
    for l in reversed(order):
        tl[l] = num(dur[l]) + max([tl[s] for s in succ[l]] + [0])
    L = max([ef[l] for l in order] + [0])
    crit = [l for l in order if ef[l] + tl[l] - num(dur[l]) == L]
    return ef, tl, L, crit, succ


def analyse(case):
    leaves, eff = expand(case)
    order = topo(leaves, eff, case.get('rank'))
    if order is None:
        raise InfraError('generated case is cyclic: %s' % json.dumps(case))
    k, dur = durations(case, leaves)
    return leaves, eff, order, k, dur


# ---------- generation ----------------------------------------------------------------------------
DEC1 = ['0.1', '0.2', '0.3', '0.7', '0.4', '0.6', '1.1', '0.9', '1.3', '2.2']
DEC23 = ['0.15', '0.35', '0.05', '1.25', '0.125', '0.375', '2.675', '1.005', '0.07', '0.001', '0.299']
INTS = ['1', '2', '3', '4', '5', '8', '8', '16', '13']


def dec(f):
    """Fraction with a power-of-ten denominator -> decimal string"""
    f = Fraction(f)
    for d in range(0, 16):
        if (f * 10 ** d).denominator == 1:
            n = int(f * 10 ** d)
            if d == 0:
                return str(n)
            s = str(abs(n)).rjust(d + 1, '0')
            return ('-' if n < 0 else '') + s[:-d] + '.' + s[-d:]
    raise ValueError(f)


def gen_amount(rng, style):
    r = rng.random()
    if r < 0.08:
        return '0'
    if style == 'int':
        return rng.choice(INTS)
    if style == 'dec1':
        return rng.choice(DEC1)
    if style == 'dec':
        return rng.choice(DEC1 + DEC23)
    return rng.choice(INTS + DEC1 + DEC1 + DEC23)


def gen_case(rng):
    n = rng.randint(2, 14)
    style = rng.choice(['int', 'dec1', 'dec1', 'dec', 'mix'])
    flat = rng.random() < 0.2
    tasks = []
    depth = []
    ids = rng.sample(range(1, 40), n + 3)
    for i in range(n):
        parent = None
        if i > 0 and not flat and rng.random() < 0.6:
            cands = [j for j in range(i) if depth[j] < 3]
            if cands:
                parent = rng.choice(cands)
        depth.append(0 if parent is None else depth[parent] + 1)
        tasks.append(T(ids[i], parent))
    # tasks of another project
    n_out = rng.choice([0, 0, 0, 0, 1, 1, 2])
    for j in range(n_out):
        parent = None
        if j == 1 and rng.random() < 0.4:
            parent = n          # an outside summary with an outside child
        oid = ids[n + j] if rng.random() < 0.85 else tasks[rng.randrange(n)]['id']   # may clash with a member's id
        if any(t['id'] == oid for t in tasks[n:]):
            oid = ids[n + j]
        tasks.append(T(oid, parent, inside=False, est=gen_amount(rng, style)))
    case = {'tasks': tasks}
    leaves, _ = expand(case)
    perm = list(leaves)
    rng.shuffle(perm)
    if rng.random() < 0.5:
        # ranking that keeps the leaves of a summary together (branches in a random order): many
        # summary -> summary links become possible
        kids0 = {i: [j for j in range(n) if tasks[j]['parent'] == i] for i in range(n)}

        def walk(i):
            if not kids0[i]:
                return [i]
            cs = list(kids0[i])
            rng.shuffle(cs)
            return [x for c in cs for x in walk(c)]

        roots = [i for i in range(n) if tasks[i]['parent'] is None]
        rng.shuffle(roots)
        perm = [x for r in roots for x in walk(r)]
    rank = {l: r for r, l in enumerate(perm)}
    case['rank'] = {str(l): r for l, r in rank.items()}   # json keys are strings
    kids = {i: [] for i in range(len(tasks))}
    for i, t in enumerate(tasks):
        if t['parent'] is not None:
            kids[t['parent']].append(i)

    def below(p):
        if not kids[p]:
            return [p]
        return [x for c in kids[p] for x in below(c)]

    def ancestors(i):
        out = []
        a = tasks[i]['parent']
        while a is not None:
            out.append(a)
            a = tasks[a]['parent']
        return out

    span = {i: (min(rank[l] for l in below(i)), max(rank[l] for l in below(i))) for i in range(n)}
    want = rng.choice([0, 1, 2, n // 2, n, n, 2 * n])
    summaries = [i for i in range(n) if kids[i]]
    for _ in range(want * 3):
        if want <= 0:
            break
        a = rng.randrange(n)
        b = rng.randrange(n)
        if summaries and rng.random() < 0.35:
            a = rng.choice(summaries)
        if a == b or a in ancestors(b) or b in ancestors(a):
            continue
        if span[a][1] < span[b][0]:
            p, s = a, b
        elif span[b][1] < span[a][0]:
            p, s = b, a
        else:
            continue
        if p not in tasks[s]['preds']:
            tasks[s]['preds'].append(p)
            want -= 1
    for j in range(n_out):
        o = n + j
        for _ in range(rng.randint(1, 2)):
            s = rng.randrange(n)
            if o not in tasks[s]['preds']:
                tasks[s]['preds'].insert(rng.randint(0, len(tasks[s]['preds'])), o)
    # amounts
    for i in range(n):
        t = tasks[i]
        if kids[i] and rng.random() < 0.7:
            continue                      # summaries usually carry no estimate (it would be ignored anyway)
        r = rng.random()
        if r < 0.08:
            t['est'] = None
        else:
            t['est'] = gen_amount(rng, style)
        r = rng.random()
        if r < 0.12 and t['est'] is not None:
            t['spent'] = dec(Fraction(t['est']) * rng.choice([Fraction(1, 2), Fraction(1), Fraction(1, 10)]))
        elif r < 0.18:
            t['spent'] = gen_amount(rng, style)      # may exceed the estimate
        if not kids[i] and rng.random() < 0.08:
            t['milestone'] = True
        if rng.random() < 0.25:
            t['link_style'] = 'append'
    # equal parallel branches: lift a leaf with float onto the critical path
    for _ in range(rng.choice([0, 0, 1, 1, 2])):
        leaves, eff, order, k, dur = analyse(case)
        ef, tl, L, crit, succ = reference(order, eff, dur)
        loose = [l for l in order if l not in crit]
        if not loose:
            break
        l = rng.choice(loose)
        slack = L - (ef[l] + tl[l] - dur[l])
        base = max(fr(tasks[l]['est']), fr(tasks[l]['spent']))
        try:
            tasks[l]['est'] = dec(base + slack)
        except ValueError:
            break
    # near ties: a branch that is longer or shorter by next to nothing (a tolerance instead of the exact
    # comparison shows here)
    if rng.random() < 0.25:
        leaves, _ = expand(case)
        l = rng.choice(leaves)
        eps = rng.choice(['0.0000001', '0.000000001', '0.000000000001'])
        tasks[l]['est'] = dec(fr(tasks[l]['est']) + Fraction(eps))
    return case


def W(*tasks):
    return {'tasks': list(tasks)}


CORPUS = [
    # F17: slack compared with == 0 on floats.  0.1 -> 0.2 beside 0.3: returned []
    W(T(1, est='0.1'), T(2, est='0.2', preds=[0]), T(3, est='0.3')),
    # F17: single chain 0.1 -> 0.2 -> 0.7: returned only task 3
    W(T(1, est='0.1'), T(2, est='0.2', preds=[0]), T(3, est='0.7', preds=[1])),
    # F18: a summary task as predecessor: KeyError
    W(T(1), T(2, parent=0, est='1'), T(3, est='1', preds=[0])),
    # F18: predecessors declared on a summary were ignored (chain 1 -> 3 of length 6 beats 5.5)
    W(T(1, est='5'), T(2, preds=[0]), T(3, parent=1, est='1'), T(4, est='5.5')),
    # F18: a task of another project ended up in the result
    W(T(1, est='5', preds=[1]), T(99, est='10', inside=False)),
    # summary -> summary, both sides expanded, with an equal parallel branch and a zero-length leaf
    W(T(10), T(11, parent=0, est='0.1'), T(12, parent=0, est='0.2', preds=[1]), T(20, preds=[0]),
      T(21, parent=3, est='0.7'), T(30, est='1', preds=[7]), T(22, parent=3, est='0'),
      T(77, est='100', inside=False)),
    # the four baseline tests
    W(T(1, est='8'), T(2, est='8')),
    W(T(1, est='8'), T(2, est='16')),
    W(T(1, est='8'), T(2, est='16', preds=[0])),
    W(T(1, est='8'), T(2, est='16'), T(3, est='16', preds=[0])),
    # boundaries: empty WBS, one task, nothing estimated, spent > estimate, all zero
    W(),
    W(T(5, est='3')),
    W(T(1), T(2), T(3, preds=[0])),
    W(T(1, est='2', spent='5'), T(2, est='1', preds=[0]), T(3, est='0.5', spent='0.5')),
    W(T(1, est='0'), T(2, est='0', preds=[0]), T(3, est='0')),
    # nested summaries: link declared two levels above the leaf, predecessor is a nested summary
    W(T(1), T(2, parent=0), T(3, parent=1, est='0.3'), T(4, parent=1, est='0.1'),
      T(5, preds=[1]), T(6, parent=4), T(7, parent=5, est='0.6', preds=[8]), T(8, est='0.9'), T(9, parent=5, est='0.2')),
    # 1.1 + 2.2 != 3.3 in floats
    W(T(1, est='1.1'), T(2, est='2.2', preds=[0]), T(3, est='3.3')),
    # near ties: the single task is longer by 1e-7 / the chain is longer by 1e-12 - no tolerance applies
    W(T(1, est='0.1'), T(2, est='0.2', preds=[0]), T(3, est='0.3000001')),
    W(T(1, est='0.1'), T(2, est='0.200000000001', preds=[0]), T(3, est='0.3')),
    # links added with predecessors.append
    W(T(1, est='0.7'), T(2, est='0.1', preds=[0], link_style='append'), T(3, est='0.8', milestone=True)),
]


# ---------- emission ------------------------------------------------------------------------------
def nat_list(xs):
    xs = list(xs)
    return '[]' if not xs else '[' + '; '.join(str(int(x)) for x in xs) + ']%nat'


def zopt_scaled(s, k):
    if s is None:
        return 'None'
    v = Fraction(s) * k
    assert v.denominator == 1
    return '(Some %s)' % z(int(v))


def emit_case(case, obs):
    tasks = case['tasks']
    leaves, eff, order, k, dur = analyse(case)
    posn = {l: i for i, l in enumerate(order)}
    wb = coq_list(['T %s %s %s %s %s' % (
        'None' if t['parent'] is None else '(Some %d%%nat)' % t['parent'],
        nat_list(t['preds']), 'true' if t['inside'] else 'false',
        zopt_scaled(t['est'], k), zopt_scaled(t['spent'], k)) for t in tasks])
    hdag = coq_list(['(%s, %s)' % (z(int(dur[l] * k)), nat_list(sorted(posn[p] for p in eff[l]))) for l in order])
    if obs['call'][0] == 'ok':
        code = 0
        returned = [p if p >= 0 else 999999 for p in obs['call'][1]]
    else:
        code = obs['call'][1]
        returned = []
    return '(%s, %s, %s, %d%%nat, %s)' % (wb, nat_list(order), hdag, code, nat_list(returned))


def features(case):
    leaves, eff, order, k, dur = analyse(case)
    ef, tl, L, crit, succ = reference(order, eff, dur)
    _, _, _, fcrit, _ = reference(order, eff, dur, float)
    tasks = case['tasks']
    kids = set(t['parent'] for t in tasks if t['parent'] is not None)
    return {
        'leaves': len(leaves),
        'links': sum(len(eff[l]) for l in leaves),
        'summary_link': any((i in kids and t['preds']) or any(p in kids for p in t['preds'])
                            for i, t in enumerate(tasks) if t['inside']),
        'outside_pred': any(not tasks[p]['inside'] for t in tasks for p in t['preds']),
        'parallel_critical': len([l for l in crit if not (eff[l] & set(crit))]) >= 2,
        'float_sensitive': sorted(fcrit) != sorted(crit),
        'zero_length': any(dur[l] == 0 for l in leaves),
        'fractional': k > 1,
        'spent_over': any(fr(tasks[l]['spent']) > fr(tasks[l]['est']) for l in leaves),
        'missing': any(tasks[l]['est'] is None for l in leaves),
        'non_critical_leaf': len(crit) < len(leaves),
        'near_tie': any(0 < L - (ef[l] + tl[l] - dur[l]) < Fraction(1, 10 ** 6) for l in order),
        'crit': crit, 'order': order,
    }


def evaluate(ctx, cases):
    chunks = [cases[i:i + 150] for i in range(0, len(cases), 150)]
    obs = [o for part in ctx.impl_run_many('c12_impl', chunks) for o in part]
    bad = [(c, o) for c, o in zip(cases, obs) if o['build'] != 0]
    if bad:
        raise InfraError('the library refused to build %d generated WBS(s), first: %s / %s'
                         % (len(bad), bad[0][1].get('build_exc'), json.dumps(bad[0][0])))
    terms = [emit_case(c, o) for c, o in zip(cases, obs)]
    codes = ctx.coq_codes('cases', HEADER, 'case', terms, 'check_case', shard=120)
    return obs, codes


def judge(ctx, case, obs, code, from_corpus=False):
    info = {'case': case, 'observed': {'call': obs.get('call'), 'ids': obs.get('ids')}, 'from_corpus': from_corpus}
    if code in (7, 8, 9):
        raise InfraError('case rejected by the Coq checker with code %d (7 order, 8 not topological, 9 the '
                         'harness expansion differs from the verified expansion): %s' % (code, json.dumps(case)))
    if code in (1, 2, 3, 5):
        feats = features(case)
        info['expected_positions'] = sorted(feats['crit'])
        info['expected_ids'] = sorted(str(case['tasks'][l]['id']) for l in feats['crit'])
        if ctx.proof.get('ok'):
            ctx.failure(SIG[code], WHAT[code], info)
        else:
            # the theorems did not build: the model is not a proved specification in this run, a
            # difference is only a disagreement
            ctx.mismatch(WHAT[code] + ' (model unproved in this run)', info)
    elif code != 0:
        raise InfraError('unknown code %d from check_case' % code)
    if obs['before'] != obs['after']:
        diff = [i for i, (a, b) in enumerate(zip(obs['before']['tasks'], obs['after']['tasks'])) if a != b]
        info = dict(info, changed_tasks=diff, before=obs['before'], after=obs['after'])
        ctx.failure('C12/purity', 'critical_path modified the WBS (snapshot before/after the call differs)', info)


def run(ctx):
    n = 500 if ctx.tier == 'quick' else 30000
    cases = [dict(c) for c in CORPUS] + [gen_case(ctx.rng) for _ in range(n)]
    obs, codes = evaluate(ctx, cases)
    dist = {k: 0 for k in ('summary_link', 'outside_pred', 'parallel_critical', 'float_sensitive', 'zero_length',
                           'fractional', 'spent_over', 'missing', 'non_critical_leaf', 'near_tie')}
    sizes = {}
    distinct = set()
    for i, (c, o, code) in enumerate(zip(cases, obs, codes)):
        judge(ctx, c, o, code, from_corpus=i < len(CORPUS))
        f = features(c)
        for k in dist:
            dist[k] += 1 if f[k] else 0
        sizes[f['leaves']] = sizes.get(f['leaves'], 0) + 1
        if f['leaves'] >= 2 and f['links'] >= 1:
            distinct.add(json.dumps([c['tasks']], sort_keys=True))
    dist['leaves_histogram'] = {str(k): sizes[k] for k in sorted(sizes)}
    dist['returned_ok'] = sum(1 for o in obs if o['call'][0] == 'ok')
    dist['raised'] = sum(1 for o in obs if o['call'][0] != 'ok')
    sample = lambda i: {'case': cases[i], 'returned_positions': obs[i]['call'], 'expected_positions': sorted(features(cases[i])['crit'])}
    ctx.coverage.update(
        evaluations=len(cases),
        distinct_nontrivial=len(distinct),
        rule='random acyclic WBSs: 2-14 tasks in a hierarchy of depth <= 4 (plus 0-2 tasks of another project), links '
             'between leaves and summaries chosen so that every expanded edge respects a random ranking of the leaves, '
             'amounts from ints / 1-3 decimal fractions (0.1 0.2 0.3 0.7 ...), zero, missing, spent below/at/over the '
             'estimate, milestone flags, 0-2 leaves lifted onto the critical path to create equal parallel branches, in a quarter '
             'of the cases one leaf longer by 1e-7 .. 1e-12 (near ties); '
             'distinct = distinct WBS descriptions with >= 2 leaves and >= 1 expanded dependency',
        samples=[sample(0), sample(len(CORPUS)), sample(len(cases) - 1)],
        distribution=dist,
        traces_validated_against_impl=len(cases),
        comparison='set of returned tasks (by object identity) = zero-float leaves of the verified model, computed in Coq on '
                   'exact integers (decimal amounts scaled by their common denominator); the leaf network expanded by the '
                   'harness is checked against the verified expansion in the same Coq run; purity by full snapshot',
    )
    ctx.assumptions += [
        'acyclicity of the WBS is the property\'s precondition: cases are generated acyclic, cyclic WBSs are not examined',
        'amounts are decimal numbers with at most 12 decimals written as Python literals; the repaired code reads a float as '
        'its shortest repr (Fraction(repr(x))), the harness reads the same decimal string',
        'the end_date branch of CriticalPathCalculator (clusters of tasks ending at a date) is not part of C12',
    ]


def replay(ctx, rep):
    case = rep['case']['case']
    obs, codes = evaluate(ctx, [case])
    print('replay: case %s' % json.dumps(case))
    print('replay: implementation observed %s ids %s' % (json.dumps(obs[0].get('call')), json.dumps(obs[0].get('ids'))))
    print('replay: expected zero-float leaves (positions) %s' % sorted(features(case)['crit']))
    print('replay: model verdict code %d (%s)' % (codes[0], WHAT.get(codes[0], 'agrees')))
    judge(ctx, case, obs[0], codes[0])
    ctx.coverage.update(evaluations=1, distinct_nontrivial=1, rule='replay of one case', samples=[case])
