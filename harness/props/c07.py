"""C07 - start <= end, roll-ups of summary tasks, WBS.start / WBS.end.  Theorems: Props_C07.v (the per-task
statement is an invariant of both scheduler models; tree induction for WBS.start/end; reflection of the
oracles c07_task_b / c07_order_b / c07_b; the model's own output passes them).  Tie: the verified oracle
c07_b evaluated on the dates, estimates and spent values of every task of the schedule the implementation
returns and on the WBS.start / WBS.end of that result (bit c07); the model's dates are compared exactly
with the implementation's on the dyadic grid (bit dates) and the model's output is re-checked against the
oracle in every case (bit model_oracle)."""
from harness import common
from harness.props import sched_common as sc

ID = 'C07'
PROPS_FILE = 'Props/Props_C07.v'
EXTRA_TARGETS = ['Sched/Case.vo']
CONST_PARTS = ('sched', 'srcpass')
FAIL = sc.BITS['c07']
# C07's theorems speak about dates, estimates and spent values, not about usage rows
MISMATCH = sc.BITS['model_oracle'] | sc.BITS['dates']


def extra(ctx, case, out, code, desc):
    """Hypotheses of the theorems that the harness can see on the abstract input it emitted:
    exts_last (tasks outside the WBS are numbered after all members: o_get indexes the observed
    tasks by position) and the shape of the observation (one entry per member).  WFin is evaluated
    in Coq on every case (bit illformed)."""
    w = out.get('w') or []
    seen_ext = False
    for i, k in enumerate(w):
        if k['ext']:
            seen_ext = True
        elif seen_ext:
            raise common.InfraError('C07: member task %d is numbered after a task outside the WBS '
                                    '(hypothesis exts_last of the C07 theorems violated by the harness)' % i)
    obs = out.get('obs')
    if obs and out.get('outcome') == 0:
        members = sum(1 for k in w if not k['ext'])
        if len(obs['tasks']) != members:
            raise common.InfraError('C07: %d observed tasks for %d members' % (len(obs['tasks']), members))


def run(ctx):
    kept, codes = sc.run_property(ctx, ID, FAIL, MISMATCH, extra=extra)
    # measured on this run: how often the clauses of C07 had something to say
    n_summary = n_user_summary = n_returned = n_user_dates = 0
    for (case, out), code in zip(kept, codes):
        if code & sc.BITS['illformed'] or out.get('outcome') != 0:
            continue
        n_returned += 1
        ws = [k for k in out['w'] if not k['ext']]
        if any(k['children'] and not k['milestone'] for k in ws):
            n_summary += 1
        if any(k['children'] and any(k[f] is not None for f in ('start', 'end', 'est', 'spent')) for k in ws):
            n_user_summary += 1
        if any(not k['children'] and (k['start'] is not None or k['end'] is not None) for k in ws):
            n_user_dates += 1
    dist = ctx.coverage.get('distribution') if hasattr(ctx.coverage, 'get') else None
    if isinstance(dist, dict):
        dist['c07'] = {'returned': n_returned, 'with_summary': n_summary,
                       'summary_with_user_values': n_user_summary, 'leaf_with_user_dates': n_user_dates}
    ctx.assumptions += [
        'C07: the observation lists the members in WBS order, tasks outside the WBS are numbered after them '
        '(checked on every case); WBS.start/WBS.end are read from the returned Schedule\'s WBS',
    ]


def replay(ctx, rep):
    sc.replay_generic(ctx, rep, FAIL, MISMATCH, ID)
