"""C08 - forward schedules are tight and their dates encode the used capacity.  Theorems: Props_C08.v
(the forward model fills every day from the release day to the last work day, the dates are the
booked shares of the first / last work day, unlinked leaves are served in WBS order, with balancing
off removing an unrelated set of tasks (isolated leaf, linked cluster, whole subtree) changes nobody else's dates, the oracle c08_b means the statement and
the model's own output passes it).  The independence clause is also run on the implementation itself
(pairs of WBSs with / without an extra unrelated group of tasks).  Tie: the verified oracle c08_b evaluated on
the schedule the implementation returns; C08 is also the property that ties the exact dates and the
order of the usage rows to the deterministic model, so a disagreement on dates or rows is a broken tie
of this property.  The numbering convention the order theorem assumes (c08_pre_code: members first,
numbered in the order of the walk through the hierarchy) is evaluated on the abstract input of every
case."""
import copy

from harness.props import sched_common as sc
from harness.common import coq_list

ID = 'C08'
PROPS_FILE = 'Props/Props_C08.v'
EXTRA_TARGETS = ['Sched/Case.vo', 'Sched/C08Check.vo']
CONST_PARTS = ('sched', 'srcfill', 'srcpass')
FAIL = sc.BITS['c08']
MISMATCH = sc.BITS['model_oracle'] | sc.BITS['dates'] | sc.BITS['rows']

PRE_HEADER = """From PJ Require Import Base.Prelude Sched.Model Sched.C08Check.
Open Scope Z_scope.
"""


def check_numbering(ctx, kept, codes):
    """hypotheses c08_preorder / c08_members_first_b of the order theorem, on every well-formed case"""
    pairs = [(c, o) for (c, o), code in zip(kept, codes) if not code & sc.BITS['illformed']]
    terms = [coq_list([sc.emit_itask(k) for k in o['w']]) for _, o in pairs]
    pre = ctx.coq_codes('c08pre', PRE_HEADER, 'list itask', terms, 'c08_pre_code', shard=150)
    bad = 0
    for (case, out), p in zip(pairs, pre):
        if p:
            bad += 1
            ctx.mismatch('abstract input not numbered in WBS order (c08_pre_code = %d): the order theorem of C08 does not '
                         'cover this case' % p, {'case': case, 'abstract_input': out['w']})
    ctx.coverage['numbering_convention_checked'] = len(pairs)
    ctx.coverage['numbering_convention_violations'] = bad


def with_extra_task(rng, case):
    """(A, B, ids): B = the case with balancing off; A = B plus an UNRELATED group of tasks - nothing links it with
    anybody else - inserted at a random position and competing for existing resources: one top-level leaf, or two
    or three top-level leaves linked among themselves, or a summary with children (and a link inside it)"""
    b = copy.deepcopy(case)
    b['balance'] = False
    b['link_via_succ'] = False
    b['now2'] = None
    a = copy.deepcopy(b)
    n = len(a['tasks'])
    pos = rng.randint(0, n)
    names = [t['resource'] for t in a['tasks']] or ['a']
    mk = lambda parent: sc.T(9000 + len(block) * 100 + rng.randint(0, 99), parent, resource=rng.choice(names),
                             est=rng.choice([8, 16, 64, 100, 320]))
    block, links = [], []
    shape = rng.choice(['leaf', 'leaf', 'chain', 'chain', 'subtree', 'subtree'])
    if shape == 'leaf':
        block.append(mk(None))
    elif shape == 'chain':
        for _ in range(rng.randint(2, 3)):
            block.append(mk(None))
        for i in range(len(block) - 1):
            x, y = (i, i + 1) if rng.random() < 0.7 else (i + 1, i)
            links.append([['t', pos + x], ['t', pos + y]])
    else:
        block.append(mk(None))
        for _ in range(rng.randint(1, 3)):
            block.append(mk(pos))
        if len(block) > 2 and rng.random() < 0.6:
            links.append([['t', pos + 1], ['t', pos + 2]])
        if rng.random() < 0.4:
            block.append(mk(pos + 1))               # a third level
    for t in a['tasks']:
        if t['parent'] is not None and t['parent'] >= pos:
            t['parent'] += len(block)
    a['tasks'][pos:pos] = block
    a['links'] = [[[k, i + len(block) if k == 't' and i >= pos else i] for k, i in l] for l in a['links']] + links
    return a, b, [t['id'] for t in block]


def dates_by_id(out):
    return {k['id']: tuple(t) for k, t in zip([k for k in out['w'] if not k['ext']], out['obs']['tasks'])}


def check_independence(ctx, kept, codes):
    """the independence clause on the implementation itself: balancing off, the same WBS with and without an
    isolated extra task - every other task keeps start, end, estimate and spent (theorem C08_indep for the model)"""
    pool = [c for (c, o), code in zip(kept, codes) if o.get('outcome') == 0 and not code & sc.BITS['illformed']]
    ctx.rng.shuffle(pool)
    pool = pool[:60 if ctx.tier == 'quick' else 800]
    trip = [with_extra_task(ctx.rng, c) for c in pool]
    flat = [x for a, b, _ in trip for x in (a, b)]
    chunks = [flat[i:i + 24] for i in range(0, len(flat), 24)]
    outs = [o for part in ctx.impl_run_many('sched_impl', chunks, jobs=12) for o in part]
    compared = tasks_compared = 0
    for k, (a, b, xid) in enumerate(trip):
        oa, ob = outs[2 * k], outs[2 * k + 1]
        if 'offgrid' in oa or 'offgrid' in ob or oa.get('outcome') != 0 or ob.get('outcome') != 0:
            continue
        da, db = dates_by_id(oa), dates_by_id(ob)
        compared += 1
        tasks_compared += len(db)
        diff = [i for i in db if da.get(i) != db[i]]
        if diff or set(da) != set(db) | set(xid):
            ctx.failure('C08/fwd/independence',
                        'balancing off: removing an unrelated group of tasks %r changed the dates of tasks %r' % (xid, diff),
                        {'case': a, 'without_task_ids': xid, 'with': da, 'without': db})
    ctx.coverage['independence_pairs_compared'] = compared
    ctx.coverage['independence_tasks_compared'] = tasks_compared


def run(ctx):
    kept, codes = sc.run_property(ctx, ID, FAIL, MISMATCH, dirs=('fwd',))
    check_numbering(ctx, kept, codes)
    check_independence(ctx, kept, codes)
    ctx.assumptions += [
        'C08: the clock is frozen during one calc (the runner replaces datetime.now); the theorems about the encoding of '
        'the dates hold in the model for every clock, the oracle checks them only when clock <= project start',
        'C08: the independence clause (balancing off) is a theorem about the model for the removal of any unrelated set of '
        'tasks (closed under hierarchy and links; C08_indep_set, C08_indep for one isolated task); on the implementation it is '
        'tested directly (the same WBS with and without an extra unrelated leaf / linked chain / subtree, '
        'independence_pairs_compared) and through the exact comparison with the model',
    ]


def replay(ctx, rep):
    sc.replay_generic(ctx, rep, FAIL, MISMATCH, ID)
