"""C08 - forward schedules are tight and their dates encode the used capacity.  Theorems: Props_C08.v
(the forward model fills every day from the release day to the last work day, the dates are the
booked shares of the first / last work day, unlinked leaves are served in WBS order, the oracle c08_b
means the statement and the model's own output passes it).  Tie: the verified oracle c08_b evaluated on
the schedule the implementation returns; C08 is also the property that ties the exact dates and the
order of the usage rows to the deterministic model, so a disagreement on dates or rows is a broken tie
of this property.  The numbering convention the order theorem assumes (c08_pre_code: members first,
numbered in the order of the walk through the hierarchy) is evaluated on the abstract input of every
case."""
from harness.props import sched_common as sc
from harness.common import coq_list

ID = 'C08'
PROPS_FILE = 'Props/Props_C08.v'
EXTRA_TARGETS = ['Sched/Case.vo', 'Sched/C08Check.vo']
CONST_PARTS = ('sched',)
FAIL = sc.BITS['c08']
MISMATCH = sc.BITS['model_oracle'] | sc.BITS['dates'] | sc.BITS['rows']

PRE_HEADER = """From PJ Require Import Base.Prelude Sched.Model Sched.C08Check.
Open Scope Z_scope.
"""


def check_numbering(ctx, kept, codes):
    """hypotheses c08_preorder / c08_members_first_b of the order theorem, on every well-formed case"""
    pairs = [(c, o) for (c, o), code in zip(kept, codes) if not code & sc.BITS['illformed']]
    terms = [coq_list([sc.emit_itask(k) for k in o['w']]) for _, o in pairs]
    pre = ctx.coq_codes('c08pre', PRE_HEADER, 'list itask', terms, 'c08_pre_code', shard=150)
    bad = 0
    for (case, out), p in zip(pairs, pre):
        if p:
            bad += 1
            ctx.mismatch('abstract input not numbered in WBS order (c08_pre_code = %d): the order theorem of C08 does not '
                         'cover this case' % p, {'case': case, 'abstract_input': out['w']})
    ctx.coverage['numbering_convention_checked'] = len(pairs)
    ctx.coverage['numbering_convention_violations'] = bad


def run(ctx):
    kept, codes = sc.run_property(ctx, ID, FAIL, MISMATCH, dirs=('fwd',))
    check_numbering(ctx, kept, codes)
    ctx.assumptions += [
        'C08: the clock is frozen during one calc (the runner replaces datetime.now); the theorems about the encoding of '
        'the dates hold in the model for every clock, the oracle checks them only when clock <= project start',
        'C08: the independence clause (balancing off, removing an unrelated task) is proved only as a step lemma '
        '(C08_indep_partial); it is covered by the exact comparison of dates with the deterministic model',
    ]


def replay(ctx, rep):
    sc.replay_generic(ctx, rep, FAIL, MISMATCH, ID)
