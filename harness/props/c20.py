"""C20 - printed sheets.  The Gallina model of utils.TextTable / task._Repr / ResourceUsageReport.__repr__
(Text/Sheet.v) is evaluated on a snapshot of the task graph taken through the public getters and
compared, inside Coq, with the exact text (colour codes included) the implementation printed; the
boolean oracles of the property (one line per shown task, equal visible width, three spaces per
level, one line per day) are evaluated on the implementation's text.  The model is the functional
specification (Props_C20.v proves it equal to the declarative statement), so a difference on an
input is a concrete failing input."""
import json
import sys

from harness import common
from harness.common import z, coq_list, coq_bool, InfraError

ID = 'C20'
PROPS_FILE = 'Props/Props_C20.v'
DAY = 86400_000_000
BASE = 19723 * DAY          # 2024-01-01

HEADER = """From Coq Require Import NArith Uint63.
From PJ Require Import Base.Prelude Text.Sheet Text.SheetCheck.
Open Scope Z_scope.
"""


def codepoints(s):
    """a text as list of code points; long texts packed three code points per primitive integer"""
    if len(s) <= 6:
        return '[' + '; '.join(str(ord(c)) for c in s) + ']%N'
    cps = [ord(c) for c in s]
    while len(cps) % 3:
        cps.append(0x1FFFFF)
    return '(unpack [' + '; '.join(str((cps[i] << 42) | (cps[i + 1] << 21) | cps[i + 2]) for i in range(0, len(cps), 3)) + ']%uint63)'


KNOWN_FIELDS = ['id', 'name', 'resource', 'estimate', 'spent', 'start', 'end', 'predecessors', 'successors',
                'parent', 'milestone', 'min_start']
ODD_FIELDS = ['NAME', 'Name', 'ID', 'Id', 'ESTIMATE', 'Spent', 'Start', 'END', 'PREDECESSORS', 'Parent', 'Successors',
              'zzz', 'wbs', 'children', 'all_children', '', ' ', 'x y', '日本', 'a' * 40, 'RESOURCE', 'Milestone',
              'print_color', 'PRINT_COLOR']
CUSTOM_ATTRS = ['custom', 'Owner', 'prio', 'note', 'print_color', 'TAG']
COLORS = ['91m', '92m', '1m', '1;31m', '38;5;208m', '0m', '7;96m', '4;33;44m']


# ---------- case mapping: only names on which Python's upper/lower are the ASCII ones ------------
def ascii_upper(s):
    return ''.join(chr(ord(c) - 32) if 'a' <= c <= 'z' else c for c in s)


def ascii_lower(s):
    return ''.join(chr(ord(c) + 32) if 'A' <= c <= 'Z' else c for c in s)


def ascii_cased(s):
    return s.upper() == ascii_upper(s) and s.lower() == ascii_lower(s)


# ---------- generator -----------------------------------------------------------------------------
WORDS = ['Design', 'API', 'review', 'Frontend', 'release', 'QA', 'ops', 'plan', 'x', 'Sprint 12', 'migration', 'docs']
ODD_TEXT = ['', ' ', '  lead', 'trail  ', '(external)', '7(external)', '[1,2]', 'a|b', '-', '日本語のタスク',
            'café', '\U0001f680 launch', 'é', 'ß', 'tab\there', 'NAME', '\\033[91m', 'm', '[0m', '‮', '%d', '{0}']


def gen_text(rng, allow_none=True):
    r = rng.random()
    if allow_none and r < 0.12:
        return None
    if r < 0.45:
        return rng.choice(WORDS)
    if r < 0.6:
        return ' '.join(rng.choice(WORDS) for _ in range(rng.randint(2, 5)))
    if r < 0.8:
        return rng.choice(ODD_TEXT)
    if r < 0.9:
        return rng.choice(WORDS) * rng.randint(8, 30)
    return ''.join(rng.choice('abc XYZ-_/.,:;é中Ж') for _ in range(rng.randint(1, 60)))


def w_text(s):
    return ['none'] if s is None else ['s', s]


def gen_date(rng):
    r = rng.random()
    if r < 0.7:
        return BASE + rng.randint(-400, 400) * DAY + rng.choice([0, 0, 9 * 3600, 23 * 3600 + 59 * 60 + 59, 12 * 3600 + 30 * 60]) * 1000_000
    if r < 0.8:
        return BASE + rng.randint(-400, 400) * DAY + rng.randint(0, DAY - 1)
    # far dates: years 1000 .. 9999
    return rng.randint(-354285, 2932896 - 1) * DAY + rng.randint(0, DAY - 1)


def gen_num(rng):
    r = rng.random()
    if r < 0.35:
        return ['none']
    if r < 0.7:
        return ['i', rng.choice([0, 1, 2, 3, 5, 8, 13, 40, 100, 12345678901234567890])]
    return ['f', rng.choice([0.5, 1.5, 0.1, 2.25, 1e20, 0.0, 3.0, 1e-7, 123456.789]).hex()]


def gen_value(rng):
    r = rng.random()
    if r < 0.15:
        return ['none']
    if r < 0.5:
        return w_text(gen_text(rng, allow_none=False))
    if r < 0.62:
        return ['i', rng.choice([0, -1, 7, 10 ** 12, -10 ** 20])]
    if r < 0.7:
        return ['b', rng.random() < 0.5]
    if r < 0.8:
        return ['d', gen_date(rng)]
    if r < 0.9:
        return ['f', rng.choice([0.5, -2.5, 1e16, 1e-5, float('inf')]).hex()]
    return ['o', gen_text(rng, allow_none=False)]


def gen_id(rng, used):
    while True:
        r = rng.random()
        if r < 0.8:
            v = ['i', rng.randint(1, 60)]
        elif r < 0.86:
            v = ['i', rng.choice([0, -3, 10 ** 15, 123456789])]
        else:
            v = ['s', rng.choice(['T-1', 'a', 'b', 'epic/1', 'Ж-7', '12', 'x' * 25, ''])]
        key = json.dumps(v)
        if key not in used:
            used.add(key)
            return v


def gen_task(rng, k, used, parent=None, wbs=None, force_id=None):
    kw = {}
    if rng.random() < 0.5:
        kw['resource'] = w_text(gen_text(rng))
    if rng.random() < 0.4:
        kw['start'] = ['d', gen_date(rng)]
    if rng.random() < 0.3:
        kw['end'] = ['d', gen_date(rng)]
    if rng.random() < 0.15:
        kw['milestone'] = ['b', True]
    if rng.random() < 0.1:
        kw['min_start'] = ['d', gen_date(rng)]
    attrs = {}
    for a in CUSTOM_ATTRS:
        if rng.random() < 0.18:
            if a == 'print_color':
                attrs[a] = rng.choice([['none'], ['s', ''], ['s', '35m'], ['s', '1;31m'], ['s', '95m']])
            else:
                attrs[a] = gen_value(rng)
    return {'k': k, 'id': force_id or gen_id(rng, used), 'name': w_text(gen_text(rng)), 'estimate': gen_num(rng),
            'spent': gen_num(rng), 'kw': kw, 'attrs': attrs, 'parent': parent, 'wbs': wbs}


def gen_tree(rng, tasks, used, depth, parent=None, wbs=None, budget=None):
    k = len(tasks)
    tasks.append(gen_task(rng, k, used, parent, wbs))
    budget[0] -= 1
    if depth > 0:
        for _ in range(rng.choice([0, 0, 1, 2, 2, 3])):
            if budget[0] <= 0:
                break
            gen_tree(rng, tasks, used, depth - 1, parent=k, budget=budget)


def gen_fields(rng, tasks):
    r = rng.random()
    if r < 0.18:
        return None
    if r < 0.2:
        return []
    pool = list(KNOWN_FIELDS) * 2 + ODD_FIELDS + CUSTOM_ATTRS + [a.upper() for a in CUSTOM_ATTRS] + [a.lower() for a in CUSTOM_ATTRS]
    n = rng.choice([1, 1, 2, 3, 4, 5, 6, 8, 12])
    fs = [rng.choice(pool) for _ in range(n)]
    if rng.random() < 0.6 and 'name' not in fs:
        fs.insert(rng.randint(0, len(fs)), 'name')
    return [f for f in fs if ascii_cased(f)] or ['id']


def gen_color(rng):
    r = rng.random()
    if r < 0.1:
        return None
    if r < 0.17:
        return ''
    return rng.choice(COLORS)


def gen_theme(rng):
    r = rng.random()
    if r < 0.35:
        return None
    th = {}
    if r < 0.43:
        return th
    if r < 0.55 or r >= 0.7:
        th['header_color'] = gen_color(rng)
    if r >= 0.55:
        th['level_colors'] = [gen_color(rng) for _ in range(rng.choice([0, 1, 1, 2, 3, 5, 7]))]
    return th


def gen_call(rng, case):
    keys = [t['k'] for t in case['tasks']]
    r = rng.random()
    if r < 0.3:
        entry = ['wbs', rng.randrange(case['wbs'])]
    elif r < 0.55:
        entry = ['task', rng.choice(keys)]
    elif r < 0.7:
        entry = ['alltasks', rng.randrange(case['wbs'])]
    elif r < 0.78:
        entry = ['pick', rng.randrange(case['wbs']), sorted(set(rng.choice(keys) for _ in range(rng.randint(0, 5))))]
    elif r < 0.85:
        entry = ['children', rng.choice(keys)]
    else:
        linked = sorted(set(case['tasks'][i]['k'] for l in case.get('links', []) for i in l)) or keys
        entry = [rng.choice(['succs', 'preds', 'succs', 'preds', 'allsuccs', 'allpreds', 'allkids', 'allparents']), rng.choice(linked)]
    if rng.random() < 0.2:
        return {'entry': entry, 'via': 'repr', 'fields': None, 'children': True, 'theme': None}
    fields = gen_fields(rng, case['tasks'])
    if entry[0] in ('succs', 'preds', 'allsuccs', 'allpreds', 'allkids', 'allparents') and rng.random() < 0.7:
        dep = rng.sample(['predecessors', 'successors', 'parent'], rng.randint(1, 3))
        fields = ['id'] + dep + ([f for f in (fields or []) if f not in dep + ['id']][:2])
        rng.shuffle(fields)
    return {'entry': entry, 'via': 'print', 'fields': fields,
            'fields_kind': rng.choice(['list'] * 6 + ['tuple', 'iter', 'gen']),
            'children': rng.random() < 0.65, 'theme': gen_theme(rng),
            'levels_kind': rng.choice(['list', 'list', 'tuple'])}


def gen_sheet_case(rng):
    tasks = []
    used = set()
    n_wbs = rng.choice([1, 1, 2, 2])
    budget = [rng.choice([1, 3, 5, 8, 12])]
    for _ in range(rng.choice([1, 1, 2, 3, 4])):
        if budget[0] <= 0:
            break
        gen_tree(rng, tasks, used, rng.choice([0, 1, 2, 3, 4]), wbs=0, budget=budget)
    if n_wbs == 2:
        b2 = [rng.randint(1, 3)]
        used2 = set() if rng.random() < 0.5 else used       # the other WBS may reuse ids
        while b2[0] > 0:
            gen_tree(rng, tasks, used2, 1, wbs=1, budget=b2)
    for _ in range(rng.choice([0, 0, 1, 2])):                # detached trees
        b3 = [rng.randint(1, 3)]
        gen_tree(rng, tasks, set(), rng.choice([0, 1, 2]), budget=b3)
    if rng.random() < 0.08:                                  # a detached task carrying the reserved id
        tasks.append(gen_task(rng, len(tasks), used, force_id=['i', sys.maxsize]))
    links = []
    for _ in range(rng.choice([0, 1, 2, 4, 8])):
        a, b = rng.randrange(len(tasks)), rng.randrange(len(tasks))
        if a != b:
            links.append([a, b])
    case = {'kind': 'sheet', 'wbs': n_wbs, 'tasks': tasks, 'links': links}
    case['calls'] = [gen_call(rng, case) for _ in range(rng.randint(3, 6))]
    # aimed: a hub task linked with tasks of SEVERAL owners (two WBSs, detached trees); its successors / predecessors
    # list is then printed with the dependency columns: whether a link is external depends on the row it is printed in
    owners = {}
    for i, t in enumerate(tasks):
        owners.setdefault(t.get('wbs'), []).append(i)
    if len(owners) >= 2 and rng.random() < 0.4:
        hub = rng.randrange(len(tasks))
        partners = []
        for ow, members in sorted(owners.items(), key=lambda kv: str(kv[0])):
            pool = [m for m in members if m != hub]
            partners += rng.sample(pool, min(len(pool), rng.randint(1, 2)))
        partners = [m for m in partners if m != hub]
        rng.shuffle(partners)
        as_succ = rng.random() < 0.5
        for m in partners:
            case['links'].append([m, hub] if as_succ else [hub, m])       # [a, b]: b becomes a predecessor of a
        fields = ['id'] + rng.sample(['predecessors', 'successors', 'parent'], rng.randint(1, 3))
        case['calls'].append({'entry': ['succs' if as_succ else 'preds', tasks[hub]['k']], 'via': 'print', 'fields': fields,
                              'fields_kind': 'list', 'children': rng.random() < 0.5, 'theme': gen_theme(rng), 'levels_kind': 'list'})
    return case


def gen_usage_case(rng):
    res = []
    for _ in range(rng.randint(1, 4)):
        nm = rng.choice(['dev', 'qa', 'ops', None, 'x' * 14, 'r2', '日本', 'Lead Dev', ''])
        if nm is not None and not ascii_cased(nm):
            nm = 'dev'
        res.append([nm, sorted(set(rng.randint(0, 6) for _ in range(rng.randint(1, 7)))), ['i', rng.choice([8, 8, 4, 1, 16])]])
    if rng.random() < 0.55:
        # a report built directly
        rows = []
        base = BASE + rng.randint(-30, 30) * DAY
        for _ in range(rng.choice([0, 1, 1, 2, 3, 5, 9])):
            tod = 0 if rng.random() < 0.6 else rng.choice([1, 6 * 3600 * 1000_000, 12 * 3600 * 1000_000, DAY - 1])
            u = rng.choice([['i', 0], ['i', 8], ['i', 4], ['i', 3], ['f', (0.5).hex()], ['f', (7.96).hex()], ['f', (0.25).hex()],
                            ['i', 1000000], ['f', (1e-3).hex()]])
            rows.append([rng.randrange(len(res)), base + rng.choice([0, 0, 1, 2, 3, 6, 13, 35]) * DAY + tod, u])
        return {'kind': 'usage', 'resources': res, 'rows': rows}
    tasks = []
    names = [r[0] for r in res if r[0]]
    for i in range(rng.randint(1, 7)):
        parent = rng.choice([None, None] + [t['id'] for t in tasks]) if tasks else None
        tasks.append({'id': i + 1, 'name': 't%d' % i, 'resource': rng.choice(names + ['default', 'nobody']) if names else 'default',
                      'estimate': ['i', rng.choice([0, 1, 4, 8, 12, 20, 40])], 'parent': parent})
    links = [[rng.randint(1, len(tasks)), rng.randint(1, len(tasks))] for _ in range(rng.choice([0, 1, 2, 3]))]
    return {'kind': 'usage_sched', 'resources': res, 'tasks': tasks, 'links': [l for l in links if l[0] != l[1]],
            'direction': rng.choice(['forward', 'forward', 'backward']), 'balance': rng.random() < 0.7,
            'anchor': BASE + rng.randint(0, 20) * DAY + rng.choice([0, 0, 6 * 3600 * 1000_000])}


def T(k, idv, name, parent=None, wbs=None, est=None, attrs=None, kw=None):
    return {'k': k, 'id': ['i', idv] if isinstance(idv, int) else ['s', idv], 'name': w_text(name),
            'estimate': ['none'] if est is None else est, 'spent': ['none'], 'kw': kw or {}, 'attrs': attrs or {},
            'parent': parent, 'wbs': wbs}


def P(entry, fields=None, children=True, theme=None, kind='list'):
    return {'entry': entry, 'via': 'print', 'fields': fields, 'fields_kind': kind, 'children': children, 'theme': theme,
            'levels_kind': 'list'}


_SMALL = [T(0, 1, 'A', wbs=0, est=['i', 3]), T(1, 2, None, parent=0, est=['f', (1.5).hex()]),
          T(2, 3, 'CCC long name', parent=0), T(3, 4, 'D', parent=2, kw={'start': ['d', BASE + DAY + 3 * 3600 * 1000_000]}),
          T(4, 5, 'E', wbs=0), T(5, 99, 'ext'), T(6, sys.maxsize, 'reserved')]

CORPUS = [
    # C20-1: a theme without 'level_colors' raised KeyError (header_color alone is allowed by the code)
    {'kind': 'sheet', 'wbs': 1, 'tasks': _SMALL, 'links': [], 'calls': [P(['wbs', 0], theme={}), P(['task', 0], ['id', 'name'], theme={'header_color': '1m'})]},
    # C20-2: fields given as a one-shot iterable printed the header and empty rows
    {'kind': 'sheet', 'wbs': 1, 'tasks': _SMALL, 'links': [], 'calls': [P(['wbs', 0], ['id', 'name'], kind='iter'), P(['wbs', 0], ['name', 'parent'], kind='gen')]},
    # C20-3: usage table of rows carrying a time of day lost the last day(s)
    {'kind': 'usage', 'resources': [['r1', [0, 1, 2, 3, 4], ['i', 8]], [None, [0, 1, 2, 3, 4, 5, 6], ['i', 8]]],
     'rows': [[0, BASE + 12 * 3600 * 1000_000, ['i', 3]], [1, BASE + 2 * DAY + 6 * 3600 * 1000_000, ['f', (8.0).hex()]]]},
    # boundaries
    {'kind': 'sheet', 'wbs': 1, 'tasks': _SMALL, 'links': [[4, 3], [4, 5], [4, 6], [3, 1]],
     'calls': [{'entry': ['wbs', 0], 'via': 'repr', 'fields': None, 'children': True, 'theme': None},
               P(['wbs', 0], ['id', 'NAME', 'name', 'Custom', 'parent', 'successors', 'predecessors', 'ID', 'Estimate', 'zzz', 'milestone'],
                 theme={'level_colors': ['1m']}),
               P(['wbs', 0], ['id'], children=False), P(['wbs', 0], []), P(['alltasks', 0], ['name', 'id']),
               P(['pick', 0, [1, 3]], None), P(['task', 5], ['id', 'name', 'successors'], theme={'header_color': None, 'level_colors': [None]}),
               P(['task', 2], ['name'], theme={'level_colors': ['', '4;33;44m']}), P(['children', 0], ['parent', 'name'], children=False)]},
    {'kind': 'usage', 'resources': [['dev', [0, 1, 2, 3, 4], ['i', 8]]], 'rows': []},
    {'kind': 'usage', 'resources': [['dev', [0, 1, 2, 3, 4], ['i', 8]]], 'rows': [[0, BASE, ['i', 8]]]},
    {'kind': 'usage', 'resources': [['dev', [0, 1, 2, 3, 4], ['i', 8]], ['qa', [0, 1], ['i', 4]]],
     'rows': [[0, BASE, ['i', 8]], [1, BASE + 35 * DAY, ['f', (0.25).hex()]], [0, BASE + 35 * DAY, ['i', 1000000]], [0, BASE, ['i', 1]]]},
    {'kind': 'usage_sched', 'resources': [['dev', [0, 1, 2, 3, 4], ['i', 8]], ['qa', [0, 1, 2, 3, 4], ['i', 4]]],
     'tasks': [{'id': 1, 'name': 'a', 'resource': 'dev', 'estimate': ['i', 20], 'parent': None},
               {'id': 2, 'name': 'b', 'resource': 'qa', 'estimate': ['i', 12], 'parent': None},
               {'id': 3, 'name': 'c', 'resource': 'dev', 'estimate': ['i', 4], 'parent': None}],
     'links': [[2, 1]], 'direction': 'forward', 'balance': True, 'anchor': BASE},
]


# ---------- emission ------------------------------------------------------------------------------
def nat(n):
    return '%d%%nat' % n


def copt(x, f):
    return 'None' if x is None else '(Some %s)' % f(x)


def e_id(v):
    return '(IdInt %s)' % z(v[1]) if v[0] == 'i' else '(IdStr %s)' % codepoints(v[1])


def e_val(v):
    k = v[0]
    if k == 'none':
        return 'VNone'
    if k == 's':
        return '(VStr %s)' % codepoints(v[1])
    if k == 'i':
        return '(VInt %s)' % z(v[1])
    if k == 'b':
        return '(VBool %s)' % coq_bool(v[1])
    if k == 'd':
        return '(VDate %s)' % z(v[1])
    if k == 'r':
        return '(VRepr %s)' % codepoints(v[1])
    raise InfraError('unknown value kind %r' % (v,))


def e_num(v):
    if v is None:
        return 'None'
    return '(Some (NInt %s))' % z(v[1]) if v[0] == 'i' else '(Some (NRepr %s))' % codepoints(v[1])


def e_link(l):
    return '(mk_link %s %s)' % (e_id(l[0]), copt(l[1], nat))


def e_name(v):
    if v[0] == 'none':
        return 'None'
    if v[0] != 's':
        raise InfraError('name is neither str nor None: %r' % (v,))
    return '(Some %s)' % codepoints(v[1])


def e_tree(n):
    d = n['d']
    data = '(mk_tdata %s %s %s %s %s %s %s %s %s %s)' % (
        nat(d['obj']), e_id(d['id']), copt(d['owner'], nat), e_name(d['name']), e_num(d['estimate']), e_num(d['spent']),
        copt(d['parent'], e_link), coq_list([e_link(l) for l in d['preds']]), coq_list([e_link(l) for l in d['succs']]),
        coq_list(['(%s, %s)' % (codepoints(k), e_val(v)) for k, v in d['attrs']]))
    return '(Node %s %s)' % (data, coq_list([e_tree(c) for c in n['ch']]))


def e_color(c):
    return copt(c, codepoints)


def e_theme(th):
    if th is None:
        return 'None'
    hdr = '(Some %s)' % e_color(th['header_color']) if 'header_color' in th else 'None'
    lev = '(Some %s)' % coq_list([e_color(c) for c in th['level_colors']]) if 'level_colors' in th else 'None'
    return '(Some (mk_theme %s %s))' % (hdr, lev)


def paths_of(forest):
    res = {}

    def walk(n, path):
        res[n['d']['obj']] = path
        for i, c in enumerate(n['ch']):
            walk(c, path + [i])

    for i, n in enumerate(forest):
        walk(n, [i])
    return res


def e_call(call, obs, slices, paths):
    e = call['entry']
    if any(g not in paths for g in obs['given']):
        raise InfraError('a printed task is not part of the snapshot: %r' % (obs['given'],))
    if e[0] == 'wbs':
        start, n = slices[e[1]]
        entry = '(EForest %s %s)' % (nat(start), nat(n))
        if [paths[g] for g in obs['given']] != [[start + i] for i in range(n)]:
            raise InfraError('WBS roots and snapshot disagree')
    else:
        entry = '(EPaths %s)' % coq_list([coq_list([nat(i) for i in paths[g]]) for g in obs['given']])
    fields = call['fields'] if call['via'] == 'print' else None
    return '(mk_call %s %s %s %s %s %s)' % (
        entry, copt(fields, lambda fs: coq_list([codepoints(f) for f in fs])),
        coq_bool(call['children'] if call['via'] == 'print' else True),
        e_theme(call['theme'] if call['via'] == 'print' else None), nat(obs['code']), codepoints(obs['out']))


def emit_case(case, obs):
    """returns (term, list of call indexes emitted)"""
    if case['kind'] == 'sheet':
        paths = paths_of(obs['forest'])
        terms = []
        idx = []
        for i, (c, o) in enumerate(zip(case['calls'], obs['calls'])):
            if o.get('skip'):
                continue
            terms.append(e_call(c, o, obs['slices'], paths))
            idx.append(i)
        return '(CSheet %s %s)' % (coq_list([e_tree(n) for n in obs['forest']]), coq_list(terms)), idx
    if 'sched_failed' in obs:
        return None, []
    u = '(mk_usage %s %s %s)' % (
        coq_list([z(d) for d in obs['dates']]), coq_list([copt(n, codepoints) for n in obs['cols']]),
        coq_list(['((%s, %s), mk_ucell %s %s)' % (nat(k), z(d), codepoints(t), nat(cl)) for k, d, t, cl in obs['cells']]))
    return '(CUsage %s %s %s)' % (u, nat(obs['code']), codepoints(obs['out'])), [0]


WHAT = {
    1: ('raises', 'printing raises an exception'),
    2: ('text', 'printed text differs from the specification (model)'),
    3: ('line count', 'not one header line plus one line per shown task'),
    4: ('width', 'lines of different visible width (columns not aligned)'),
    5: ('indent', 'name not indented by three spaces per level'),
    6: ('usage days', 'usage table has not one line per day from the first to the last reservation'),
}


def evaluate(ctx, cases):
    chunks = [cases[i:i + 60] for i in range(0, len(cases), 60)]
    obs = [o for part in ctx.impl_run_many('c20_impl', chunks) for o in part]
    terms = []
    meta = []
    for i, (c, o) in enumerate(zip(cases, obs)):
        t, idx = emit_case(c, o)
        if t is not None:
            terms.append(t)
            meta.append((i, idx))
    codes = ctx.coq_codes('cases', HEADER, 'case', terms, 'check_case', shard=max(8, min(30, len(terms) // 16 + 1)), jobs=16)
    return obs, meta, codes


def report(ctx, cases, obs, meta, codes, n_corpus=0):
    for (i, idx), code in zip(meta, codes):
        if code == 0:
            continue
        case, o = cases[i], obs[i]
        clause = code % 10
        if clause == 9 or clause not in WHAT:
            raise InfraError('malformed case %d (code %d)' % (i, code))
        sig, what = WHAT[clause]
        if case['kind'] == 'sheet':
            ci = idx[code // 10]
            small = dict(case, calls=[case['calls'][ci]])
            ctx.failure('C20/sheet %s' % sig, what, {'case': small, 'observed': o['calls'][ci], 'from_corpus': i < n_corpus})
        else:
            ctx.failure('C20/usage %s' % sig, what,
                        {'case': case, 'observed': {k: o[k] for k in ('out', 'code', 'exc') if k in o}, 'from_corpus': i < n_corpus})


GROWING_NAMES = ['größe', 'straße', 'ß', 'ﬁeld', 'ŉx', 'maß', 'ǰ', 'ﬂow', 'eﬀort', 'ΐ']     # str.upper() is longer than the name


def unicode_case_stream(ctx):
    """field names whose upper-case form has MORE code points than the name (ß -> SS, ﬁ -> FI, ...): outside the model
    (whose case mapping is the ASCII one), judged on the implementation's text alone - every line has the same visible
    width (code points without colour codes) and the header shows each caption in capitals, in field order"""
    import random as _random
    import re as _re
    rng = _random.Random('C20/growing-captions/%s' % ctx.seed)
    n = 12 if ctx.tier == 'quick' else 150
    cases = []
    for _ in range(n):
        c = gen_sheet_case(rng)
        for call in c['calls']:
            if call['via'] != 'print':
                continue
            fs = [f for f in (call['fields'] or ['id', 'name'])][:4]
            for _ in range(rng.randint(1, 2)):
                fs.insert(rng.randint(0, len(fs)), rng.choice(GROWING_NAMES))
            call['fields'] = fs
        cases.append(c)
    for c in cases:
        c['growing_captions'] = True
    chunks = [cases[i:i + 60] for i in range(0, len(cases), 60)]
    obs = [o for part in ctx.impl_run_many('c20_impl', chunks) for o in part]
    stat = {'calls': 0, 'lines': 0}
    for c, o in zip(cases, obs):
        judge_growing(ctx, c, o, stat)
    return stat


def judge_growing(ctx, c, o, stat):
    import re as _re
    ansi = _re.compile('\x1b\\[[0-9;]*m')
    for call, oc in zip(c['calls'], o['calls']):
        if oc.get('skip') or call['via'] != 'print' or oc.get('code') != 0:
            continue
        lines = [ansi.sub('', l) for l in oc['out'].split('\n')]
        stat['calls'] += 1
        stat['lines'] += len(lines)
        widths = sorted(set(len(l) for l in lines))
        small = dict(c, calls=[call])
        if len(widths) > 1:
            ctx.failure('C20/sheet width (caption that grows in capitals)', 'lines of different visible width %s with fields %r'
                        % (widths, call['fields']), {'case': small, 'observed': oc})
            continue
        pos = 0
        for f in call['fields']:
            k = lines[0].find(f.upper(), pos)
            if k < 0:
                ctx.failure('C20/sheet header (caption that grows in capitals)', 'the header line does not show %r for the field %r '
                            '(in field order)' % (f.upper(), f), {'case': small, 'observed': oc})
                break
            pos = k + len(f.upper())


def run(ctx):
    ctx.coverage_unicode_case = unicode_case_stream(ctx)
    n_sheet, n_usage = (330, 160) if ctx.tier == 'quick' else (6000, 3000)
    cases = list(CORPUS) + [gen_sheet_case(ctx.rng) for _ in range(n_sheet)] + [gen_usage_case(ctx.rng) for _ in range(n_usage)]
    obs, meta, codes = evaluate(ctx, cases)
    report(ctx, cases, obs, meta, codes, len(CORPUS))
    distinct = set()
    dist = {'sheet_calls': 0, 'via_repr': 0, 'children_off': 0, 'default_fields': 0, 'unknown_or_cased_fields': 0,
            'one_shot_fields': 0, 'theme_none': 0, 'theme_without_levels': 0, 'theme_without_header': 0,
            'external_links_shown': 0, 'none_names': 0, 'max_depth_3plus': 0, 'usage_direct': 0, 'usage_scheduler': 0,
            'usage_scheduler_failed': 0, 'usage_empty': 0, 'usage_time_of_day': 0, 'lines_total': 0}
    evaluations = 0
    for c, o in zip(cases, obs):
        if c['kind'] == 'sheet':
            fkey = json.dumps(o['forest'], sort_keys=True)
            depth3 = any(len(p) >= 4 for p in paths_of(o['forest']).values())
            for call, oc in zip(c['calls'], o['calls']):
                if oc.get('skip'):
                    continue
                evaluations += 1
                dist['sheet_calls'] += 1
                nlines = oc['out'].count('\n') + 1
                dist['lines_total'] += nlines
                dist['via_repr'] += call['via'] == 'repr'
                dist['children_off'] += not call['children']
                dist['default_fields'] += call['fields'] is None
                dist['unknown_or_cased_fields'] += bool(call['fields']) and any(f not in KNOWN_FIELDS for f in call['fields'])
                dist['one_shot_fields'] += call.get('fields_kind') in ('iter', 'gen') and call['fields'] is not None
                dist['theme_none'] += call['theme'] is None
                dist['theme_without_levels'] += call['theme'] is not None and 'level_colors' not in call['theme']
                dist['theme_without_header'] += call['theme'] is not None and 'header_color' not in call['theme']
                dist['external_links_shown'] += '(external)' in oc['out']
                dist['max_depth_3plus'] += depth3
                if nlines >= 3:
                    distinct.add((fkey, json.dumps([call['entry'], call['fields'], call['children'], call['theme']], sort_keys=True)))
            dist['none_names'] += sum(1 for t in c['tasks'] if t['name'] == ['none'])
        else:
            if 'sched_failed' in o:
                dist['usage_scheduler_failed'] += 1
                continue
            evaluations += 1
            dist['usage_direct' if c['kind'] == 'usage' else 'usage_scheduler'] += 1
            dist['usage_empty'] += not o['dates']
            dist['usage_time_of_day'] += any(d % DAY for d in o['dates'])
            if o['out'].count('\n') >= 2:
                distinct.add(json.dumps([o['dates'], o['cols'], o['cells']]))
    sample = next((i for i, c in enumerate(cases) if i >= len(CORPUS) and c['kind'] == 'sheet'), 0)
    ctx.coverage.update(
        evaluations=evaluations,
        distinct_nontrivial=len(distinct),
        rule='sheet calls: random WBSs (1-2 WBSs, depth <= 4, None/long/non-ASCII names, custom and print_color attributes, links '
             'inside/outside the WBS, detached trees, reserved id) printed through WBS/Task/task-list repr() and print() with random '
             'field lists (known, unknown, upper-case, repeated, empty; list/tuple/iterator), children on/off, themes with/without '
             'header_color/level_colors; usage tables from reports built directly (rows with a time of day included) and from '
             'forward/backward scheduler runs. distinct = distinct (graph snapshot, entry, fields, children, theme) whose sheet has '
             '>= 3 lines, plus distinct usage tables with >= 3 lines',
        samples=[{'case': cases[sample], 'observed_calls': obs[sample].get('calls')}, {'case': cases[-1], 'observed': obs[-1]}],
        distribution=dict({k: int(v) for k, v in dist.items()},
                          growing_caption_stream_judged_in_python_calls=ctx.coverage_unicode_case['calls'],
                          growing_caption_stream_judged_in_python_lines=ctx.coverage_unicode_case['lines']),
        traces_validated_against_impl=evaluations,
        comparison='exact text (colour codes included) model vs implementation inside Coq; oracles line count / equal visible '
                   'width / three-space indentation / one line per day evaluated on the implementation\'s text',
    )
    ctx.assumptions += [
        'cell values contain no newline and no ESC character, colour codes have the form <no ESC, no m>m; at least one field',
        'str.upper/str.lower are parameters of the model; the run uses the ASCII mapping on names where Python agrees with it',
        'str() of floats / objects and f"{val:.1f}" are taken from Python; strftime is modelled for years 1000-9999',
        'width = number of code points (len), not terminal cells; bg_color of TextTable (never used by the sheets) is not modelled',
        'column order of the usage table = iteration order of a Python set, observed not modelled',
        'field names starting with _Task__ (name-mangled private state) are outside the domain',
    ]


def replay(ctx, rep):
    case = rep['case']['case']
    if case.get('growing_captions'):
        o = ctx.impl_run_many('c20_impl', [[case]])[0][0]
        print('replay: case %s' % json.dumps(case)[:4000])
        print('replay: implementation printed:\n%s' % o['calls'][0].get('out'))
        judge_growing(ctx, case, o, {'calls': 0, 'lines': 0})
        ctx.coverage.update(evaluations=1, distinct_nontrivial=1, rule='replay of one case (judged on the printed text)', samples=[case])
        return
    obs, meta, codes = evaluate(ctx, [case])
    print('replay: case %s' % json.dumps(case)[:4000])
    o = obs[0]
    shown = o['calls'][0] if case['kind'] == 'sheet' else {k: o.get(k) for k in ('out', 'code', 'exc')}
    print('replay: implementation printed (code %s %s):\n%s' % (shown.get('code'), shown.get('exc', ''), shown.get('out')))
    code = codes[0] if codes else 0
    print('replay: verdict code %d (%s)' % (code, WHAT.get(code % 10, ('', 'agrees'))[1]))
    report(ctx, [case], obs, meta, codes)
    ctx.coverage.update(evaluations=1, distinct_nontrivial=1, rule='replay of one case', samples=[case])
