"""C13 - write_csv followed by read_csv reproduces the WBS.

The Gallina model (Csv/CsvModel.v: Python's csv writer and reader state machine; Csv/Fields.v: the
cell codecs; Csv/Wbs.v: tasks_to_raws / raws_to_wbs and the two csv_io functions) is the functional
specification: Props_C13.v proves that on it the round trip is the stated equivalence and a
fixpoint (C13_codec, C13_fields, C13_rows, C13_rebuild, C13_roundtrip, C13_fix, C13_bom, C13_handwritten).
Header, date format, delimiters, reserved names and the shape of the csv dialect calls are extracted from the
repository on every run by harness/constparts/csv.py, both for gen/Consts.v (the model and the theorems) and
for the files this module derives (load_layout).  This module ties the model to the code on every run:
  * byte level: the file write_csv produces must be the model's text for the same WBS;
  * the WBS read_csv returns must be the model's reading of that very file (compared in Coq);
  * the property's equivalence (Coq, CsvCheck.wbs_equiv_b) and the fixpoint clause are evaluated
    on what the implementation returned - a violation there is a failing input;
  * hand-written files (LF line ends, BOM, needless quotes, rows in another order, no final
    newline, columns in another order, no min_start column) must load with the meaning of the WBS
    they were derived from; malformed files must end in the exception class the model predicts.
The same equivalence is also evaluated in Python on the implementation's objects (auxiliary).
The domain predicate of the theorems (WbsSpec.wbs_ok_b) is evaluated in Coq on the WBS of every case."""
import csv
import io
import json
import sys
from datetime import datetime, timedelta

from harness import build, common
from harness.common import z, zopt, coq_list, coq_bool, InfraError
from harness.constparts import csv as csvparts

ID = 'C13'
PROPS_FILE = 'Props/Props_C13.v'
EXTRA_TARGETS = ['Csv/CsvCheck.vo']       # the executable checker the generated case files import (not in the cone of Props_C13.v)
CONST_PARTS = ('csv',)                    # gen/Consts.v: header, date format, delimiters, reserved names, dialect shape
DAY = 86400_000_000
EPOCH = datetime(1970, 1, 1)
DATE_LO, DATE_HI = -365, 36160          # 1969-01-01 .. 2068-12-31 (exclusive upper bound)

# the layout as the property text fixes it; used literally only by the hand-written files of the corpus
SPEC_LAYOUT = {'fields': ['id', 'name', 'resource', 'start', 'end', 'estimate', 'spent', 'milestone', 'parent_id', 'predecessor_ids'],
               'date_format': '%d.%m.%y', 'delimiter_write': ';', 'delimiter_read': ';', 'pred_sep_write': ';', 'pred_sep_read': ';',
               'header_strip': '\ufeff', 'bool_true': 'True'}
# the layout in effect: extracted from the repository by harness/constparts/csv.py at the start of every run (load_layout);
# the files this module derives from a WBS (variants, malformed files) are laid out with these values
LAYOUT = {}


def load_layout(ctx):
    """header / date format / delimiters as the code under test defines them (the same extraction that writes gen/Consts.v);
    a value that cannot be located is an infrastructure problem, a value that differs from the property text breaks the tie"""
    vals, problems = csvparts.values(ctx.repo)
    for p in problems:
        ctx.infra_problem('csv layout extraction: ' + p)
    LAYOUT.clear()
    for k, spec in SPEC_LAYOUT.items():
        v = vals.get(k)
        LAYOUT[k] = spec if v is None else v
        if vals.get(k) is not None and vals[k] != spec:
            ctx.mismatch('the CSV layout of the code differs from the layout in the property text: %s is %r, the property says %r'
                         % (k, vals[k], spec), {'layout': {kk: vals.get(kk) for kk in SPEC_LAYOUT}})
    return vals


def default_fields():
    return list(LAYOUT.get('fields') or SPEC_LAYOUT['fields'])


def delim():
    return LAYOUT.get('delimiter_write') or SPEC_LAYOUT['delimiter_write']

HEADER = """From PJ Require Import Base.Prelude Csv.CsvModel Csv.Fields Csv.Wbs Csv.CsvCheck.
Open Scope Z_scope.
Notation T := (@Node FV).
Notation mf := (@mkfields FV).
"""

FLAGS = {1: 'the written file differs from the model text',
         2: 'read_csv result differs from the model reading of the same file',
         4: 'the re-read WBS is not equivalent to the original',
         8: 'the file written from the re-read WBS differs from the model text',
         16: 'a further read/write cycle does not reproduce the file (fixpoint clause)',
         32: 'a float hypothesis (float(repr x) = x, repr x is a plain cell) fails on a value of the case',
         64: 'outside the model (duplicate ids or column names)'}
OUTSIDE_DOMAIN = 128      # information: WbsSpec.wbs_ok_b is false on the WBS of the case (outside the domain of the theorems)


# ---------- term printing ---------------------------------------------------------------------------
def txt(s):
    return '[' + '; '.join(str(ord(c)) for c in s) + ']%N'


def otxt(s):
    return 'None' if s is None else '(Some %s)' % txt(s)


def fv(p):
    return 'None' if p is None else '(Some (%s, %s))' % (txt(p[0]), txt(p[1]))


def emit_tree(n):
    cust = coq_list(['(%s, %s)' % (txt(k), otxt(v)) for k, v in n['custom']])
    f = '(mf %s %s %s %s %s %s %s %s %s %s)' % (
        z(n['id']), otxt(n['name']), otxt(n['resource']), zopt(n['start']), zopt(n['end']), fv(n['estimate']),
        fv(n['spent']), coq_bool(n['milestone']), zopt(n['min_start']), cust)
    return '(T %s %s %s)' % (f, coq_list([z(p) for p in n['preds']]), coq_list([emit_tree(k) for k in n['kids']]))


def emit_wbs(w):
    return coq_list([emit_tree(t) for t in w])


def emit_tab(tab):
    return coq_list(['(%s, %s)' % (txt(k), txt(v)) for k, v in sorted(tab.items())])


# ---------- wire format -> model values -------------------------------------------------------------
def num_val(x):
    if x is None:
        return None
    kind, v = x
    return int(v) if kind == 'i' else float.fromhex(v)


def cval_str(x):
    """what the csv writer makes of a custom value (None stays None)"""
    if x is None:
        return None
    kind, v = x
    if kind == 's':
        return v
    if kind == 'i':
        return str(int(v))
    if kind == 'f':
        return str(float.fromhex(v))
    if kind == 'b':
        return str(bool(v))
    raise ValueError(kind)


def day_of_us(us, problems, what):
    if us is None:
        return None
    if us % DAY != 0:
        problems.append('%s is not at midnight' % what)
    return us // DAY


def model_tree_of_input(n):
    """input node (wire format) -> node for the Coq term"""
    def numpair(x):
        v = num_val(x)
        return None if v is None else (str(v), repr(float(v)))
    pr = []
    return {'id': n['id'], 'name': n['name'], 'resource': n['resource'],
            'start': day_of_us(n['start'], pr, 'start'), 'end': day_of_us(n['end'], pr, 'end'),
            'estimate': numpair(n['estimate']), 'spent': numpair(n['spent']), 'milestone': n['milestone'],
            'min_start': day_of_us(n['min_start'], pr, 'min_start'),
            'custom': [(k, cval_str(v)) for k, v in n['custom']], 'preds': list(n['preds']),
            'kids': [model_tree_of_input(k) for k in n['kids']]}


def model_tree_of_obs(n, problems):
    """observed task (c13_impl.snap_task) -> node for the Coq term; values the model has no shape for are
    reported in `problems` and replaced by a value that cannot compare equal by accident"""
    tid = n['id']
    if not isinstance(tid, int):
        problems.append('id of a re-read task is %r' % (tid,))
        tid = -987654321

    def text(v, what):
        if v is None or isinstance(v, str):
            return v
        problems.append('task %r: %s is %r' % (tid, what, v))
        return '<%s>' % v[1]

    def date(v, what):
        if v is None:
            return None
        if v[0] != 'us':
            problems.append('task %r: %s is %r' % (tid, what, v))
            return -10 ** 9
        return day_of_us(v[1], problems, 'task %r: %s' % (tid, what))

    def num(v, what):
        if v is None:
            return None
        if v[1] is None:
            problems.append('task %r: %s is %r' % (tid, what, v))
            return (v[0], '<%s>' % v[2])
        return (v[0], v[1])

    mil = n['milestone']
    if not isinstance(mil, bool):
        problems.append('task %r: milestone is %r' % (tid, mil))
        mil = False
    return {'id': tid, 'name': text(n['name'], 'name'), 'resource': text(n['resource'], 'resource'),
            'start': date(n['start'], 'start'), 'end': date(n['end'], 'end'),
            'estimate': num(n['estimate'], 'estimate'), 'spent': num(n['spent'], 'spent'), 'milestone': mil,
            'min_start': date(n['min_start'], 'min_start'),
            'custom': [(k, v) for k, v, _ty in n['custom']], 'preds': list(n['preds']),
            'kids': [model_tree_of_obs(k, problems) for k in n['kids']]}


def float_table(texts):
    """text -> canonical repr of float(text), for every text Python's float() accepts"""
    tab = {}
    for t in texts:
        if t is None or t in tab or len(t) > 60:
            continue
        try:
            tab[t] = repr(float(t))
        except (ValueError, OverflowError):
            pass
    for c in list(tab.values()):
        if c not in tab:
            try:
                tab[c] = repr(float(c))
            except (ValueError, OverflowError):
                pass
    return tab


def file_cells(text):
    """all cells of a file as Python's csv reader sees them (the harness only collects candidate float texts)"""
    cells = []
    try:
        for row in csv.reader(io.StringIO(text, newline='\n'), delimiter=delim()):
            cells += row
    except csv.Error:
        pass
    return cells


def tree_num_texts(n):
    out = []
    for f in ('estimate', 'spent'):
        if n[f] is not None:
            out += [n[f][0], n[f][1]]
    for k in n['kids']:
        out += tree_num_texts(k)
    return out


# ---------- generator -------------------------------------------------------------------------------
HOSTILE = [';', '"', '\r', '\n', '\r\n', ' lead', 'trail ', ' ', '', '"', '""', '";"', 'a;b', 'x"y', '"quoted"', 'line1\nline2',
           'cr\rcr', 'crlf\r\nz', '\n', '\r', ';;', 'é', '日本語', '﻿', '﻿bom', 'mid﻿dle', ',', "'", '\t', 'tab\tbed', '\\',
           '\\n', '=1+1', 'None', 'True', '0', '-1', '1;2', '"\n"', '\n"', '"\r', 'a' * 70, '😀', '\x00', 'nul\x00l', '\x0b\x0c', '\x85', ' ']
ALPHA = ['a', 'b', 'Z', ' ', ';', '"', '\r', '\n', 'é', '日', ',', '﻿', "'", '0', '-', '.', '\t']
CUSTOM_NAMES = ['attr1', 'attr2', 'x', 'note', 'a;b', 'q"uote', 'with space', 'UPPER', 'k\nl', '日本', 'é', 'z9', 'owner', 'x.y', '1st', '']
ID_POOL = list(range(-3, 14)) + [-1000000007, 2 ** 31, 10 ** 12, 99, 100, -10, 2 ** 62]
FLOATS = [0.0, 0.1, 1.5, 2.5, 8.0, 10.0, 1e-7, 1e16, 1e22, 123456789.123, 0.30000000000000004, 5e-324, 1.7976931348623157e308,
          1 / 3, 2.675, 100.0, 0.125, 7.5, 1e-5, 40.25, 9007199254740993.0]
EDGE_DAYS = [DATE_LO, DATE_HI - 1, 0, -1, 10956, 10957, 11016, 11017, 19723, 19782, 25202, 36159 - 365, 59, 789, 10592]


def gen_text(rng, allow_none=True):
    r = rng.random()
    if allow_none and r < 0.12:
        return None
    if r < 0.2:
        return ''
    if r < 0.45:
        return rng.choice(['Task', 'Design', 'Build the thing', 'QA', 'Имя', 'name 7', 'R&D', 'Ann', 'Bob'])
    if r < 0.75:
        return rng.choice(HOSTILE)
    return ''.join(rng.choice(ALPHA) for _ in range(rng.randint(1, 9)))


def gen_day(rng):
    if rng.random() < 0.35:
        return rng.choice(EDGE_DAYS)
    return rng.randint(DATE_LO, DATE_HI - 1)


def gen_date(rng, p=0.4):
    return gen_day(rng) * DAY if rng.random() < p else None


def gen_num(rng):
    r = rng.random()
    if r < 0.45:
        return None
    if r < 0.55:
        return ['i', rng.choice([0, 1, 8, 10, 40, 1000])]
    if r < 0.85:
        return ['f', float(rng.choice(FLOATS)).hex()]
    return ['f', float(round(rng.random() * rng.choice([1, 10, 1000, 1e6]), rng.randint(0, 6))).hex()]


def gen_cval(rng):
    r = rng.random()
    if r < 0.12:
        return None
    if r < 0.7:
        t = gen_text(rng, allow_none=False)
        return ['s', t]
    if r < 0.8:
        return ['i', rng.choice([0, -5, 42, 10 ** 20])]
    if r < 0.9:
        return ['f', float(rng.choice(FLOATS)).hex()]
    return ['b', rng.random() < 0.5]


def gen_wbs(rng, max_tasks=10):
    n = rng.choice([0, 1, 1, 2, 3, 3, 4, 5, 6, 8, max_tasks])
    ids = rng.sample(ID_POOL, n)
    if n >= 2 and rng.random() < 0.35 and 0 not in ids:
        ids[rng.randrange(n)] = 0
    names_here = rng.sample(CUSTOM_NAMES, rng.randint(0, 4))
    nodes = []
    for i in ids:
        cust = []
        for k in names_here:
            if rng.random() < 0.5:
                cust.append([k, gen_cval(rng)])
        rng.shuffle(cust)
        nodes.append({'id': i, 'name': gen_text(rng), 'resource': gen_text(rng) if rng.random() < 0.5 else None,
                      'start': gen_date(rng), 'end': gen_date(rng), 'estimate': gen_num(rng), 'spent': gen_num(rng),
                      'milestone': rng.random() < 0.25, 'min_start': gen_date(rng, 0.3), 'custom': cust, 'preds': [], 'kids': []})
    # hierarchy: node k gets a parent among the earlier ones (depth <= 5); id 0 is preferred as a parent
    depth = {}
    parent = {}
    roots = []
    for k, nd in enumerate(nodes):
        cands = [j for j in range(k) if depth[j] < 4]
        zero = [j for j in cands if nodes[j]['id'] == 0]
        if cands and rng.random() < 0.65:
            j = rng.choice(zero) if zero and rng.random() < 0.6 else rng.choice(cands)
            parent[k] = j
            depth[k] = depth[j] + 1
            nodes[j]['kids'].append(nd)
        else:
            parent[k] = None
            depth[k] = 0
            roots.append(nd)

    def ancestors(k):
        res = set()
        while parent[k] is not None:
            k = parent[k]
            res.add(k)
        return res
    anc = {k: ancestors(k) for k in range(n)}
    # dependencies: oriented along (or against) the depth-first order, in which every subtree is an interval, so no
    # cycle can close through the hierarchy either; never between ancestor and descendant
    pre = {}

    def number(nd_list):
        for nd in nd_list:
            pre[id(nd)] = len(pre)
            number(nd['kids'])
    number(roots)
    dirn = rng.choice([1, -1])
    # half of the cases: dependencies oriented along a RANDOM ranking of the tasks instead, so that one task lists rows
    # that come later in the file before rows that come earlier (the order inside a predecessor list must survive)
    rank = list(range(n))
    rng.shuffle(rank)
    mixed = rng.random() < 0.5
    for k in range(n):
        if rng.random() < 0.45:
            if mixed:
                cands = [j for j in range(n) if j != k and j not in anc[k] and k not in anc[j] and rank[j] < rank[k]]
            else:
                cands = [j for j in range(n) if j != k and j not in anc[k] and k not in anc[j]
                         and (pre[id(nodes[j])] - pre[id(nodes[k])]) * dirn < 0]
            rng.shuffle(cands)
            nodes[k]['preds'] = [nodes[j]['id'] for j in cands[:rng.choice([1, 1, 2, 3])]]
    return roots


def walk(w):
    for t in w:
        yield t
        yield from walk(t['kids'])


def wbs_depth(w):
    return 0 if not w else 1 + max(wbs_depth(t['kids']) for t in w)


# ---------- files derived from a WBS by hand (Python side printer) -----------------------------------
def us_dt(us):
    return EPOCH + timedelta(microseconds=us)


def wbs_rows(w, date_fmt=None):
    """header and rows as write_csv lays them out (harness-side re-statement, used only to derive variants); header, date
    format and predecessor separator are the ones extracted from the code (LAYOUT)"""
    date_fmt = date_fmt or LAYOUT.get('date_format') or SPEC_LAYOUT['date_format']
    pred_sep = LAYOUT.get('pred_sep_write') or SPEC_LAYOUT['pred_sep_write']
    raws = []

    def go(t, parent):
        raws.append((t, parent))
        for k in t['kids']:
            go(k, t['id'])
    for t in w:
        go(t, None)
    cols = []
    for t, _ in raws:
        for k in ['min_start'] + [k for k, _v in t['custom']]:
            if k not in cols:
                cols.append(k)
    rows = []
    for t, parent in raws:
        cust = dict((k, cval_str(v)) for k, v in t['custom'])
        est, sp = num_val(t['estimate']), num_val(t['spent'])
        row = [str(t['id']), t['name'] or '', t['resource'] or '',
               us_dt(t['start']).strftime(date_fmt) if t['start'] is not None else '',
               us_dt(t['end']).strftime(date_fmt) if t['end'] is not None else '',
               '' if est is None else str(est), '' if sp is None else str(sp), str(t['milestone']),
               '' if parent is None else str(parent), pred_sep.join(str(p) for p in t['preds'])]
        for k in cols:
            if k == 'min_start':
                row.append(str(us_dt(t['min_start'])) if t['min_start'] is not None else '')
            else:
                row.append(cust.get(k) or '')
        rows.append(row)
    return default_fields() + cols, rows, [p for _t, p in raws]


def print_rows(rows, lineterminator='\r\n', quote_all=False):
    """harness-side CSV printer for the derived files: a cell is quoted when it contains the delimiter " CR or LF (or always)"""
    out = []
    d = delim()
    for r in rows:
        cells = []
        for c in r:
            if quote_all or any(ch in c for ch in d + '"\r\n') or (len(r) == 1 and c == ''):
                cells.append('"' + c.replace('"', '""') + '"')
            else:
                cells.append(c)
        out.append(d.join(cells) + lineterminator)
    return ''.join(out)


def gen_variant(rng, w):
    """a file a person or an earlier version could have produced for the WBS w, with the transformations applied"""
    header, rows, parents = wbs_rows(w)
    how = []
    has_min_start = any(t['min_start'] is not None for t in walk(w))
    has_custom_header_bom = any('﻿' in h for h in header)
    if rows and rng.random() < 0.4:
        # rows in another order; the relative order inside every sibling group (and among the roots) is kept
        perm = list(range(len(rows)))
        rng.shuffle(perm)
        groups = {}
        for i, p in enumerate(parents):
            groups.setdefault(p, []).append(i)
        newpos = {}
        for p, members in groups.items():
            slots = sorted(perm.index(i) for i in members)
            for i, s in zip(members, slots):
                newpos[i] = s
        rows = [r for _s, r in sorted((newpos[i], rows[i]) for i in range(len(rows)))]
        how.append('rows-reordered')
    if len(header) > 10 and not has_min_start and rng.random() < 0.3:
        j = header.index('min_start')
        header = header[:j] + header[j + 1:]
        rows = [r[:j] + r[j + 1:] for r in rows]
        how.append('no-min_start-column')
    if rng.random() < 0.3:
        perm = list(range(len(header)))
        rng.shuffle(perm)
        header = [header[i] for i in perm]
        rows = [[r[i] for i in perm] for r in rows]
        how.append('columns-reordered')
    if rng.random() < 0.25:
        j = header.index('milestone')
        for r in rows:
            if r[j] == 'False':
                r[j] = ''
        how.append('milestone-empty-for-False')
    term = '\r\n'
    if rng.random() < 0.5:
        term = '\n'
        how.append('LF-line-ends')
    quote_all = False
    if rng.random() < 0.35:
        quote_all = True
        how.append('all-fields-quoted')
    text = print_rows([header] + rows, term, quote_all)
    if rng.random() < 0.35 and text.endswith(term):
        text = text[:-len(term)]
        how.append('no-final-newline')
    if rng.random() < 0.5 and not quote_all and not header[0] == '' and not any(c in header[0] for c in ';"\r\n'):
        text = '﻿' + text
        how.append('BOM')
    if not how:
        text = print_rows([header] + rows, '\n')
        how.append('LF-line-ends')
    if has_custom_header_bom:
        return None
    return {'kind': 'read', 'file': text, 'meaning': w, 'how': how}


def gen_malformed(rng, w):
    """a file that is not in the layout: the implementation must end in the exception class the model predicts
    (or load it the way the model does).  Only text cells and whole rows are damaged, so ids, parents and
    dependencies stay those of w."""
    header, rows, _ = wbs_rows(w)
    if not rows:
        rows = [['1'] + [''] * (len(header) - 1)]
        rows[0][7] = 'False'
    how = rng.choice(['bad-id', 'bad-date', 'bad-float', 'bad-pred', 'bad-parent', 'short-row', 'blank-line', 'missing-column',
                      'stray-quote', 'open-quote', 'bare-cr', 'cr-line-ends', 'pred-outside', 'empty-file', 'header-only-lf',
                      'quote-after-quoted', 'long-row', 'bad-min-start', 'impossible-date'])
    i = rng.randrange(len(rows))
    r = rows[i]
    term = rng.choice(['\r\n', '\n'])

    def col(name):
        return header.index(name)
    text = None
    if how == 'bad-id':
        r[col('id')] = rng.choice(['x', '', '1.0', '--1', '-', '1e3', 'id'])
    elif how == 'bad-date':
        r[col(rng.choice(['start', 'end']))] = rng.choice(['2024-01-05', '05/01/24', '05.01', 'xx.01.24', '05.01.24 ', '05.01.2024', '5'])
    elif how == 'impossible-date':
        r[col(rng.choice(['start', 'end']))] = rng.choice(['31.02.24', '00.01.24', '32.01.24', '01.13.24', '29.02.23', '01.00.24', '30.02.00'])
    elif how == 'bad-float':
        r[col(rng.choice(['estimate', 'spent']))] = rng.choice(['abc', '1,5', '1.5h', '--1', '1.5.2', '-1', '-0.5'])
    elif how == 'bad-pred':
        r[col('predecessor_ids')] = rng.choice(['1;;2', 'x', '1;x', ';', '1;', ';1', '1,2'])
    elif how == 'bad-parent':
        r[col('parent_id')] = rng.choice(['p', '1.0', '-'])
    elif how == 'pred-outside':
        r[col('predecessor_ids')] = '424242'
    elif how == 'bad-min-start':
        if 'min_start' not in header:
            header.append('min_start')
            for q in rows:
                q.append('')
        r[col('min_start')] = rng.choice(['05.01.24', 'soon', '2024-13-01 00:00:00', '2024-02-30 00:00:00', 'x'])
    elif how == 'short-row':
        del r[rng.randrange(0, len(r)):]
    elif how == 'long-row':
        r.append('extra')
    elif how == 'missing-column':
        j = rng.randrange(10)
        header = header[:j] + header[j + 1:]
        rows = [q[:j] + q[j + 1:] for q in rows]
    elif how == 'empty-file':
        text = ''
    elif how == 'header-only-lf':
        text = delim().join(default_fields()) + rng.choice(['', '\n', '\r\n', '\r'])
    if text is None:
        text = print_rows([header] + rows, term)
        lines = text.split(term)
        if how == 'blank-line':
            k = rng.randrange(1, len(lines))
            lines.insert(k, '')
            text = term.join(lines)
        elif how == 'cr-line-ends':
            text = print_rows([header] + rows, '\r')
        elif how in ('stray-quote', 'open-quote', 'bare-cr', 'quote-after-quoted'):
            # damage the printed name cell of row i (second cell of its line) without touching the other cells
            plain = print_rows([header] + [q[:1] + ['NAME'] + q[2:] for q in rows], term)
            inject = {'stray-quote': rng.choice(['ab"cd', 'ab""cd', 'x"']), 'open-quote': rng.choice(['"abc', '"a;b', '"']),
                      'bare-cr': rng.choice(['ab\rcd', '\rx', 'x\r']), 'quote-after-quoted': rng.choice(['"ab"cd', '"ab" ', '"a""b"c;d'])}[how]
            text = plain.replace('NAME', 'n', i).replace('NAME', inject, 1).replace('NAME', 'n')
    return {'kind': 'read', 'file': text, 'meaning': None, 'how': [how], 'malformed': True}


# ---------- corpus -----------------------------------------------------------------------------------
def node(i, name=None, kids=(), preds=(), custom=(), **kw):
    d = {'id': i, 'name': name, 'resource': None, 'start': None, 'end': None, 'estimate': None, 'spent': None, 'milestone': False,
         'min_start': None, 'custom': [list(c) for c in custom], 'preds': list(preds), 'kids': list(kids)}
    d.update(kw)
    return d


D = lambda y, m, d: (datetime(y, m, d) - EPOCH).days * DAY   # noqa
HDR = ';'.join(SPEC_LAYOUT['fields'])      # the header of the property text, literally

CORPUS = [
    # F19 witnesses (repaired by fixes/C13-1..3): a parent with id 0; min_start; stale parent_id / predecessor_ids attributes
    {'kind': 'round', 'wbs': [node(0, 'root0', kids=[node(1, 'child')])]},
    {'kind': 'round', 'wbs': [node(1, 'a', min_start=D(2024, 1, 5))]},
    {'kind': 'round', 'wbs': [node(1, 'p', kids=[node(2, 'c')]), node(3, 'x', preds=[2])]},
    {'kind': 'round', 'wbs': [node(5, kids=[node(0, kids=[node(-1, kids=[node(7, kids=[node(8)])])])]), node(9, preds=[0, 8])]},
    # the test of the repository
    {'kind': 'round', 'wbs': [node(1, kids=[node(2, 'Name 2')]), node(3, preds=[2]), node(4, start=D(2025, 1, 1), end=D(2025, 2, 1)),
                              node(5, estimate=['i', 10], spent=['i', 8]), node(6, milestone=True), node(7, resource='Test'),
                              node(8, custom=[('attr1', ['s', 'Test1'])]), node(9, custom=[('attr2', ['s', 'Test2'])])]},
    # text that needs quoting, in every text position; sparse attributes; None values; non-string values
    {'kind': 'round', 'wbs': [node(1, 'a;b', resource='"', custom=[('x', ['s', 'line1\nline2'])]),
                              node(2, 'cr\rcr', resource='crlf\r\nz', custom=[('x', None)]),
                              node(3, '"', resource=' sp ', custom=[('y', ['s', '﻿bom'])]),
                              node(-4, '', resource=None, custom=[('y', ['i', 42]), ('x', ['f', (0.1).hex()]), ('w', ['b', True])])]},
    {'kind': 'round', 'wbs': [node(1, '\n'), node(2, '\r'), node(3, '\r\n'), node(4, '""'), node(5, '";"\n'), node(6, ' '), node(7, '\x00'),
                              node(8, '﻿'), node(9, 'x' * 300)]},
    {'kind': 'round', 'wbs': [node(1, custom=[('a;b', ['s', ';']), ('k\nl', ['s', '"']), ('', ['s', 'empty name'])]),
                              node(2, custom=[('k\nl', ['s', 'v']), ('new', ['s', 'late column'])])]},
    # boundaries of the date window, fractional amounts
    {'kind': 'round', 'wbs': [node(1, start=DATE_LO * DAY, end=(DATE_HI - 1) * DAY, min_start=DATE_LO * DAY),
                              node(2, start=D(1999, 12, 31), end=D(2000, 2, 29), min_start=(DATE_HI - 1) * DAY),
                              node(3, estimate=['f', (0.1).hex()], spent=['f', (1e-7).hex()]),
                              node(4, estimate=['f', (1e22).hex()], spent=['f', (5e-324).hex()]),
                              node(5, estimate=['f', (0.0).hex()], spent=['i', 0])]},
    {'kind': 'round', 'wbs': []},
    {'kind': 'round', 'wbs': [node(0)]},
    # integer ids that no binary64 float represents (round Y/Z: ids parsed through float())
    {'kind': 'round', 'wbs': [node(2 ** 53 + 1, 'big', kids=[node(2 ** 53 + 3, 'kid'), node(-(2 ** 53) - 1, 'neg')]),
                              node(10 ** 17 + 1, 'waits', preds=[2 ** 53 + 3, -(2 ** 53) - 1]), node(2 ** 63 + 5, 'wide', preds=[10 ** 17 + 1])]},
    # hand-written files
    {'kind': 'read', 'file': HDR + '\n2;c;;;;;;;1;\n1;p;;01.02.24;;1.5;;True;;\n3;x;;;;;;False;;"1;2"', 'how': ['LF', 'child-first', 'no-final-newline'],
     'meaning': [node(1, 'p', start=D(2024, 2, 1), estimate=['f', (1.5).hex()], milestone=True, kids=[node(2, 'c')]), node(3, 'x', preds=[1, 2])]},
    {'kind': 'read', 'file': '﻿' + HDR + '\r\n1;p;;;;;;;;\r\n', 'how': ['BOM'], 'meaning': [node(1, 'p')]},
    {'kind': 'read', 'file': HDR + '\r\n"1";"p";"";;;"2";;"True";"";""\r\n', 'how': ['needless-quotes'],
     'meaning': [node(1, 'p', estimate=['i', 2], milestone=True)]},
    {'kind': 'read', 'file': HDR + ';min_start\r\n1;p;;;;;;;;;2024-01-05 00:00:00\r\n', 'how': ['earlier-version-min_start'],
     'meaning': [node(1, 'p', min_start=D(2024, 1, 5))]},
    {'kind': 'read', 'file': HDR + '\r\n1;p;;;;;;;0;\r\n', 'how': ['parent-id-without-task'], 'meaning': [node(1, 'p')]},
    # malformed
    {'kind': 'read', 'file': '﻿"id";' + HDR[3:] + '\r\n1;p;;;;;;;;\r\n', 'how': ['BOM-before-quoted-header'], 'meaning': None, 'malformed': True},
    {'kind': 'read', 'file': HDR + '\r\n1;p;;;;;;;;\r\n\r\n2;q;;;;;;;;\r\n', 'how': ['blank-line'], 'meaning': None, 'malformed': True},
    {'kind': 'read', 'file': HDR + '\r1;p;;;;;;;;\r', 'how': ['cr-line-ends'], 'meaning': None, 'malformed': True},
    {'kind': 'read', 'file': HDR + '\r\n1;"pq;;;;;;;;\r\n', 'how': ['open-quote'], 'meaning': None, 'malformed': True},
    {'kind': 'read', 'file': HDR + '\r\n1;p;;;;;;;;7\r\n', 'how': ['pred-outside'], 'meaning': None, 'malformed': True},
    {'kind': 'read', 'file': HDR + '\r\n1;p;;;;-1;;;;\r\n', 'how': ['negative-estimate'], 'meaning': None, 'malformed': True},
    {'kind': 'read', 'file': HDR + '\r\n1;p;;;;;;;2;\r\n2;q;;;;;;;1;\r\n', 'how': ['parent-cycle'], 'meaning': None, 'malformed': True},
    {'kind': 'read', 'file': HDR + ';print;wbs;z\r\n1;p;;;;;;;;;A;C;D\r\n', 'how': ['reserved-column-names'], 'meaning': None, 'malformed': True},
    {'kind': 'read', 'file': '', 'how': ['empty-file'], 'meaning': None, 'malformed': True},
]


# ---------- evaluation --------------------------------------------------------------------------------
def nontrivial(case):
    if case['kind'] == 'read':
        return True
    w = case['wbs']
    tasks = list(walk(w))
    if len(tasks) < 2:
        return False
    hostile = any(any(c in (t[f] or '') for c in ';"\r\n') for t in tasks for f in ('name', 'resource'))
    return wbs_depth(w) >= 2 or any(t['preds'] for t in tasks) or hostile or any(t['custom'] for t in tasks)


def emit_case(case, obs):
    """(Coq term, problems found while converting the observation)"""
    problems = []
    if case['kind'] == 'round':
        w = [model_tree_of_input(t) for t in case['wbs']]
        w1 = [model_tree_of_obs(t, problems) for t in obs['w1']['roots']] if obs.get('rcode') == 0 else []
        texts = [x for t in w for x in tree_num_texts(t)] + [x for t in w1 for x in tree_num_texts(t)]
        texts += file_cells(obs.get('file1', '')) + file_cells(obs.get('file2', ''))
        tab = float_table(texts)
        wcode = obs.get('wcode', 19)
        rcode = obs.get('rcode', 19)
        # a later step that raised is reported as a file that cannot be equal
        file2 = obs.get('file2', '<write of the re-read WBS raised: %s>' % obs.get('w2exc')) if rcode == 0 else ''
        file3 = obs.get('file3', '<second cycle raised: %s %s>' % (obs.get('r2exc'), obs.get('w3exc'))) if rcode == 0 else ''
        term = '(CRound %s %s %d%%nat %s %d%%nat %s %s %s)' % (
            emit_tab(tab), emit_wbs(w), wcode, txt(obs.get('file1', '')), rcode, emit_wbs(w1), txt(file2), txt(file3))
        return term, problems
    w1 = [model_tree_of_obs(t, problems) for t in obs['w1']['roots']] if obs.get('rcode') == 0 else []
    meaning = None if case.get('meaning') is None else [model_tree_of_input(t) for t in case['meaning']]
    texts = [x for t in w1 for x in tree_num_texts(t)] + file_cells(case['file'])
    if meaning is not None:
        texts += [x for t in meaning for x in tree_num_texts(t)]
    tab = float_table(texts)
    term = '(CRead %s %s %d%%nat %s %s)' % (emit_tab(tab), txt(case['file']), obs['rcode'], emit_wbs(w1),
                                            'None' if meaning is None else '(Some %s)' % emit_wbs(meaning))
    return term, problems


def checker_fresh():
    """Csv/CsvCheck.vo exists and is not older than any source or compiled file it depends on (gen/Consts.v included)"""
    import os
    try:
        t = os.path.getmtime(os.path.join(build.COQ, 'Csv/CsvCheck.vo'))
        for rel in build.dep_cone('Csv/CsvCheck.v'):
            v = os.path.join(build.COQ, rel)
            if os.path.getmtime(v) > os.path.getmtime(v + 'o') or os.path.getmtime(v + 'o') > t:
                return False
        return True
    except OSError:
        return False


def evaluate(ctx, cases):
    # the executable checker Csv/CsvCheck.vo is not in the cone of the statement file: EXTRA_TARGETS has it built
    # (check_proofs); when a proof file of the cone is broken make stops early, so build the checker alone then - it depends on
    # definition files only, and the search for a failing input can go on
    if not checker_fresh():
        ok, log = build.make(16, targets=['Csv/CsvCheck.vo'])
        if not ok:
            raise InfraError('Csv/CsvCheck.v does not build: ' + log[-1500:])
    chunks = [cases[i:i + 60] for i in range(0, len(cases), 60)]
    outs = ctx.impl_run_many('c13_impl', chunks, jobs=8)
    obs = []
    for o in outs:
        if o['field_size_limit'] < 131072:
            raise InfraError('csv.field_size_limit() is %d' % o['field_size_limit'])
        obs += o['results']
    terms, probs, idx = [], [], []
    for i, (c, o) in enumerate(zip(cases, obs)):
        if c['kind'] == 'round' and o.get('build', 0) != 0:
            probs.append(None)
            continue
        t, p = emit_case(c, o)
        terms.append(t)
        probs.append(p)
        idx.append(i)
    codes_run = ctx.coq_codes('cases', HEADER, 'case', terms, 'check_case', shard=40 if ctx.tier == 'quick' else 120, jobs=14)
    codes = [None] * len(cases)
    for i, cd in zip(idx, codes_run):
        codes[i] = cd
    return obs, codes, probs


def flags_of(code):
    """the disagreement flags of a code (the domain bit is information, see in_domain)"""
    return [b for b in (1, 2, 4, 8, 16, 32, 64) if code & b]


def in_domain(code):
    return not (code & OUTSIDE_DOMAIN)


def brief(case, obs):
    o = {k: v for k, v in obs.items() if k in ('wcode', 'wexc', 'rcode', 'rexc', 'w2exc', 'r2exc', 'w3exc', 'py_diffs', 'enc_diffs', 'build_exc')}
    for k in ('file1', 'file2', 'file3'):
        if k in obs:
            o[k] = obs[k][:1500]
    return {'case': case, 'observed': o}


def decide(ctx, case, obs, code, probs, from_corpus):
    """turn one evaluated case into failure / mismatch entries; returns a label for the distribution"""
    info = brief(case, obs)
    info['from_corpus'] = from_corpus
    if obs.get('enc_diffs'):
        ctx.failure('C13/read_csv/encoding named by another spelling', '; '.join(obs['enc_diffs'][:4]), info)
    if case['kind'] == 'round':
        if obs.get('build', 0) != 0:
            ctx.infra_problem('generated WBS could not be built through the API: %s' % obs.get('build_exc'))
            return 'not-built'
        fl = flags_of(code)
        info['flags'] = [FLAGS[f] for f in fl]
        info['conversion_problems'] = probs
        bad_clause = [f for f in fl if f in (4, 16)]
        py = obs.get('py_diffs')
        if bad_clause or py or probs:
            clause = 'equivalence' if (4 in fl or py or probs) else 'fixpoint'
            what = ('write_csv then read_csv: ' + '; '.join([FLAGS[f] for f in bad_clause] + (py or [])[:4] + probs[:3]
                                                           + ([obs['rexc']] if obs.get('rexc') else [])))
            ctx.failure('C13/write_csv;read_csv/%s' % clause, what, info)
            return 'failure'
        if fl:
            ctx.mismatch('write_csv/read_csv: ' + '; '.join(FLAGS[f] for f in fl), info)
            return 'mismatch'
        return 'round-ok'
    fl = flags_of(code)
    info['flags'] = [FLAGS[f] for f in fl]
    info['conversion_problems'] = probs
    if case.get('malformed'):
        if 64 in fl:
            return 'malformed-outside-model'
        if fl or probs:
            ctx.mismatch('read_csv on a malformed file (%s): %s' % (','.join(case['how']), '; '.join([FLAGS[f] for f in fl] + probs[:3])), info)
            return 'mismatch'
        return 'malformed-exc' if obs['rcode'] != 0 else 'malformed-loaded'
    if 4 in fl or probs:
        ctx.failure('C13/read_csv/hand-written file (%s)' % ','.join(case['how']),
                    'a file in the layout does not load with its meaning: ' + '; '.join([FLAGS[f] for f in fl] + probs[:3]
                                                                                         + ([obs['rexc']] if obs.get('rexc') else [])), info)
        return 'failure'
    if fl:
        ctx.mismatch('read_csv on a hand-written file (%s): %s' % (','.join(case['how']), '; '.join(FLAGS[f] for f in fl)), info)
        return 'mismatch'
    return 'variant-ok'


def run(ctx):
    quick = ctx.tier == 'quick'
    n_round = 230 if quick else 3000
    n_var = 110 if quick else 1400
    n_mal = 80 if quick else 900
    layout = load_layout(ctx)
    cases = [dict(c) for c in CORPUS]
    rng = ctx.rng
    for _ in range(n_round):
        cases.append({'kind': 'round', 'wbs': gen_wbs(rng, 10 if quick else 16)})
    made = 0
    while made < n_var:
        v = gen_variant(rng, gen_wbs(rng, 8))
        if v is not None:
            cases.append(v)
            made += 1
    for _ in range(n_mal):
        cases.append(gen_malformed(rng, gen_wbs(rng, 4)))
    obs, codes, probs = evaluate(ctx, cases)
    dist = {}
    distinct = set()
    sizes = {'tasks': 0, 'max_depth': 0, 'hostile_texts': 0, 'custom_values': 0, 'dependencies': 0, 'id0_parents': 0}
    domain = {'round_cases_inside_theorem_domain': 0, 'round_cases_outside_theorem_domain': 0,
              'file_meanings_inside_theorem_domain': 0, 'file_meanings_outside_theorem_domain': 0}
    for i, (c, o, cd, pr) in enumerate(zip(cases, obs, codes, probs)):
        label = decide(ctx, c, o, cd if cd is not None else 0, pr or [], i < len(CORPUS))
        dist[label] = dist.get(label, 0) + 1
        if cd is not None and (c['kind'] == 'round' or c.get('meaning') is not None):
            domain[('round_cases_' if c['kind'] == 'round' else 'file_meanings_')
                   + ('inside' if in_domain(cd) else 'outside') + '_theorem_domain'] += 1
        if c['kind'] == 'read':
            for h in c['how']:
                dist['how:' + h] = dist.get('how:' + h, 0) + 1
            dist['read-outcome-%d' % o['rcode']] = dist.get('read-outcome-%d' % o['rcode'], 0) + 1
        else:
            for t in walk(c['wbs']):
                sizes['tasks'] += 1
                sizes['hostile_texts'] += sum(1 for f in ('name', 'resource') if any(ch in (t[f] or '') for ch in ';"\r\n'))
                sizes['custom_values'] += len(t['custom'])
                sizes['dependencies'] += len(t['preds'])
                sizes['id0_parents'] += 1 if (t['id'] == 0 and t['kids']) else 0
            sizes['max_depth'] = max(sizes['max_depth'], wbs_depth(c['wbs']))
        if nontrivial(c):
            distinct.add(json.dumps({k: c[k] for k in ('kind', 'wbs', 'file') if k in c}, sort_keys=True))
    dist.update(sizes)
    dist.update(domain)
    gen_cases = cases[len(CORPUS):]
    dist.update(corpus_cases=len(cases) - len(gen_cases),
                generated_round_cases=sum(1 for c in gen_cases if c['kind'] == 'round'),
                generated_hand_written_files=sum(1 for c in gen_cases if c['kind'] == 'read' and not c.get('malformed')),
                generated_malformed_files=sum(1 for c in gen_cases if c.get('malformed')))
    first_gen = len(CORPUS)
    ctx.coverage.update(
        evaluations=len(cases),
        distinct_nontrivial=len(distinct),
        rule='corpus (F19 witnesses, the repository test, boundary texts/dates) + random WBSs (0-%d tasks, depth <= 5, ids incl. 0, ' % (10 if quick else 16) +
             'negatives and > 2^32, id 0 as a parent, names/resources/custom values from a hostile pool: delimiter, quotes, CR, LF, CRLF, '
             'blanks, BOM, NUL, non-ASCII; sparse custom attributes of str/int/float/bool/None values and hostile attribute names; '
             'fractional and integer amounts; dates in 1969-2068 incl. both ends; min_start; milestones; acyclic dependencies) '
             '+ files derived from such WBSs by hand (LF line ends, BOM, all fields quoted, rows/columns reordered, no final newline, '
             'no min_start column) + malformed files (bad cells, short rows, blank lines, stray/open quotes, bare CR, missing '
             'columns); distinct = distinct cases by content; non-trivial = a file case, or a WBS with >= 2 tasks and one of: '
             'depth >= 2, a dependency, a text that needs quoting, a custom attribute',
        samples=[brief(cases[first_gen], obs[first_gen]), brief(cases[first_gen + n_round], obs[first_gen + n_round]),
                 brief(cases[-1], obs[-1])],
        distribution=dict(dist, files_read_again_with_another_spelling_of_the_encoding=sum(1 for o in obs if 'enc_diffs' in o)),
        traces_validated_against_impl=len(cases),
        layout_extracted_from_repo={k: layout.get(k) for k in SPEC_LAYOUT},
        domain_predicate='WbsSpec.wbs_ok_b (sound for the hypothesis wbs_ok of C13_rebuild/C13_roundtrip/C13_fix) evaluated in Coq on the WBS of '
                         'every round case and on the meaning of every hand-written file; counts in distribution.*_theorem_domain',
        comparison='bytes of every written file; re-read WBS field by field (exact) against the model reading of the same file; '
                   'property equivalence and fixpoint evaluated in Coq on the implementation output; the same equivalence in Python',
    )
    ctx.assumptions += ASSUMPTIONS


ASSUMPTIONS = [
    'Python float str/parse is a hypothesis of the theorems (WbsSpec.float_codec_ok: float(str x) = x; str x is not the empty text); '
    'it is evaluated, together with "str x needs no quoting", on every amount of every case of this run (flag 32)',
    'CPython csv (excel dialect, QUOTE_MINIMAL), str(int)/int(), strftime/strptime(%d.%m.%y), str(datetime)/fromisoformat, utf-8 '
    'codec and text files with newline=LF are modelled by hand (Csv/CsvModel.v, Csv/Fields.v); canonical cell forms only: the '
    'leniencies of int() (blanks, _, +) and strptime (one-digit day/month) are outside the model',
    'domain: integer ids other than sys.maxsize (the hidden root), unique; dependencies inside the WBS, acyclic, not between ancestor and '
    'descendant (the graph checks of the setters are not modelled); dates at midnight in 1969-2068; amounts finite floats/ints >= 0; '
    'custom attribute names not starting with _, not a default column, not a public name of class Task, without U+FEFF; '
    'cells shorter than csv.field_size_limit() = 131072; no lone surrogates (utf-8)',
]


def replay(ctx, rep):
    load_layout(ctx)
    if 'case' not in rep or 'case' not in rep['case']:
        raise InfraError('replay file holds no case (kind %s)' % rep.get('kind'))
    case = rep['case']['case']
    obs, codes, probs = evaluate(ctx, [case])
    print('replay: case %s' % json.dumps(case)[:3000])
    print('replay: implementation observed %s' % json.dumps(brief(case, obs[0])['observed'])[:3000])
    code = codes[0] if codes[0] is not None else 0
    print('replay: model verdict flags %s' % [FLAGS[f] for f in flags_of(code)])
    decide(ctx, case, obs[0], code, probs[0] or [], rep['case'].get('from_corpus', False))
    ctx.coverage.update(evaluations=1, distinct_nontrivial=1 if nontrivial(case) else 0, rule='replay of one case', samples=[case])
    ctx.assumptions += ASSUMPTIONS
