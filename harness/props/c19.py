"""C19 - renderings show every task and dependency exactly once with its real dates.

The Gallina model (Render/RModel.v) of MermaidGantt.__src, MermaidNetwork.__src and DhtmlxGantt.__data
is compared byte for byte with the implementation on generated scheduled WBSs, and the reference
readers of Render/RGrammar.v (Mermaid line grammars, JSON lexer + parser, HTML entity decoding) - for
which Props_C19.v proves that they find exactly the demanded entries in the model's text for all
inputs - are evaluated inside Coq on the text the IMPLEMENTATION produced.  A reader that finds other
entries than the property demands is a concrete failing input; a byte difference with the right entries
is a broken tie."""
import html
import json
from fractions import Fraction

from harness import common
from harness.common import z, coq_list, coq_opt, coq_bool, InfraError
from harness.constparts import render as tplmod

ID = 'C19'
PROPS_FILE = 'Props/Props_C19.v'
EXTRA_TARGETS = ['Render/RCheck.vo']
CONST_PARTS = ('render',)
DAY = 86400_000_000
HOUR = 3600_000_000
MIN = 60_000_000
BASE = 19723 * DAY          # 2024-01-01

HEADER = """From PJ Require Import Base.Prelude Render.RText Render.RJson Render.RModel Render.RCheck.
Open Scope Z_scope.
"""

# ---------- texts ---------------------------------------------------------------------------------
FRAGS = [
    'Design', 'Build', 'Test phase', 'A "quoted" name', "it's", '{curly}', '{{x}}', '<b>bold</b>', '$src', '${gantt_data}',
    '$', '$$', 'a:b', ':', 'x,y', ', done', '#1', '#', '50%', '%% comment', '%', ';', 'a;b', 'é', 'Ünïcödé', '日本語', '😀',
    '</script>', '</div>', '<script>alert(1)</script>', '}} --> 9{{x', '"}} --> 9{{"x', '\\', '\\"', '\\n', '\t', '\x01',
    '\x1f', '\x7f', '\x08', '\x0c', ' ', '&amp;', '&lt;', '&', "'", '`', '`md`', 'section X', 'title T', 'gantt',
    '2024-01-05 r', ' ', '  ', '#quot;', '#35;', 'click', '<!--<script>', ']]>', 'ﬂ°°', 'null', 'true',
    '/', '<\\/', 'u003c', '-->', '((Start))', '|', '[x]', '(y)', 'id_7', 'active', 'milestone, id_9, 01.01.2024 00:00',
    'style 1 fill:red', '"', '""', '<', '>', '</', '\ud800', 'End', 'Release 1.0', 'Выпуск',
]
SECTIONS = ['Dev', 'QA: x', '#1;', 'Ünï', '', 'section', '-', 'Ops, 2', '50%', '</div>', 'a"b']
RESOURCES = [None, None, 'Dev', 'Té"ster', 'Ops</script>']
BAR_STYLES = [{'fill': 'red'}, {'fill': '#ff0000', 'stroke': 'black'}, {'fill': 'white', 'stroke': '#23964d'},
              {'fill': 'green', 'progress': {'fill': 'blue'}}]
TEXT_STYLES = [{'fill': 'black'}, {'fill': '#fff', 'font-weight': 'bold'}]
NET_STYLES = [{'fill': '#f9f'}, {'fill': '#f9f', 'stroke': '#333', 'stroke-width': '4px'}, {}]
TITLES = [None, None, '', 'Plan 2024', 'Release: plan, v2']
TICKS = [None, None, '1week', '10day', '']
EXTRAS = [('owner', 'Bob "x"'), ('note', '</script>'), ('prio', 5), ('text', 'shadow'), ('tag', '<'), ('flag', True),
          ('ratio', 0.5), ('kéy', 'v'), ('link', 'a\\b')]
# user attributes whose NAMES are the keys of a DHTMLX data entry / link entry (the renderer must not let them
# overwrite what it computed), and near misses (which it must copy).  Names that are parameters of Task() (id,
# name, resource, start, end, milestone, estimate, spent, parent, min_start, ...) cannot be user attributes.
COLLIDING_NAMES = ['text', 'type', 'start_date', 'end_date', 'open', 'progress', 'css_class']
NEAR_NAMES = ['Progress', 'progress_', '_progress', 'progres', 'progress2', 'Text', 'text_', 'TYPE', 'start_date_', 'end_dat',
              'Open', 'parent_', 'Parent', 'css_class_', 'cssclass', 'id_', 'ID', 'Id', 'estimate_', 'Spent', 'resource_',
              'duration', 'source', 'target', 'links', 'data', 'render', 'color', '$virtual']
ATTR_VALUES = [75, 0, -1, 0.5, 1.5, 1e21, 'shadow', '75', '', 'true', '</script>', '"q"', True, False, None, [1, 'a'], {'k': 1},
               'é"<']


def gen_user_attrs(rng):
    """1-4 user attributes, at least one with the name of a DHTMLX property"""
    names = [rng.choice(COLLIDING_NAMES)] + rng.sample(COLLIDING_NAMES + NEAR_NAMES, rng.choice([0, 1, 2, 3]))
    seen, res = set(), []
    for k in names:
        if k not in seen:
            seen.add(k)
            res.append([k, rng.choice(ATTR_VALUES)])
    return res


# the adversarial alphabet of the property text (quotes, braces, angle brackets, '$', ':', non-ASCII) with the
# other characters the three target syntaxes give a meaning to
ALPHABET = list('"\'{}<>$:') * 3 + list('#;%,&\\`/|()[]=-!. ') + list('abxyzAZ019_') + list('\u00e9\u00fc\u00df\u0416\u65e5\u672c\U0001f600\u200b\ufb02\u00b0\u00b6') + ['\t', '\x01', '\x7f']


def gen_name(rng):
    r = rng.random()
    if r < 0.45:
        k = rng.choice([1, 1, 1, 2, 2, 3])
        sep = rng.choice(['', '', ' '])
        return sep.join(rng.choice(FRAGS) for _ in range(k))
    if r < 0.9:
        return ''.join(rng.choice(ALPHABET) for _ in range(rng.choice([1, 2, 3, 5, 8, 13])))
    # a fragment with random characters around it
    return (''.join(rng.choice(ALPHABET) for _ in range(rng.randint(0, 3))) + rng.choice(FRAGS)
            + ''.join(rng.choice(ALPHABET) for _ in range(rng.randint(0, 3))))


def gen_num(rng, none_ok=False):
    """a scheduler leaves a number in estimate and spent of every task (0 for milestones, roll-ups for summaries)"""
    r = rng.random()
    if none_ok and r < 0.1:
        return None
    if r < 0.6:
        return ['i', rng.choice([0, 0, 1, 2, 8, 8, 16, 40, 3])]
    return ['f', rng.choice([0.5, 7.5, 0.1, 2.5, 0.0, 8.0, 1.0, 0.3, 4.0, 1e-05, 12.25]).hex()]


def num_val(x):
    return None if x is None else (int(x[1]) if x[0] == 'i' else float.fromhex(x[1]))


def gen_time(rng):
    return (BASE + rng.randint(-20, 60) * DAY + rng.choice([0, 0, 9, 13, 23]) * HOUR + rng.choice([0, 0, 30, 45, 59]) * MIN
            + rng.choice([0, 0, 0, 10_000_000, 59_000_000]) + rng.choice([0, 0, 0, 5, 999_999]))


def gen_case(rng):
    n = rng.choice([0, 1, 1, 2, 2, 3, 3, 4, 4, 5, 6])
    ids = rng.sample(range(1, 60), n)
    if n and rng.random() < 0.1:
        ids[rng.randrange(n)] = rng.choice([10 ** 12, 2 ** 40 + 1, 1000000])
    levels = []
    for i in range(n):
        levels.append(0 if i == 0 else rng.randint(0, min(levels[-1] + 1, 3)))
    parent = []
    for i in range(n):
        p = None
        for j in range(i - 1, -1, -1):
            if levels[j] < levels[i]:
                p = j
                break
        parent.append(p)

    def ancestors(i):
        res = set()
        while parent[i] is not None:
            i = parent[i]
            res.add(i)
        return res

    rank = list(range(n))
    rng.shuffle(rank)
    has_child = [any(parent[j] == i for j in range(n)) for i in range(n)]
    tasks = []
    use_sections = rng.random() < 0.5
    one_section = rng.random() < 0.15
    sec_pool = rng.sample(SECTIONS, rng.choice([1, 2, 3]))
    for i in range(n):
        start = gen_time(rng)
        end = start + rng.choice([0, 0, DAY, 3 * DAY, 5 * HOUR + 17 * MIN, 10 * DAY + 1])
        preds = []
        if rng.random() < 0.6:
            cand = [j for j in range(n) if j != i and rank[j] < rank[i] and j not in ancestors(i) and i not in ancestors(j)]
            rng.shuffle(cand)
            preds = cand[:rng.choice([1, 1, 2, 3])]
        attrs = []
        if one_section:
            attrs.append(['gantt_section', sec_pool[0]])
        elif use_sections and rng.random() < 0.6:
            attrs.append(['gantt_section', rng.choice(sec_pool)])
        if rng.random() < 0.25:
            attrs.append(['gantt_open', rng.choice([True, False])])
        if rng.random() < 0.3:
            attrs.append(['gantt_bar_style', rng.choice(BAR_STYLES)])
        if rng.random() < 0.2:
            attrs.append(['gantt_text_style', rng.choice(TEXT_STYLES)])
        if rng.random() < 0.3:
            attrs.append(['network_bar_style', rng.choice(NET_STYLES)])
        if rng.random() < 0.3:
            for k, v in rng.sample(EXTRAS, rng.choice([1, 2])):
                attrs.append([k, v])
        if rng.random() < 0.3:
            have = {k for k, _ in attrs}
            attrs += [kv for kv in gen_user_attrs(rng) if kv[0] not in have]
        rng.shuffle(attrs)
        ms = (not has_child[i]) and rng.random() < 0.2
        tasks.append({
            'level': levels[i], 'id': ids[i], 'name': gen_name(rng), 'start': start, 'end': end, 'ms': ms,
            'resource': rng.choice(RESOURCES),
            'est': ['i', 0] if ms else gen_num(rng),
            'spent': gen_num(rng, none_ok=True),
            'min_start': gen_time(rng) if rng.random() < 0.15 else None,
            'preds': preds, 'attrs': attrs,
        })
    marks = [t['start'] for t in tasks] + [t['end'] for t in tasks]
    r = rng.random()
    if not marks or r < 0.15:
        clock = BASE - 400 * DAY
    elif r < 0.3:
        clock = BASE + 400 * DAY
    elif r < 0.6:
        clock = rng.choice(marks) + rng.choice([0, 0, 1, -1])
    else:
        clock = rng.randint(min(marks), max(marks))
    cfg = {'title': rng.choice(TITLES), 'weekends': rng.random() < 0.3, 'tick': rng.choice(TICKS),
           'height': rng.choice([300, 300, 450]), 'scale': rng.choice(['day', 'day', 'month', 'year', 'x']),
           'today_marker': rng.random() < 0.8}
    return {'clock': clock, 'cfg': cfg, 'tasks': tasks}


def T(i, name, level=0, start=BASE, end=BASE + DAY, ms=False, resource=None, est=('i', 8), spent=('i', 0), min_start=None,
      preds=(), attrs=()):
    return {'level': level, 'id': i, 'name': name, 'start': start, 'end': end, 'ms': ms, 'resource': resource,
            'est': list(est), 'spent': None if spent is None else list(spent), 'min_start': min_start, 'preds': list(preds),
            'attrs': [list(a) for a in attrs]}


CFG0 = {'title': None, 'weekends': False, 'tick': None, 'height': 300, 'scale': 'day', 'today_marker': True}


def C(tasks, clock=BASE - 30 * DAY, **cfg):
    c = dict(CFG0)
    c.update(cfg)
    return {'clock': clock, 'cfg': c, 'tasks': tasks}


CORPUS = [
    # --- the three witnesses of F22 (each fails on the unrepaired tree) ---
    C([T(1, 'A'), T(2, 'x}} --> 9{{y', preds=[0])]),                                    # network: added edge 2 --> 9
    C([T(1, 'see </div> here'), T(2, 'B')]),                                            # Mermaid div ends early
    C([T(1, 'a </script> b'), T(2, 'B', preds=[0])]),                                   # DHTMLX script ends inside the JSON
    # --- the same in other shapes, and the defects of the gantt task text found with them ---
    C([T(1, 'P'), T(2, 'S', level=1), T(3, 'a"}} --> 9{{x</script><b>', level=1, preds=[1]), T(4, 'M', ms=True, end=BASE, est=('i', 0), preds=[2])]),
    C([T(1, '<script>alert(1)</script>')]),                                             # element inside the Mermaid div
    C([T(1, '<!--<script>')]),                                                          # DHTMLX: script never ends
    C([T(1, 'Step #2'), T(2, 'B')]),                                                    # gantt: rest of the line is a comment
    C([T(1, '%% draft'), T(2, 'B')]),                                                   # gantt: line is a comment
    C([T(1, 'a;b')]),                                                                   # gantt: statement separator
    C([T(1, 'section Alpha'), T(2, 'B')]),                                              # gantt: task read as a section
    C([T(1, 'Title page')]),                                                            # gantt: task read as the title
    C([T(1, ''), T(2, 'B')]),                                                           # gantt: missing name
    C([T(1, '2024-01-05 release')]),                                                    # gantt: name read as a date
    C([T(1, 'A', attrs=[('gantt_section', 'QA: x')]), T(2, 'B', attrs=[('gantt_section', 'Dev')])]),  # section text with ':'
    C([T(1, 'Sum', est=('i', 8), spent=('i', 3)), T(2, 'leaf', level=1, est=('i', 8), spent=('i', 3))]),
    C([T(1, 'M', ms=True, end=BASE, est=('i', 0))], clock=BASE - DAY),
    # --- user attributes named like the properties of a DHTMLX entry must not replace them; near misses are copied ---
    C([T(1, 'x', est=('i', 40), spent=('i', 10), attrs=[('progress', 75), ('tracker_key', 'PRJ-1')])]),
    C([T(1, 'all', est=('i', 40), spent=('i', 10), resource='Dev',
         attrs=[(k, v) for k, v in zip(COLLIDING_NAMES, [75, 'milestone', '31-12-1999 00:00', 0, False, 7.5, 'evil'])]),
       T(2, 'near', preds=[0], attrs=[(k, ATTR_VALUES[i % len(ATTR_VALUES)]) for i, k in enumerate(NEAR_NAMES)])]),
    C([T(1, 'ended', est=('i', 8), spent=('i', 8), attrs=[('progress', -1), ('open', 'false'), ('text', None)]),
       T(2, 'ms', ms=True, end=BASE, est=('i', 0), attrs=[('type', 'task'), ('progress', '0.5'), ('Progress', 2)])], clock=BASE + 2 * DAY),
    # --- boundary cases ---
    C([]),
    C([T(1, 'only')], clock=BASE + 400 * DAY),
    C([T(1, 'a'), T(2, 'b', attrs=[('gantt_section', 'S')]), T(3, 'c'), T(4, 'd', attrs=[('gantt_section', 'S')])]),
    C([T(1, 'a', attrs=[('gantt_section', 'S')]), T(2, 'b', attrs=[('gantt_section', 'S')])]),        # one section: no section lines
    C([T(1, 'a', attrs=[('gantt_section', '-')]), T(2, 'b'), T(3, 'c', attrs=[('gantt_section', 'Z')])]),
    C([T(1, 'done', end=BASE), T(2, 'active', start=BASE - DAY, end=BASE + 1), T(3, 'future', start=BASE)], clock=BASE),
    C([T(1, 'r1'), T(2, 'c1', level=1), T(3, 'g1', level=2), T(4, 'c2', level=1), T(5, 'r2'), T(6, 'c3', level=1, preds=[1, 2])]),
    C([T(7, 'p', est=['i', 8], spent=['i', 3]), T(8, 'q', est=['i', 4], spent=['i', 10]), T(9, 'z', est=['i', 0], spent=['i', 1]),
       T(10, 'f', est=['f', (0.1).hex()], spent=['f', (0.05).hex()]), T(11, 'n', est=['i', 8], spent=None), T(12, 'tiny', est=['i', 40], spent=['f', (1e-05).hex()])]),
    C([T(1, 'x', start=BASE + 13 * HOUR + 45 * MIN + 10_000_005, end=BASE + DAY + 23 * HOUR + 59 * MIN + 59_999_999,
         min_start=BASE - DAY + 5)]),
    C([T(1, 'early', start=-30610224000000000, end=253402300799999999)]),               # years 1000 and 9999
    C([T(1, 'a', attrs=[('gantt_bar_style', {'fill': 'red'}), ('gantt_open', False)]),
       T(2, 'b', attrs=[('gantt_bar_style', {'fill': 'blue'}), ('network_bar_style', {'fill': '#f9f', 'stroke': '#333'})]),
       T(3, 'c', attrs=[('gantt_bar_style', {'fill': 'red'}), ('gantt_text_style', {'fill': 'black'}), ('text', 'shadow'), ('prio', 5)])]),
    C([T(1, 'q"uo\\te\x01\x1f\x7f\t/ <\\/   \ud800 😀 é', resource='R"</script>')], title='Plan: 1', weekends=True, tick='1week'),
    C([T(1, '"'), T(2, '`md`', preds=[0]), T(3, '#quot;#35;', preds=[0, 1])]),
    C([T(10 ** 12, 'big id'), T(5, 'x', level=1, preds=[])], scale='month', today_marker=False, height=450),
]


# ---------- the harness' view of a case ------------------------------------------------------------
def num_term(x):
    v = num_val(x)
    fr = Fraction(v)
    return '(mk_num %s %s %d%%positive)' % (tx(repr(v)), z(fr.numerator), fr.denominator)


def progress_repr(est, spent):
    """repr of the float the progress formula yields (the formula of the property, computed here in
    binary64 like any Python code would); '' when the float branch cannot be taken"""
    e, s = num_val(est), num_val(spent)
    if e is None or s is None or not e > 0:
        return ''
    return repr(1 - max(e - s, 0) / e)


def is_plain(c):
    o = ord(c)
    return 32 <= o < 127 or o == 10


def tx(s):
    """a text as a Gallina term (runs of printable ASCII as string literals, other code points as numbers)"""
    if s == '':
        return '[]'
    chunks = []
    i = 0
    while i < len(s):
        j = i
        if is_plain(s[i]):
            while j < len(s) and is_plain(s[j]):
                j += 1
            chunks.append('A "%s"' % s[i:j].replace('"', '""'))
        else:
            while j < len(s) and not is_plain(s[j]):
                j += 1
            chunks.append('C [%s]%%N' % '; '.join(str(ord(c)) for c in s[i:j]))
        i = j
    return '(tx [' + '; '.join(chunks) + '])'


def nn(n):
    return '%d%%N' % n


def task_term(case, ix):
    t = case['tasks'][ix]
    attrs = {k: v for k, v in t['attrs']}
    sec = attrs.get('gantt_section')
    opn = attrs.get('gantt_open')
    bar = attrs.get('gantt_bar_style')
    nst = attrs.get('network_bar_style')
    extra = coq_list(['(%s, %s)' % (tx(k), tx(str(v))) for k, v in t['attrs']])
    preds = coq_list(['(%s, %s)' % (nn(case['tasks'][j]['id']), tx(case['tasks'][j]['name'])) for j in t['preds']])
    return '(%d%%nat, mk_task %s %s %s %s %s %s %s %s %s %s %s %s %s %s %s %s)' % (
        t['level'], nn(t['id']), tx(t['name']), z(t['start']), z(t['end']), coq_bool(t['ms']),
        coq_opt(t['resource'], tx), coq_opt(t['est'], num_term), coq_opt(t['spent'], num_term),
        common.zopt(t['min_start']), preds, coq_opt(sec, tx), coq_opt(opn, coq_bool),
        coq_opt(bar, lambda d: tx(str(d))),
        coq_opt(nst, lambda d: coq_list(['(%s, %s)' % (tx(str(k)), tx(str(v))) for k, v in d.items()])),
        extra, tx(progress_repr(t['est'], t['spent'])))


def obs_term(o):
    return '(Some %s)' % tx(o[1]) if o[0] == 'ok' else 'None'


def case_term(case, obs):
    cfg = case['cfg']
    title = cfg['title'] if cfg['title'] else None
    tick = cfg['tick'] if cfg['tick'] else None
    return '(%s, mk_cfg %s %s %s, %s, (%s, %s, %s))' % (
        z(case['clock']), coq_opt(title, tx), coq_bool(cfg['weekends']), coq_opt(tick, tx),
        coq_list([task_term(case, i) for i in range(len(case['tasks']))]),
        obs_term(obs['gantt_src']), obs_term(obs['net_src']), obs_term(obs['dhtmlx_data']))


WHAT = {
    1: 'Mermaid gantt source: a reader of the text does not find exactly one task line per task with its id, dates to the minute, state and section',
    3: 'Mermaid network source: a reader of the text does not find exactly one edge per dependency / one Start edge per task without predecessors',
    5: 'DHTMLX data: the embedded JSON does not parse to one entry per task (id, name, dates, parent or 0, progress in 0..1) and one uniquely numbered link per dependency',
    7: 'DHTMLX data: the JSON text contains "<" and can end or re-open the script element it is embedded in',
    9: 'a renderer raised an exception on a scheduled WBS',
    2: 'Mermaid gantt source differs from the model byte for byte (entries are right)',
    4: 'Mermaid network source differs from the model byte for byte (entries are right)',
    6: 'DHTMLX data differs from the model byte for byte (entries are right)',
    8: 'a float printed by the implementation does not match the exact value of the formula',
}
SIG = {1: 'C19/gantt entries', 3: 'C19/network entries', 5: 'C19/json entries', 7: 'C19/script text', 9: 'C19/exception'}


def assemble(parts, values):
    out = []
    for i, p in enumerate(parts):
        out.append(p if i % 2 == 0 else values[p])
    return ''.join(out)


def scale_value(cfg):
    return {'day': 2, 'month': 1, 'year': 0}.get(cfg['scale'], 3)


def python_side(case, obs, tpl, wrappers):
    """Checks done on the whole documents in Python (the documents are long): each returns
    (kind for the Coq document oracle, document, inner text, what) for a difference."""
    diffs = []

    def ok(k):
        return obs[k][0] == 'ok'
    cfg = case['cfg']
    if ok('gantt_doc') and ok('gantt_src') and ok('gantt_styles'):
        want = assemble(tpl['mgantt'], {'styles': obs['gantt_styles'][1], 'src': html.escape(obs['gantt_src'][1])})
        if obs['gantt_doc'][1] != want:
            diffs.append((0, obs['gantt_doc'][1], obs['gantt_src'][1], 'C19/mermaid document',
                          'MermaidGantt.to_html() is not the template with the HTML-escaped source'))
    if ok('net_doc') and ok('net_src'):
        want = assemble(tpl['mnet'], {'src': html.escape(obs['net_src'][1])})
        if obs['net_doc'][1] != want:
            diffs.append((0, obs['net_doc'][1], obs['net_src'][1], 'C19/mermaid document',
                          'MermaidNetwork.to_html() is not the template with the HTML-escaped source'))
    if ok('dhtmlx_doc') and ok('dhtmlx_data') and ok('dhtmlx_classes_def') and ok('dhtmlx_columns'):
        want = assemble(tpl['dhtmlx'], {
            'readonly': 'true', 'row_height': '25', 'today_marker': 'true' if cfg['today_marker'] else 'false',
            'columns': obs['dhtmlx_columns'][1], 'scale': str(scale_value(cfg)),
            'task_classes_def': obs['dhtmlx_classes_def'][1], 'gantt_data': obs['dhtmlx_data'][1]})
        if obs['dhtmlx_doc'][1] != want:
            diffs.append((1, obs['dhtmlx_doc'][1], obs['dhtmlx_data'][1], 'C19/dhtmlx document',
                          'DhtmlxGantt.to_html() is not the template with the data text'))
    for key, dk, rk in (('mgantt', 'gantt_doc', 'gantt_repr'), ('mnet', 'net_doc', 'net_repr'), ('dhtmlx', 'dhtmlx_doc', 'dhtmlx_repr')):
        if ok(dk) and ok(rk):
            want = wrappers[key].format(html=html.escape(obs[dk][1]), height=cfg['height'])
            if obs[rk][1] != want:
                diffs.append((2, obs[rk][1], obs[dk][1], 'C19/repr',
                              '_repr_html_() of %s is not the iframe around the HTML-escaped document' % key))
    return diffs


def doc_terms_for(obs):
    """the document oracles evaluated in Coq for one case (six long texts)"""
    res = []
    for kind, dk, ik in ((0, 'gantt_doc', 'gantt_src'), (0, 'net_doc', 'net_src'), (1, 'dhtmlx_doc', 'dhtmlx_data'),
                         (2, 'gantt_repr', 'gantt_doc'), (2, 'net_repr', 'net_doc'), (2, 'dhtmlx_repr', 'dhtmlx_doc')):
        if obs[dk][0] == 'ok' and obs[ik][0] == 'ok':
            res.append(((kind, dk), '(%d%%nat, %s, %s)' % (kind, tx(obs[dk][1]), tx(obs[ik][1]))))
    return res


DOC_WHAT = {0: ('C19/mermaid document', 'the text of the <div class="mermaid"> element of the document does not decode to the Mermaid source'),
            1: ('C19/dhtmlx document', 'the script element of the document does not end with gantt.parse(<the JSON text>);'),
            2: ('C19/repr', 'the srcdoc attribute of _repr_html_() does not decode to to_html()')}


def load_fixed(ctx):
    """templates and iframe wrappers of the source as it is now.  Pieces of the repairs that the extractor does
    not find (unrepaired tree) are already reported by check_proofs as problems of the tie; the cases still run, so
    that the failing inputs are shown."""
    vals, tpl, problems = tplmod.extract(ctx.repo)
    missing = [k for k in ('mgantt', 'mnet', 'dhtmlx') if 'wrapper_' + k not in vals or k not in tpl]
    if missing:
        raise InfraError('constants extractor: templates / wrappers not found for %s: %s' % (missing, '; '.join(problems)))
    wrappers = {k: vals['wrapper_' + k] for k in ('mgantt', 'mnet', 'dhtmlx')}
    return tpl, wrappers


def preorder_ids(case):
    return [t['id'] for t in case['tasks']]


def evaluate(ctx, cases, doc_budget):
    """Runs implementation and model; returns (obs, codes, doc results)."""
    tpl, wrappers = load_fixed(ctx)
    chunks = [cases[i:i + 40] for i in range(0, len(cases), 40)]
    obs = [o for part in ctx.impl_run_many('c19_impl', chunks, jobs=12) for o in part]
    for c, o in zip(cases, obs):
        if 'build' in o:
            raise InfraError('the harness could not build a generated WBS through the API: %r on %s' % (o['build'], json.dumps(c)[:600]))
        if o['order'] != preorder_ids(c):
            raise InfraError('WBS.tasks order differs from the generated preorder: %r' % (o['order'],))
    terms = [case_term(c, o) for c, o in zip(cases, obs)]
    shard = max(4, min(40, (len(terms) + 13) // 14))
    codes = ctx.coq_codes('cases', HEADER, 'case', terms, 'check_case', shard=shard, jobs=14)
    # whole documents: Python comparison on every case, Coq oracle on the differing ones and on a sample
    py_diffs = []
    diff_jobs, sample_jobs = [], []          # (case index, kind, term, from a difference)
    for i, (c, o) in enumerate(zip(cases, obs)):
        diffs = python_side(c, o, tpl, wrappers)
        for kind, doc, inner, sig, what in diffs:
            py_diffs.append((i, sig, what))
            diff_jobs.append((i, kind, '(%d%%nat, %s, %s)' % (kind, tx(doc), tx(inner)), True))
        if i < doc_budget:
            for (kind, _), term in doc_terms_for(o):
                sample_jobs.append((i, kind, term, False))
    # the documents that differ from the expected text go to the oracle first (they used to be cut off by the budget of the
    # sample when they came late in the run: seed C19-S), then the sample
    doc_jobs = diff_jobs[:120] + sample_jobs[:max(6 * doc_budget, 60)]
    doc_codes = ctx.coq_codes('docs', HEADER, 'doc_case', [j[2] for j in doc_jobs], 'check_doc', shard=6, jobs=14) if doc_jobs else []
    return obs, codes, py_diffs, doc_jobs, doc_codes


def case_size(c):
    return (len(c['tasks']), sum(len(t['name']) for t in c['tasks']))


def report(ctx, cases, obs, codes, py_diffs, doc_jobs, doc_codes, n_corpus):
    fails = []
    for i, code in enumerate(codes):
        if code == 0:
            continue
        info = {'case': cases[i], 'from_corpus': i < n_corpus, 'code': code,
                'observed': {k: obs[i][k] for k in ('gantt_src', 'net_src', 'dhtmlx_data')}}
        if code == 20:
            raise InfraError('generated case outside the domain of the model: %s' % json.dumps(cases[i])[:800])
        if code in SIG:
            fails.append((case_size(cases[i]), SIG[code], WHAT[code], info))
        else:
            ctx.mismatch(WHAT.get(code, 'code %d' % code), info)
    bad_docs = set()
    for (i, kind, _, from_diff), code in zip(doc_jobs, doc_codes):
        if code != 0:
            sig, what = DOC_WHAT[kind]
            bad_docs.add((i, sig))
            fails.append((case_size(cases[i]), sig, what, {'case': cases[i], 'from_corpus': i < n_corpus, 'document_kind': kind}))
    for i, sig, what in py_diffs:
        if (i, sig) not in bad_docs:
            ctx.mismatch(what, {'case': cases[i], 'from_corpus': i < n_corpus})
    # the hand-written witnesses first (in corpus order: the F22 witnesses lead), then the smallest generated case
    order = {json.dumps(c, sort_keys=True): k for k, c in reversed(list(enumerate(cases[:n_corpus])))}
    fails.sort(key=lambda f: ((0, order.get(json.dumps(f[3]['case'], sort_keys=True), 0)) if f[3].get('from_corpus') else (1, f[0])))
    seen = set()
    for _, sig, what, info in fails:
        # one entry per clause and case is enough
        key = (sig, json.dumps(info['case'], sort_keys=True))
        if key in seen:
            continue
        seen.add(key)
        ctx.failure(sig, what, info)


HOSTILE = set('"\'{}<>$:,#;%&\\`') | {chr(i) for i in range(32)}


def nontrivial(c):
    """a case counts when it has a dependency or a hierarchy or a name with a syntax character"""
    return any(t['preds'] or t['level'] > 0 or (set(t['name']) & HOSTILE) or any(ord(ch) > 126 for ch in t['name'])
               for t in c['tasks'])


def run(ctx):
    n = 130 if ctx.tier == 'quick' else 2600
    doc_budget = 10 if ctx.tier == 'quick' else 60
    cases = list(CORPUS) + [gen_case(ctx.rng) for _ in range(n)]
    obs, codes, py_diffs, doc_jobs, doc_codes = evaluate(ctx, cases, doc_budget)
    report(ctx, cases, obs, codes, py_diffs, doc_jobs, doc_codes, len(CORPUS))
    distinct = set()
    dist = {'tasks': 0, 'dependencies': 0, 'milestones': 0, 'with_sections': 0, 'nested': 0, 'hostile_names': 0,
            'attrs_named_like_dhtmlx_properties': 0, 'attrs_near_misses': 0,
            'float_progress': 0, 'clock_before': 0, 'clock_inside': 0, 'clock_after': 0, 'documents_read_in_coq': len(doc_jobs)}
    for c in cases:
        if nontrivial(c):
            distinct.add(json.dumps(c, sort_keys=True))
        ts = c['tasks']
        dist['tasks'] += len(ts)
        dist['dependencies'] += sum(len(t['preds']) for t in ts)
        dist['milestones'] += sum(1 for t in ts if t['ms'])
        dist['with_sections'] += 1 if any(k == 'gantt_section' for t in ts for k, _ in t['attrs']) else 0
        dist['nested'] += 1 if any(t['level'] > 0 for t in ts) else 0
        dist['hostile_names'] += sum(1 for t in ts if set(t['name']) & HOSTILE)
        dist['attrs_named_like_dhtmlx_properties'] += sum(1 for t in ts for k, _ in t['attrs'] if k in COLLIDING_NAMES)
        dist['attrs_near_misses'] += sum(1 for t in ts for k, _ in t['attrs'] if k in NEAR_NAMES)
        dist['float_progress'] += sum(1 for t in ts if progress_repr(t['est'], t['spent']) and t['end'] >= c['clock'])
        if ts:
            lo, hi = min(t['start'] for t in ts), max(t['end'] for t in ts)
            dist['clock_before' if c['clock'] < lo else 'clock_after' if c['clock'] > hi else 'clock_inside'] += 1
    ctx.coverage.update(
        evaluations=len(cases),
        distinct_nontrivial=len(distinct),
        rule='scheduled WBSs of 0-6 tasks (hierarchy up to depth 3, acyclic dependencies, milestones, gantt_section / '
             'gantt_open / style attributes, user attributes (also named like the DHTMLX entry properties text, type, start_date, end_date, open, progress, css_class and near misses, values of several types), int and float estimates incl. 0 and spent > estimate, clock '
             'before / on a boundary of / inside / after the task dates) with names composed from a pool of fragments with '
             'quotes, braces, angle brackets, $, :, comma, #, %, ;, backslash, control characters, non-ASCII, </script>, '
             '</div>, Mermaid arrows and gantt keywords; distinct = distinct cases having a dependency, a nested task or a '
             'name with a syntax / non-ASCII character',
        samples=[{'case': cases[len(CORPUS)]}, {'case': cases[-1]}],
        distribution=dist,
        traces_validated_against_impl=len(cases),
        comparison='the three substituted texts byte for byte inside Coq; reference readers evaluated on the implementation\'s '
                   'texts; whole documents and _repr_html_() compared in Python on every case and read by the Coq document '
                   'oracles on a sample and on every differing one',
    )
    ctx.assumptions += [
        'Mermaid (gantt lexer, flowchart lexer, entity pre-pass) and DHTMLX/JSON.parse read the texts as the reference '
        'grammars of Render/RGrammar.v do; no JavaScript engine with Mermaid/DHTMLX is available offline',
        'an HTML parser ends the raw text of <div>/<script> at the first "<" that the template writes when the inserted text '
        'contains no "<"; the srcdoc attribute is decoded with the five character references html.escape writes',
        'float repr (estimate, spent, progress) is handed over by the harness and only checked to be a JSON number within '
        '1e-9 of the exact value; task ids are positive ints, names are str without newline / carriage return, estimate is a '
        'number (what a scheduler leaves; DhtmlxGantt raises TypeError on estimate None - observed, outside the property), '
        'dates have years 1000-9999, titles / tick intervals / style values are plain configuration text',
    ]


def replay(ctx, rep):
    case = rep['case']['case']
    obs, codes, py_diffs, doc_jobs, doc_codes = evaluate(ctx, [case], 1)
    print('replay: case %s' % json.dumps(case))
    for k in ('gantt_src', 'net_src', 'dhtmlx_data'):
        print('replay: implementation %s = %s' % (k, json.dumps(obs[0][k])[:3000]))
    print('replay: checker code %d (%s)' % (codes[0], WHAT.get(codes[0], 'agrees')))
    for (i, kind, _, _), code in zip(doc_jobs, doc_codes):
        if code != 0:
            print('replay: document oracle %s fails' % DOC_WHAT[kind][0])
    report(ctx, [case], obs, codes, py_diffs, doc_jobs, doc_codes, 0)
    ctx.coverage.update(evaluations=1, distinct_nontrivial=1, rule='replay of one case', samples=[case])
