"""Shared by the scheduler properties C02-C04, C06-C09, C14: case generator, emission of Gallina
case terms, evaluation (implementation runner + Coq checker), per-property decision by bit mask."""
import json

from harness import common
from harness.common import z, zopt, coq_list, coq_bool, InfraError

DAY = 86400_000_000
# 2029-01-01, a Monday.  The case clocks lie in the FUTURE of the real clock on purpose: a `now` captured when the
# module is imported (e.g. a default argument `now=datetime.now()`) is then earlier than the clock of every case, and
# work reserved "before the current day" shows up as a failing input instead of being masked
BASE_DAY = 21550
WINDOW_LO = BASE_DAY - 40
WINDOW_DAYS = 220
H = 3600_000_000

HEADER = """From PJ Require Import Base.Prelude Sched.Model Sched.Check Sched.Oracles Sched.Case.
Open Scope Z_scope.
"""

BITS = {'outcome': 1, 'dates': 2, 'rows': 4, 'c03': 8, 'c04': 16, 'c02': 32, 'c07': 64, 'c08': 128,
        'c09': 256, 'c06': 512, 'crash': 1024, 'model_oracle': 2048, 'illformed': 4096, 'foreign_rows': 8192}


# ---------- calendars on the dyadic grid --------------------------------------------------------------
def wk(days, u, st=None, en=None):
    return ['wdays', st, en, days, u]


def day_us(d, tod=0):
    return (BASE_DAY + d) * DAY + tod


def gen_calendar(rng):
    r = rng.random()
    I = lambda v: ['i', v]
    F = lambda v: ['f', float(v).hex()]
    if r < 0.25:
        return wk([0, 1, 2, 3, 4], I(8))
    if r < 0.35:
        return wk(sorted(rng.sample(range(7), rng.randint(1, 6))), rng.choice([I(8), I(4), I(2), I(16), F(0.5), I(1), I(32), I(32)]))
    if r < 0.45:
        return ['wdict', None, None, [[d, rng.choice([I(8), I(4), I(0), I(2), I(1), F(0.5)])] for d in sorted(rng.sample(range(7), rng.randint(1, 7)))]]
    if r < 0.55:   # weekly valid from/until a date, otherwise nothing / another calendar
        st = day_us(rng.randint(-5, 20)) if rng.random() < 0.7 else None
        en = day_us(rng.randint(21, 60), DAY - 1) if rng.random() < 0.5 else None
        inner = wk([0, 1, 2, 3, 4], I(8), st, en)
        if rng.random() < 0.6:
            return ['binc', 'or', inner, wk([0, 1, 2, 3, 4, 5], I(4))]
        if st is not None and en is None:
            return inner
        return ['binc', 'or', inner, wk([1, 3], I(2))]
    if r < 0.65:   # sparse dated days on top of a weekly calendar
        ents = [[day_us(rng.randint(-3, 40)), rng.choice([I(8), I(4), I(0), I(16), I(2)])] for _ in range(rng.randint(1, 8))]
        seen = set()
        ents = [e for e in ents if not (e[0] in seen or seen.add(e[0]))]
        return ['binc', 'or', ['dated', ents], wk([0, 1, 2, 3, 4], rng.choice([I(8), I(4)]))]
    if r < 0.72:   # holidays: weekly minus a fixed block
        return ['binc', 'sub', wk([0, 1, 2, 3, 4], I(8)), ['fixed', I(8), day_us(rng.randint(0, 10)), day_us(rng.randint(11, 20), DAY - 1)]]
    if r < 0.78:
        return ['binn', 'mul', wk([0, 1, 2, 3, 4], I(8)), rng.choice([F(0.5), I(2), F(0.25)])]
    if r < 0.84:
        return ['binn', 'div', wk([0, 1, 2, 3, 4, 5, 6], I(8)), rng.choice([I(2), I(4)])]
    if r < 0.9:
        return ['binc', 'add', wk([0, 2, 4], I(4)), wk([0, 1, 2, 3, 4], I(4))]
    if r < 0.94:   # only a few dated days, nothing else: easily exhausted
        ents = [[day_us(d), I(8)] for d in sorted(rng.sample(range(0, 30), rng.randint(1, 4)))]
        return ['dated', ents]
    if r < 0.97:   # never available
        return rng.choice([['fixed', I(0), None, None], wk([], I(8)), ['dated', []]])
    # available only until a date
    return wk([0, 1, 2, 3, 4], I(8), None, day_us(rng.randint(2, 12), DAY - 1))


# eighths of a unit; odd multi-day amounts (10.125, 20.625, 3.375 units) are not multiples of 0.01: any rounding of
# the work still to place ("float dust" clean-up) shows in the conservation clause
EST = [0, 1, 2, 4, 8, 8, 12, 16, 24, 32, 40, 64, 64, 100, 128, 200, 320, 81, 165, 27, 45, 331, 13, 75]


def gen_case(rng, force_dir=None):
    fwd = (rng.random() < 0.6) if force_dir is None else (force_dir == 'fwd')
    n = rng.choice([1, 2, 2, 3, 3, 4, 4, 5, 5, 6, 7, 8, 9, 10, 12])
    pb_day = rng.randint(0, 6)
    # (a bound with microseconds: a day start computed with replace(hour=0, minute=0, second=0) keeps them)
    pb_tod = rng.choice([0, 0, 0, 0, 10 * H, 6 * H, 18 * H + 30 * 60_000_000, 7 * H + 123_456, 13 * H + 500_000])
    pbound = day_us(pb_day, pb_tod)
    aim = rng.random() if fwd else 1.0      # aimed leaf (see below): 'late start, little work' / 'start before the clock'
    r = rng.random()
    if 0.07 <= aim < 0.12:
        r = 0.9                              # the clock lies after the project start
    if r < 0.45:
        now = pbound - rng.randint(1, 20) * DAY - rng.choice([0, 3 * H, 11 * H])
    elif r < 0.55:
        now = day_us(pb_day, rng.randint(0, max(pb_tod // H, 0)) * H) if pb_tod else pbound
    elif r < 0.65:
        now = pbound
    elif r < 0.75:
        now = day_us(pb_day, min(pb_tod + rng.randint(1, 5) * H, 23 * H))
    else:
        now = pbound + rng.randint(1, 9) * DAY + rng.choice([0, 9 * H, 15 * H + 1])
    now2 = None
    if fwd and now <= pbound:
        now2 = pbound - rng.choice([0, 1, 3 * H, DAY, 5 * DAY + 7 * H])
    names = ['a', 'b', None, 'c']
    depth = []
    tasks = []
    user_dates = fwd and rng.random() < 0.45 or (not fwd and rng.random() < 0.12)
    ids = rng.sample([0, -1, -7] + list(range(1, 40)), n)
    for i in range(n):
        parent = None
        if i > 0 and rng.random() < 0.55:
            cands = [j for j in range(i) if depth[j] < 3]
            if cands:
                parent = rng.choice(cands)
        depth.append(0 if parent is None else depth[parent] + 1)
        est = rng.choice(EST) if rng.random() < 0.85 else None
        spent = None
        q = rng.random()
        if q < 0.15:
            spent = 0
        elif q < 0.35 and est:
            spent = rng.choice([e for e in EST if e <= est])
        elif q < 0.42 and est is not None:
            spent = est + rng.choice([1, 8, 16])
        t = {'id': ids[i], 'parent': parent, 'resource': rng.choice(names), 'est': est, 'spent': spent,
             'est_float': rng.random() < 0.3, 'start': None, 'end': None, 'min_start': None,
             'milestone': rng.random() < 0.1}
        if user_dates and rng.random() < 0.3:
            k = rng.random()
            tod = rng.choice([0, 0, 10 * H, 15 * H + 20 * 60_000_000])
            if k < 0.4:      # start only: past or future
                t['start'] = now + rng.randint(-12, 12) * DAY - (now % DAY) + tod
            elif k < 0.7:    # end only, not in the future (forward refuses future ends)
                t['end'] = now - rng.randint(0, 15) * DAY - (now % DAY) + (tod if tod <= now % DAY else 0)
            else:
                e = now - rng.randint(0, 10) * DAY - (now % DAY)
                t['end'] = e
                t['start'] = e - rng.randint(0, 6) * DAY + (tod if rng.random() < 0.3 else 0) * 0
            if rng.random() < 0.06:
                t['end'] = now + rng.randint(1, 5) * DAY       # a fixed end in the future
        if fwd and rng.random() < 0.15:
            t['min_start'] = day_us(rng.randint(-3, 25), rng.choice([0, 0, 12 * H]))
        if rng.random() < 0.1:
            t['custom'] = {'tag': 'x%d' % i}
        tasks.append(t)
    for t in tasks:          # milestones are leaves (a milestone summary is outside the domain of C02/C07)
        if t['parent'] is not None:
            tasks[t['parent']]['milestone'] = False
    if aim < 0.12:
        # aimed: a leaf with a user-fixed start late in a day and so little work that the day fraction of its
        # last reservation falls BEFORE the start's time of day (the end must still not precede the start)
        leaves = [t for i, t in enumerate(tasks) if not any(u['parent'] == i for u in tasks)]
        t = rng.choice(leaves)
        if aim < 0.07:
            t.update(start=now - (now % DAY) + rng.randint(0, 9) * DAY + rng.choice([14 * H, 15 * H + 20 * 60_000_000, 22 * H]),
                     end=None, est=rng.choice([1, 2, 4, 8]), spent=rng.choice([None, None, 0]), milestone=False)
        else:
            # a user-fixed start some days BEFORE the clock with work left: nothing may be reserved before the clock's day
            t.update(start=now - (now % DAY) - rng.randint(1, 9) * DAY + rng.choice([0, 0, 10 * H]),
                     end=None, est=rng.choice([16, 64, 100, 200]), spent=rng.choice([None, 0, 8]), milestone=False)
    ext = []
    for j in range(rng.choice([0, 0, 0, 1, 1, 2])):
        e_end = day_us(rng.randint(-10, 12), rng.choice([0, 12 * H]))
        # ids are unique per tree, not globally: an outside task may carry the id of a member
        free_ids = [i for i in ids if i not in [e['id'] for e in ext]]
        x = {'id': rng.choice(free_ids) if free_ids and rng.random() < 0.3 else 100 + j, 'start': e_end - rng.randint(0, 5) * DAY, 'end': e_end,
             'in_wbs': rng.random() < 0.7, 'est': rng.choice([None, 8])}
        if rng.random() < (0.15 if fwd else 0.3):
            x[rng.choice(['start', 'end'])] = None          # an outside task that lacks one of its dates
            x['undated'] = True
        ext.append(x)
    links = []
    for _ in range(rng.choice([0, 1, 1, 2, 3, 4, 6]) if n > 1 else 0):
        a, b = rng.sample(range(n), 2)
        links.append([['t', a], ['t', b]])
    for j in range(len(ext)):
        for _ in range(rng.choice([1, 1, 2])):
            m = rng.randrange(n)
            # an outside task lacking a date is a SUCCESSOR of a member half of the time: only its predecessors are
            # refused by the pre-check, as a successor it reaches the passes with a None date
            if rng.random() < (0.5 if ext[j].pop('undated', False) else 0.75):
                links.append([['x', j], ['t', m]])
            else:
                links.append([['t', m], ['x', j]])
    rng.shuffle(links)
    supplied = []
    for nm in names:
        if rng.random() < 0.55:
            supplied.append({'name': nm, 'cal': gen_calendar(rng)})
    if rng.random() < 0.1:
        supplied.append({'name': 'unused', 'cal': wk([0, 1, 2, 3, 4], ['i', 8])})
    edits = []
    if supplied and rng.random() < 0.3:
        for r in rng.sample(supplied, rng.randint(1, len(supplied))):
            edits.append([r['name'], gen_calendar(rng)])
    # the first calculation and the observed one share the scheduler OBJECT in half of these cases (a scheduler
    # that remembers capacities across calculations must not answer with the calendar as it was)
    same_sched = bool(edits) and rng.random() < 0.6
    return {'edit_same_scheduler': same_sched, 'poke_getters': rng.random() < 0.12,'dir': 'fwd' if fwd else 'bwd', 'tasks': tasks, 'ext': ext, 'links': links, 'link_via_succ': rng.random() < 0.4,
            'edit_calendars': edits,
            'resources': supplied, 'balance': rng.random() < 0.7,
            'default_estimate': rng.choice([None, None, 0, 8, 64, 128]), 'pbound': pbound, 'now': now, 'now2': now2,
            'window_lo': WINDOW_LO, 'window_days': WINDOW_DAYS}


def gen_aimed_case(rng, force_dir=None, kind=None):
    """Structured scenarios that the uniform generator reaches rarely (each found through a seeded change that
    the random stream missed); amounts, calendars, clock, bound and root order stay random."""
    c = gen_case(rng, force_dir)
    fwd = c['dir'] == 'fwd'
    if kind is None:
        kind = rng.choice(['sideways', 'sideways', 'staggered', 'milestone-summary', 'stale-capacity', 'id-twin', 'tiny-share'] if fwd
                          else ['sideways', 'sideways', 'milestone-summary', 'stale-capacity', 'id-twin', 'tiny-share'])
    c['aimed'] = kind
    c['edit_calendars'] = []
    c['edit_same_scheduler'] = False
    c['ext'] = []
    ids = rng.sample(list(range(1, 60)), 16)
    est = lambda: rng.choice([8, 16, 32, 64, 64, 128, 200])
    res = lambda: rng.choice(['a', 'a', 'b', None])
    if kind == 'sideways':
        # a chain G > P1 > ... > c (depth 2-4); a dependency declared on an ancestor A at least two levels above the
        # deep task D of the chain (leaf or summary); another root X linked with D so that the pass can reach D
        # through X before it reaches G (root order random).  Forward: Z -> A, D -> X.  Backward: A -> Z, X -> D.
        depth = rng.randint(2, 4)
        # build the three root blocks separately, then concatenate them in a random order
        g = [T(ids[0], None, resource=res(), est=est())]
        chain_pos = [0]
        for k in range(depth):
            par = chain_pos[-1]
            g.append(T(ids[1 + k], par, resource=res(), est=est()))
            chain_pos.append(len(g) - 1)
            if rng.random() < 0.4:
                g.append(T(ids[8 + k], par, resource=res(), est=est()))     # a sibling on that level
        x = [T(ids[6], None, resource=res(), est=est())]
        z = [T(ids[7], None, resource=res(), est=rng.choice([64, 200, 320]))]
        order = [('G', g), ('X', x), ('Z', z)]
        rng.shuffle(order)
        if rng.random() < 0.5:
            order.append(('F', [T(ids[15], None, resource=res(), est=est())]))
            rng.shuffle(order)
        out, base = [], {}
        for name, blk in order:
            base[name] = len(out)
            for t in blk:
                t = dict(t)
                if t['parent'] is not None:
                    t['parent'] += base[name]
                out.append(t)
        a_level = rng.randint(0, len(chain_pos) - 3) if len(chain_pos) >= 3 else 0
        d_level = rng.randint(a_level + 2, len(chain_pos) - 1) if len(chain_pos) - 1 >= a_level + 2 else len(chain_pos) - 1
        A = base['G'] + chain_pos[a_level]
        D = base['G'] + chain_pos[d_level]
        X, Z = base['X'], base['Z']
        links = [[t_(Z), t_(A)], [t_(D), t_(X)]] if fwd else [[t_(A), t_(Z)], [t_(X), t_(D)]]
        if 'F' in base and len(chain_pos) >= 3 and rng.random() < 0.7:
            # a SECOND ancestor level carries a dependency of its own (on the filler root F): prerequisites are
            # inherited from every ancestor, not only from the nearest linked one
            lv = rng.choice([l for l in range(len(chain_pos) - 1) if l != a_level] or [a_level])
            A2 = base['G'] + chain_pos[lv]
            # the prerequisite of the OUTER level ends later than that of the inner one (else the inner bound hides it)
            outer_is_f = lv < a_level
            out[base['F']]['est'] = 320 if outer_is_f else rng.choice([8, 16])
            out[Z]['est'] = rng.choice([8, 16]) if outer_is_f else 320
            out[base['F']]['resource'], out[Z]['resource'] = 'b', 'c'
            links.append([t_(base['F']), t_(A2)] if fwd else [t_(A2), t_(base['F'])])
        if rng.random() < 0.3:
            links = [l for l in links if l[0] != t_(D) and l[1] != t_(D)] or links     # without the sideways entry
        c['tasks'], c['links'] = out, links
    elif kind == 'stale-capacity':
        # one resource, a handful of independent tasks on it, a first calculation, then the resource loses working days
        # (another calendar object, or - decided by the runner - the same calendar edited in place) and the SAME scheduler
        # object calculates again: whatever scheduler, resource or calendar remembered of the first calculation is wrong now
        out = [T(ids[i], None, resource='a', est=rng.choice([16, 32, 64, 64, 128])) for i in range(rng.randint(2, 5))]
        if rng.random() < 0.4:
            out.append(T(ids[9], None, resource='b', est=64))
        c['tasks'], c['links'] = out, ([[t_(0), t_(1)]] if rng.random() < 0.3 else [])
        c['resources'] = [r for r in c['resources'] if r['name'] != 'a'] + [{'name': 'a', 'cal': wk([0, 1, 2, 3, 4], ['i', 8])}]
        fewer = sorted(rng.sample([0, 1, 2, 3, 4], rng.randint(1, 3)))
        c['edit_calendars'] = [['a', rng.choice([wk(fewer, ['i', 8]), wk([0, 1, 2, 3, 4], ['i', rng.choice([2, 4])]),
                                                 ['wdict', None, None, [[d, ['i', 8 if d in fewer else 0]] for d in range(5)]]])]]
        c['edit_same_scheduler'] = rng.random() < 0.85
    elif kind == 'bound-day':
        # a calendar period that ends ON a day given as a date (midnight): that day belongs to the period.  Tasks of one
        # resource share days, so that the later one begins (backward: ends) at a fraction of a day and is still at work when
        # the bound day comes: the day must be used like any other.
        out = [T(ids[0], None, resource='a', est=rng.choice([96, 72, 40, 160])), T(ids[1], None, resource='a', est=rng.choice([200, 320, 400]))]
        if rng.random() < 0.4:
            out.append(T(ids[2], None, resource='a', est=rng.choice([16, 64])))
        c['tasks'], c['links'] = out, []
        # bound and clock at midnight, no dependencies, no fixed dates: the unchanged schedulers then ask the calendar at
        # midnight only, where the joined calendar is an ordinary function of the day (inside the model); the sampling of
        # other times of day by the runner's tabulation is switched off for these cases (`tod_calendars`)
        c['pbound'] = (c['pbound'] // DAY) * DAY
        c['now'] = c['pbound'] - rng.choice([1, 2, 5]) * DAY
        c['now2'] = None
        c['tod_calendars'] = True
        d0 = c['pbound'] // DAY - BASE_DAY
        k = rng.randint(1, 6)
        bound = day_us(d0 + k) if fwd else day_us(d0 - 1 - k)
        c['resources'] = [r for r in c['resources'] if r['name'] != 'a'] + \
            [{'name': 'a', 'cal': ['binc', 'or', wk([0, 1, 2, 3, 4, 5, 6], ['i', 8], None, bound), wk([0, 1, 2, 3, 4, 5, 6], ['i', 8], bound + DAY, None)]}]
        c['balance'] = True
    elif kind == 'stale-milestone':
        # a milestone that still carries dates of an old plan (in the past), with a prerequisite of its own, and a task that
        # waits for it and comes EARLIER in the WBS: the milestone must be re-placed before the task reads its end
        past = min(c['now'], c['pbound']) - rng.randint(3, 30) * DAY
        out = [T(ids[0], None, resource=res(), est=est()),                                   # waits for the milestone
               T(ids[1], None, resource=None, est=None, milestone=True, start=past, end=past),
               T(ids[2], None, resource=res(), est=rng.choice([64, 128, 200]))]              # the milestone waits for it
        if rng.random() < 0.5:
            out.append(T(ids[3], None, resource=res(), est=est()))
        c['tasks'], c['links'] = out, [[t_(2), t_(1)], [t_(1), t_(0)]]
    elif kind == 'mixed-siblings':
        # a summary that is NOT a root, whose children mix a child that takes part in a dependency with plain leaves before
        # and after it: the result must list them in the input order (clone wires every task, linked or not)
        out = [T(ids[0], None, resource=None, est=None),            # root summary R
               T(ids[1], 0, resource=None, est=None),                # P, the non-root summary
               T(ids[2], 1, resource=res(), est=est()),              # plain leaf
               T(ids[3], 1, resource=res(), est=est()),              # linked child
               T(ids[4], 1, resource=res(), est=est()),              # plain leaf
               T(ids[5], None, resource=res(), est=est())]           # X, the other end of the link
        if rng.random() < 0.5:
            out.insert(5, T(ids[6], 1, resource=res(), est=est()))   # one more plain leaf
        xi = len(out) - 1
        links = [[t_(xi), t_(3)]] if rng.random() < 0.5 else [[t_(3), t_(xi)]]
        c['tasks'], c['links'] = out, links
    elif kind == 'tiny-share':
        # a resource with 1024 units a day and amounts of an eighth of a unit: the share of a day that a task takes is a
        # few seconds (1/8192 of a day = 10.546875 s, still a whole number of microseconds); dates must encode it exactly
        out = [T(ids[i], None, resource='a', est=rng.choice([1, 1, 2, 3, 8, 8193, 8194, 16385, 4096, 8192]))
               for i in range(rng.randint(2, 5))]
        links = [[t_(0), t_(1)]] if rng.random() < 0.4 else []
        c['tasks'], c['links'] = out, links
        c['resources'] = [r for r in c['resources'] if r['name'] != 'a'] + [{'name': 'a', 'cal': wk([0, 1, 2, 3, 4], ['i', 1024])}]
        c['balance'] = rng.random() < 0.8
    elif kind == 'id-twin':
        # a task waits for (backward: releases) two DIFFERENT tasks that carry the same id: a member M of the WBS and a
        # dated task X of another WBS (ids are unique per WBS only).  The one that binds is X - it ends late (starts
        # early) - and it is named after M, on the task itself or on the task's parent.
        i = ids[0]
        out = [T(i, None, resource='a', est=rng.choice([8, 16])),            # M
               T(ids[1], None, resource=None, est=None),                      # P, a summary
               T(ids[2], 1, resource=res(), est=est()),                       # D, the task in question
               T(ids[3], None, resource=res(), est=est())]
        far = day_us(rng.randint(25, 40)) if fwd else day_us(-rng.randint(25, 40))
        c['ext'] = [{'id': i, 'start': far - 2 * DAY if fwd else far, 'end': far if fwd else far + 2 * DAY,
                     'in_wbs': rng.random() < 0.7, 'est': 8}]
        on_parent = rng.random() < 0.4
        tgt = 1 if on_parent else 2
        if fwd:
            links = [[t_(0), t_(2)], [['x', 0], t_(tgt)]]
        else:
            links = [[t_(2), t_(0)], [t_(tgt), ['x', 0]]]
        if rng.random() < 0.3:
            links.reverse()
        c['tasks'], c['links'] = out, links
    elif kind == 'milestone-summary':
        # a summary S that takes part in a dependency (backward: A -> S, forward: S -> A) and holds a MILESTONE whose
        # date lies outside the span of S's working children, because the milestone is tied to a long task P outside S
        # (backward: K -> P pulls K early; forward: P -> K pushes K late).  The dates of S must include the milestone:
        # the dependency on S is inherited by K.
        blocks = [('A', [T(ids[0], None, resource='b', est=rng.choice([8, 16, 64]))]),
                  ('S', [T(ids[1], None, resource=None, est=None),
                         T(ids[2], 0, resource=None, est=None, milestone=True),
                         T(ids[3], 0, resource=res(), est=rng.choice([8, 16]))]),
                  ('P', [T(ids[4], None, resource='c', est=rng.choice([200, 320, 400]))])]
        if rng.random() < 0.5:
            blocks[1][1].append(T(ids[5], 0, resource=res(), est=rng.choice([8, 32])))
        if rng.random() < 0.5:
            blocks[1][1][1], blocks[1][1][2] = blocks[1][1][2], blocks[1][1][1]       # the milestone is not the first child
        rng.shuffle(blocks)
        out, base = [], {}
        for name, blk in blocks:
            base[name] = len(out)
            for t in blk:
                t = dict(t)
                if t['parent'] is not None:
                    t['parent'] += base[name]
                out.append(t)
        S = base['S']
        K = [i for i in range(S + 1, len(out)) if out[i]['parent'] == S and out[i]['milestone']][0]
        A, P = base['A'], base['P']
        links = [[t_(A), t_(S)], [t_(K), t_(P)]] if not fwd else [[t_(S), t_(A)], [t_(P), t_(K)]]
        c['tasks'], c['links'] = out, links
    else:
        # several tasks of one resource released late (common predecessor on another resource or min_start) and each
        # filling whole days, FOLLOWED in WBS order by unconstrained tasks of the same resource: the later ones must
        # use the idle days before the release of the earlier ones
        k = rng.randint(2, 4)
        out = [T(ids[0], None, resource='b', est=rng.choice([64, 128, 192]))]
        links = []
        via_min = rng.random() < 0.3
        for i in range(k):
            t = T(ids[1 + i], None, resource='a', est=rng.choice([8, 16, 32, 64, 64, 128]))
            if via_min:
                t['min_start'] = day_us(rng.randint(2, 6))
            else:
                links.append([t_(0), t_(1 + i)])
            out.append(t)
        # the followers flow over several days and end INSIDE a day that a late-released task has partly booked
        # (the rows of one resource and day are then not adjacent in the reservation list)
        for i in range(rng.randint(1, 3)):
            out.append(T(ids[8 + i], None, resource='a', est=rng.choice([32, 64, 100, 128, 200, 320])))
        c['tasks'], c['links'] = out, links
        c['resources'] = [r for r in c['resources'] if r['name'] not in ('a', 'b')]
        if rng.random() < 0.5:
            c['resources'].append({'name': 'a', 'cal': wk([0, 1, 2, 3, 4], ['i', 8])})
        c['balance'] = rng.random() < 0.85
    return c


OFF_UNITS = [7, 5.6, 11, 13, 3, 7.5, 6, 0.7, 8, 9.1]
OFF_AMOUNTS = [0.1, 0.2, 0.3, 0.7, 1.1, 2.5, 3.3, 5.6, 7, 10.4, 13, 21.7, 40, 0.05, 33.3, 10.125, 20 / 3, 12.345, 1.005]


def gen_offgrid_case(rng):
    """capacities and amounts off the dyadic grid: only the oracles are evaluated (with a tolerance), no model run"""
    c = gen_case(rng)
    c['offgrid'] = True
    c.pop('edit_calendars', None)
    for t in c['tasks']:
        if t['est'] is not None and rng.random() < 0.8:
            t['est_raw'] = float(rng.choice(OFF_AMOUNTS) * rng.choice([1, 1, 2, 3])).hex()
            if t['spent'] is not None:
                t['spent_raw'] = float(rng.choice([0.0, 0.1, 0.3, 1.1, float.fromhex(t['est_raw']) / 3])).hex()
    res = []
    for nm in ['a', 'b', None, 'c']:
        if rng.random() < 0.8:
            u = rng.choice(OFF_UNITS)
            unit = ['i', u] if isinstance(u, int) else ['f', float(u).hex()]
            q = rng.random()
            if q < 0.6:
                cal = wk(sorted(rng.sample(range(7), rng.randint(3, 7))), unit)
            elif q < 0.8:
                cal = ['binc', 'or', ['dated', [[day_us(rng.randint(0, 20)), ['f', float(rng.choice(OFF_UNITS)).hex()]] for _ in range(3)]],
                       wk([0, 1, 2, 3, 4], unit)]
            else:
                cal = ['binn', 'mul', wk([0, 1, 2, 3, 4], ['i', 8]), ['f', float(rng.choice([0.7, 0.9, 0.35])).hex()]]
            res.append({'name': nm, 'cal': cal})
    c['resources'] = res
    return c


def gen_tod_calendar(rng):
    """a calendar whose validity begins / ends at a TIME OF DAY (outside the scheduler model, whose capacity is a
    function of the day): joins Monday 12:00, leaves Friday 15:30, ..."""
    I = lambda v: ['i', v]
    tod = lambda: rng.choice([6, 9, 12, 15, 18]) * H + rng.choice([0, 0, 30 * 60_000_000])
    st = day_us(rng.randint(-6, 12), tod()) if rng.random() < 0.8 else None
    en = day_us(rng.randint(13, 50), tod()) if rng.random() < 0.6 or st is None else None
    inner = rng.choice([wk([0, 1, 2, 3, 4], I(8), st, en), wk([0, 1, 2, 3, 4, 5, 6], I(rng.choice([4, 8])), st, en),
                        ['fixed', I(rng.choice([2, 8])), st, en]])
    r = rng.random()
    if r < 0.5:
        return inner
    if r < 0.8:
        return ['binc', 'or', inner, wk([1, 3], I(2))]
    return ['binc', 'add', inner, wk([0, 2, 4], I(4))]


def gen_tod_case(rng):
    """calendars with time-of-day bounds and a bound / clock inside a day: outside the model; the capacity of a day is
    the calendar's answer for the day's midnight and only the oracles are evaluated (like the off-grid stream)"""
    c = gen_case(rng)
    c['offgrid'] = True
    c['tod_calendars'] = True
    c['edit_calendars'] = []
    names = sorted(set(t['resource'] for t in c['tasks']), key=str)
    c['resources'] = [{'name': nm, 'cal': gen_tod_calendar(rng)} for nm in names if rng.random() < 0.85]
    if rng.random() < 0.8:
        pbd = rng.randint(-6, 14)
        c['pbound'] = day_us(pbd, rng.choice([0, 10, 13, 16, 19]) * H)
        c['now'] = c['pbound'] + rng.choice([-3 * DAY, -2 * H, 0, H, 5 * H])
        c['now2'] = None
        for t in c['tasks']:
            if t.get('end') is not None and t['end'] > c['now']:
                t['end'] = None
        # aimed: a calendar that becomes valid (or stops being valid) ON the day of the bound, at another time of day:
        # at midnight that day has no capacity although it has some at the time the scheduler is standing at
        for r in c['resources']:
            if rng.random() < 0.6:
                edge = day_us(pbd + rng.choice([0, 0, 0, 1, -1]), rng.choice([6, 8, 9, 12, 21]) * H)
                if c['dir'] == 'fwd':
                    r['cal'] = wk([0, 1, 2, 3, 4, 5, 6] if rng.random() < 0.6 else [0, 1, 2, 3, 4], ['i', 8], edge, None)
                else:
                    r['cal'] = wk([0, 1, 2, 3, 4, 5, 6] if rng.random() < 0.6 else [0, 1, 2, 3, 4], ['i', 8], None, edge)
    return c


def gen_milestone_summary_case(rng, force_dir=None):
    """a WBS in which some SUMMARY tasks are flagged as milestones: outside the domain of the scheduler theorems
    (WFin wants milestones to be leaves, C02 and C07 contradict each other there); run for the outcome and for the
    literal clauses that need no model (every task dated; reserved work of the working leaves)"""
    c = gen_case(rng, force_dir)
    c['edit_calendars'] = []
    c['outcome_only'] = True
    parents = sorted(set(t['parent'] for t in c['tasks'] if t['parent'] is not None))
    if not parents:
        c['tasks'].append(T(95, 0, resource=rng.choice(['a', 'b', None]), est=rng.choice([8, 64, 100])))
        parents = [0]
    for p in rng.sample(parents, rng.randint(1, len(parents))):
        c['tasks'][p]['milestone'] = True
        c['tasks'][p]['start'] = c['tasks'][p]['end'] = None
    return c


def gen_task_aware_case(rng, force_dir=None):
    """every resource is a user-defined IResource whose capacity depends on the task it is asked for (no capacity for
    some (task, day) pairs near the project bound): outside the scheduler model, whose capacity is a function of
    resource and day; judged on the literal clauses of C04 that need no model"""
    c = gen_case(rng, force_dir)
    c['edit_calendars'] = []
    c['ext'] = []
    c['links'] = [l for l in c['links'] if l[0][0] == 't' and l[1][0] == 't']
    c['outcome_only'] = True
    for t in c['tasks']:
        t['start'] = t['end'] = None            # every date is chosen by the scheduler
    names = []
    for t in c['tasks']:
        if t['resource'] not in names:
            names.append(t['resource'])
    have = [r['name'] for r in c['resources']]
    for nm in names:
        if nm not in have:
            c['resources'].append({'name': nm, 'cal': wk([0, 1, 2, 3, 4], ['i', 8])})
    fwd = c['dir'] == 'fwd'
    d0 = max(c['pbound'], c['now']) // DAY if fwd else c['pbound'] // DAY
    blocked = []
    leaves = [t for i, t in enumerate(c['tasks']) if not any(u['parent'] == i for u in c['tasks'])]
    for t in rng.sample(leaves, min(len(leaves), rng.randint(1, 3))):
        for k in rng.sample(range(0, 7), rng.randint(1, 4)):
            blocked.append([t['id'], d0 + k if fwd else d0 - 1 - k])
    c['task_aware'] = blocked
    # overtime: days without calendar capacity (the week ends around the bound) opened for one leaf each
    opened = []
    for t in rng.sample(leaves, min(len(leaves), rng.randint(0, 2))):
        for k in range(0, 9):
            opened.append([t['id'], d0 + k if fwd else d0 - 1 - k])
    c['task_aware_open'] = opened
    return c


def gen_overtime_case(rng, d):
    """aimed: one leaf with a little work whose whole reservation falls on a day that the calendar closes and the resource
    opens for this task only (backward: the Sunday before a Monday deadline; forward: the Saturday a project starts on)"""
    c = gen_task_aware_case(rng, d)
    t = dict(c['tasks'][0])
    # a full working week (the searches for a first day ask the resource without naming the task and skip the overtime
    # days next to the bound) and a rest that lands on the weekend beyond it
    t.update(parent=None, est=320 + rng.choice([16, 48, 64]), spent=None, start=None, end=None, min_start=None, milestone=False)
    c['tasks'] = [t]
    c['links'] = []
    c['resources'] = [{'name': t['resource'], 'cal': wk([0, 1, 2, 3, 4], ['i', 8])}]
    fwd = d == 'fwd'
    d0 = 21550 + rng.randint(0, 3) * 7
    while d0 % 7 != (2 if fwd else 4):          # day 0 is a Thursday: 2 = Saturday, 4 = Monday
        d0 += 1
    c['pbound'] = d0 * DAY
    c['now'] = c['pbound'] - 3 * DAY
    c['now2'] = None
    c['task_aware'] = []
    c['task_aware_open'] = [[t['id'], d0 + 7 + k if fwd else d0 - 8 - k] for k in range(2)]
    return c


def robust_date_problems(case, out):
    """C04's clauses that tie a working leaf's dates to its reservations, evaluated directly on an `outcome_only`
    observation: at most one reservation per day, all on days from the start day up to strictly before the end; forward: the
    start lies on the first reserved day and the end within the 24 hours following the last reserved day's midnight;
    backward: the start lies within the first reserved day"""
    probs = []
    fwd = case['dir'] == 'fwd'
    for k in out.get('work', []):
        dates = k.get('row_dates') or []
        if not dates or not k['leaf'] or k['milestone']:
            continue
        if any(d % DAY for d in dates):
            probs.append('task %r: a reservation is not dated by a midnight' % (k['id'],))
            continue
        ds = sorted(d // DAY for d in dates)
        if len(set(ds)) != len(ds):
            probs.append('task %r: two reservations on one day' % (k['id'],))
        st, en = k['start'], k['end']
        if st is None or en is None:
            probs.append('task %r: no dates' % (k['id'],))
            continue
        if ds[0] < st // DAY or not ds[-1] * DAY < en:
            probs.append('task %r: reservations on days %s..%s outside [start day %s, end %s)' % (k['id'], ds[0], ds[-1], st // DAY, en))
        if fwd:
            if not k['user_start'] and st // DAY != ds[0]:
                probs.append('task %r: chosen start on day %s, first reservation on day %s' % (k['id'], st // DAY, ds[0]))
            if not k['user_end'] and not (ds[-1] * DAY <= en <= (ds[-1] + 1) * DAY):
                probs.append('task %r: end %s not within the 24 hours after the midnight of the last reserved day %s' % (k['id'], en, ds[-1]))
        elif not k['user_start'] and not (ds[0] * DAY <= st <= (ds[0] + 1) * DAY):
            probs.append('task %r: start %s not within the first reserved day %s' % (k['id'], st, ds[0]))
    return probs


def robust_work_problems(case, out):
    """C04's conservation clause evaluated directly on an `outcome_only` observation (exact rationals)"""
    from fractions import Fraction
    probs = []
    fwd = case['dir'] == 'fwd'
    de = Fraction(case.get('default_estimate') or 0, 8)
    for k in out.get('work', []):
        res = Fraction(k['reserved'])
        works = k['leaf'] and not k['milestone'] and not (fwd and k['user_end'])
        if works:
            est = Fraction(k['est']) if k['est'] is not None else de
            left = max(est - (Fraction(k['spent']) if k['spent'] is not None else 0), 0)
            if res != left:
                probs.append('task %r: %s reserved, %s left to do' % (k['id'], res, left))
        elif res != 0 and not (k['leaf'] and not k['milestone']):
            probs.append('task %r is a %s and has %s reserved' % (k['id'], 'milestone' if k['milestone'] else 'summary', res))
    return probs


def T(id, parent=None, **kw):
    d = {'id': id, 'parent': parent, 'resource': 'a', 'est': 64, 'spent': None, 'est_float': False, 'start': None,
         'end': None, 'min_start': None, 'milestone': False}
    d.update(kw)
    return d


def C(dir, tasks, links=(), ext=(), resources=(), balance=True, de=None, pb=day_us(0), now=day_us(-7), now2=None, **kw):
    d = {'dir': dir, 'tasks': list(tasks), 'ext': list(ext), 'links': [list(l) for l in links], 'link_via_succ': False,
         'resources': list(resources), 'balance': balance, 'default_estimate': de, 'pbound': pb, 'now': now, 'now2': now2,
         'window_lo': WINDOW_LO, 'window_days': WINDOW_DAYS}
    d.update(kw)
    return d


t_ = lambda i: ['t', i]
x_ = lambda i: ['x', i]

# hand-written cases: witnesses of the repaired defects F11-F15, F24, the two found while modelling
# (fixed non-midnight start; end clamped to the clock), unschedulable classes, boundary cases
CORPUS = [
    # F11: task 3 (child of 2) reached first through its successor 4; parent 2 waits for 1
    C('fwd', [T(4), T(1, est=320), T(2), T(3, parent=2)], links=[(t_(1), t_(2)), (t_(3), t_(0))]),
    C('bwd', [T(1), T(2), T(3, parent=1), T(4, est=320)], links=[(t_(1), t_(3)), (t_(0), t_(2))]),
    # F12: summary start with a non-midnight project start
    C('fwd', [T(1), T(2, parent=0), T(3, parent=0, resource='b')], pb=day_us(0, 6 * H)),
    # F13: cycle that closes through the hierarchy: A in P waits for B, B waits for P
    C('fwd', [T(1), T(2, parent=0), T(3)], links=[(t_(2), t_(1)), (t_(0), t_(2))]),
    C('bwd', [T(1), T(2, parent=0), T(3)], links=[(t_(2), t_(1)), (t_(0), t_(2))]),
    # F14: backward, balancing off, two tasks on one day
    C('bwd', [T(1, est=32), T(2, est=32), T(3, est=64)], balance=False, pb=day_us(12)),
    # F15: fixed start earlier than the clock / the project start, clock <= project start
    C('fwd', [T(1, start=day_us(-20), est=64)], now=day_us(-3, 9 * H), now2=day_us(-10)),
    # F24: fixed end, no start
    C('fwd', [T(1, end=day_us(-200)), T(2)], now=day_us(2), pb=day_us(0)),
    # fixed start at a time of day later than the encoded end
    C('fwd', [T(1, start=day_us(8, 10 * H), est=8)], now=day_us(0, 9 * H), pb=day_us(0, 10 * H)),
    # end clamped to the clock although clock <= project start
    C('fwd', [T(1, est=8)], now=day_us(0, 9 * H), pb=day_us(0, 10 * H), now2=day_us(0, 8 * H)),
    # unschedulable: outside predecessor without dates, fixed end in the future, resource never available
    C('fwd', [T(1)], ext=[{'id': 100, 'start': None, 'end': day_us(3), 'in_wbs': True}], links=[(x_(0), t_(0))]),
    C('fwd', [T(1, end=day_us(30))], now=day_us(1)),
    C('fwd', [T(1, resource='z')], resources=[{'name': 'z', 'cal': ['fixed', ['i', 0], None, None]}]),
    C('bwd', [T(1, resource='z')], resources=[{'name': 'z', 'cal': ['wdays', day_us(40), None, [0, 1, 2, 3, 4], ['i', 8]]}], pb=day_us(10)),
    # milestones, outside predecessor with dates, zero work, spent above estimate, default estimate
    C('fwd', [T(1, est=80), T(2, milestone=True), T(3, est=0), T(4, est=8, spent=16), T(5, est=None)],
      links=[(t_(0), t_(1)), (x_(0), t_(2))], ext=[{'id': 100, 'start': day_us(1), 'end': day_us(4, 12 * H), 'in_wbs': True}], de=64),
    C('bwd', [T(1, est=80), T(2, milestone=True), T(3, est=0), T(4, est=8, spent=16), T(5, est=None)],
      links=[(t_(0), t_(1))], de=64, pb=day_us(20, 10 * H)),
    # competing tasks on a sparse fractional calendar, both balance settings
    C('fwd', [T(i, est=e, resource='s') for i, e in enumerate([12, 4, 20, 1, 8])],
      resources=[{'name': 's', 'cal': ['wdict', None, None, [[0, ['i', 8]], [1, ['f', (0.5).hex()]], [3, ['i', 2]], [5, ['i', 1]]]]}]),
    C('fwd', [T(i, est=e, resource='s') for i, e in enumerate([12, 4, 20, 1, 8])], balance=False,
      resources=[{'name': 's', 'cal': ['wdict', None, None, [[0, ['i', 8]], [1, ['f', (0.5).hex()]], [3, ['i', 2]], [5, ['i', 1]]]]}]),
    C('bwd', [T(i, est=e, resource='s') for i, e in enumerate([12, 4, 20, 1, 8])], pb=day_us(30),
      resources=[{'name': 's', 'cal': ['wdict', None, None, [[0, ['i', 8]], [1, ['f', (0.5).hex()]], [3, ['i', 2]], [5, ['i', 1]]]]}]),
    # the README-style example: two tasks on one default resource, clock before start
    C('fwd', [T(1, est=80, resource='default'), T(2, est=128, resource='default')], pb=day_us(0), now=day_us(-30)),
    # clock after the project start
    C('fwd', [T(1, est=80), T(2, est=16, min_start=day_us(9))], pb=day_us(0), now=day_us(3, 15 * H)),
    # triggers of seeded changes that the random stream reaches rarely
    # (C02-A) two nested summaries that BOTH wait for somebody, the outer prerequisite ending later than the inner one
    C('fwd', [T(1, est=320, resource='b'), T(2, est=8, resource='c'), T(10), T(11, parent=2), T(12, parent=3),
              T(13, parent=3, milestone=True)], links=[(t_(0), t_(2)), (t_(1), t_(3))]),
    C('bwd', [T(10), T(11, parent=0), T(12, parent=1), T(1, est=320, resource='b'), T(2, est=8, resource='c')],
      links=[(t_(0), t_(3)), (t_(1), t_(4))], pb=day_us(40)),
    # (C14-A) an outside SUCCESSOR that lacks its start (only outside predecessors are refused): it is ignored
    C('bwd', [T(1), T(2)], ext=[{'id': 100, 'start': None, 'end': day_us(3), 'in_wbs': True}], links=[(t_(0), x_(0))], pb=day_us(10)),
    C('bwd', [T(1), T(2, parent=0)], ext=[{'id': 100, 'start': None, 'end': day_us(3), 'in_wbs': False}],
      links=[(t_(0), x_(0)), (t_(1), x_(0))], pb=day_us(10)),
    C('fwd', [T(1)], ext=[{'id': 100, 'start': day_us(3), 'end': None, 'in_wbs': True}], links=[(t_(0), x_(0))]),
]


# ---------- emission --------------------------------------------------------------------------------
def nat(n):
    return '%d%%nat' % n


def natlist(l):
    return '[' + '; '.join(str(x) for x in l) + ']%nat'


def emit_itask(k):
    return '(Build_itask %s %s %s %s %s %s %s %s %s %s %s %s)' % (
        'None' if k['parent'] is None else '(Some %s)' % nat(k['parent']),
        natlist(k['children']), natlist(k['preds']), natlist(k['succs']), coq_bool(k['ext']), coq_bool(k['milestone']),
        nat(k['res']), zopt(k['est']), zopt(k['spent']), zopt(k['start']), zopt(k['end']), zopt(k['min_start']))


def emit_rescal(r):
    return '(Build_rescal %s %s %s %s)' % (z(r['lo']), coq_list([str(v) for v in r['tab']]),
                                           coq_list([str(v) for v in r['pre']]), coq_list([str(v) for v in r['post']]))


def emit_osch(o):
    tasks = coq_list(['(%s, %s, %s, %s)' % tuple(zopt(v) for v in t) for t in o['tasks']])
    rows = coq_list(['(%s, %s, %s, %s)' % (nat(r[0]), z(r[1]), nat(r[2]), z(r[3])) for r in o['rows']])
    return '(Build_osch %s %s)' % (tasks, rows)


EMPTY_OSCH = '(Build_osch [] [])'


def emit_case(case, out):
    fwd = case['dir'] == 'fwd'
    obs = out.get('obs')
    K = out.get('K', 8)
    return '(Build_scase %s %s %s %s %s %s %s %s %s %s %s %s %s %s %s %s)' % (
        coq_bool(fwd), coq_list([emit_itask(k) for k in out['w']]), coq_list([emit_rescal(r) for r in out['rs']]),
        coq_list([coq_bool(b) for b in out['supplied']]), z(8 * K),
        coq_bool(case['balance']), z((case['default_estimate'] or 0) * (K // 8)), z(case['pbound']), z(case['now']),
        nat(out['outcome']),
        emit_osch(obs) if obs else EMPTY_OSCH,
        coq_list(['(%s, %s, %s)' % (nat(a), z(b), z(c)) for a, b, c in obs['reserved']]) if obs else '[]',
        natlist(obs['resources']) if obs else '[]%nat',
        zopt(obs['wstart']) if obs else 'None', zopt(obs['wend']) if obs else 'None',
        coq_list([emit_osch(o) for o in out.get('again', [])]))


# ---------- evaluation ------------------------------------------------------------------------------
OFF_HEADER = HEADER.replace('Sched.Case.', 'Sched.Case Sched.CaseOff.')


def evaluate(ctx, cases, jobs=12):
    chunks = [cases[i:i + 25] for i in range(0, len(cases), 25)]
    outs = [o for part in ctx.impl_run_many('sched_impl', chunks, jobs=jobs) for o in part]
    kept = [(c, o) for c, o in zip(cases, outs) if 'offgrid' not in o]
    if ctx.pid == 'C06':
        for c, o in zip(cases, outs):
            if o.get('shape_only'):
                # a case that cannot be compared with the model (clone() changed the order) still shows the clause of C06 that
                # needs no model: the returned WBS has the ids, hierarchy and sibling order of the input
                ctx.failure('C06/%s/shape' % c['dir'], 'the returned WBS differs from the input in: %s' % ', '.join(o['shape_only'][:6]),
                            {'case': c, 'observed': o})
    # a usage report with rows of tasks/resources that are not in the returned schedule cannot be related to
    # it at all (and may be arbitrarily large): such an observation is not sent to Coq, it is reported as it is
    foreign = set(i for i, (c, o) in enumerate(kept) if (o.get('obs') or {}).get('row_unknown_task_or_resource'))
    grid = [i for i, (c, o) in enumerate(kept) if not c.get('offgrid') and i not in foreign]
    off = [i for i, (c, o) in enumerate(kept) if c.get('offgrid') and i not in foreign]
    codes = [0] * len(kept)
    for i in foreign:
        codes[i] = BITS['foreign_rows']
    gcodes = ctx.coq_codes('sched', HEADER, 'scase', [emit_case(*kept[i]) for i in grid], 'check_case', shard=40, jobs=jobs, timeout=240)
    for i, c in zip(grid, gcodes):
        codes[i] = c
    # off the dyadic grid: oracles only, exact rationals scaled by K, tolerance 2e-9 of a 16-unit day on the capacity bound
    byk = {}
    for i in off:
        byk.setdefault(kept[i][1]['K'], []).append(i)
    for K, ixs in byk.items():
        eps = K * 32 // 10 ** 9 + 1
        ocodes = ctx.coq_codes('schedoff%d' % (K.bit_length()), OFF_HEADER, 'scase', [emit_case(*kept[i]) for i in ixs],
                               '(check_offgrid %d)' % eps, shard=40, jobs=jobs, timeout=240)
        for i, c in zip(ixs, ocodes):
            codes[i] = c
    return outs, kept, codes


def classify(case, out):
    """structural features of a case, for the distribution and the non-triviality rule"""
    w = [k for k in out['w'] if not k['ext']]
    f = []
    if any(k['children'] for k in w):
        f.append('hierarchy')
    if any(k['preds'] for k in w):
        f.append('links')
    if any(k['children'] and (k['preds'] or k['succs']) for k in w):
        f.append('links_on_summaries')
    if any(k['ext'] for k in out['w']):
        f.append('outside_tasks')
    if any(k['start'] is not None or k['end'] is not None for k in w if not k['children']):
        f.append('user_dates')
    if any(k['milestone'] for k in w):
        f.append('milestones')
    if case['pbound'] % DAY:
        f.append('non_midnight_bound')
    if case['now'] > case['pbound']:
        f.append('clock_after_start')
    res_count = {}
    for k in w:
        if not k['children']:
            res_count[k['res']] = res_count.get(k['res'], 0) + 1
    if any(v > 1 for v in res_count.values()):
        f.append('competition')
    return f


def run_property(ctx, pid, fail_bits, mismatch_bits, dirs=('fwd', 'bwd'), extra=None, n_quick=260, n_thorough=4000,
                 extra_cases=None, offgrid_fail=0, n_off_quick=70, n_off_thorough=1500):
    """Generic body of a scheduler property check.
    fail_bits: oracle bits whose being set means the property fails on the implementation's output;
    mismatch_bits: correspondence bits that this property ties to the model."""
    n = n_quick if ctx.tier == 'quick' else n_thorough
    cases = [c for c in CORPUS if c['dir'] in dirs]
    n_corpus = len(cases)
    while len(cases) < n_corpus + n:
        fd = None if len(dirs) == 2 else dirs[0]
        cases.append(gen_aimed_case(ctx.rng, fd) if ctx.rng.random() < 0.16 else gen_case(ctx.rng, fd))
    # scenarios added later draw from a stream of their own (the main stream, and what it is known to reach, stays as it was)
    import random as _random
    rng2 = _random.Random('%s/later-scenarios/%s' % (pid, ctx.seed))
    for fd in dirs:
        cases += [gen_aimed_case(rng2, fd, kind='bound-day') for _ in range(6 if ctx.tier == 'quick' else 60)]
        cases += [gen_aimed_case(rng2, fd, kind='mixed-siblings') for _ in range(3 if ctx.tier == 'quick' else 30)]
        if fd != 'bwd':
            cases += [gen_aimed_case(rng2, 'fwd', kind='stale-milestone') for _ in range(3 if ctx.tier == 'quick' else 30)]
    if extra_cases:      # a property's own additional stream (callable: drawn after the common stream)
        cases += list(extra_cases(ctx) if callable(extra_cases) else extra_cases)
    n_off = 0
    if offgrid_fail:
        n_off = n_off_quick if ctx.tier == 'quick' else n_off_thorough
        n_tod = n_off // 3
        while n_off > 0:
            c = gen_tod_case(ctx.rng) if n_off <= n_tod else gen_offgrid_case(ctx.rng)
            if c['dir'] in dirs:
                cases.append(c)
                n_off -= 1
    if offgrid_fail:
        # off-grid amounts a hair above what a day holds (8.004 on an 8-unit day: the rest must go to the next day), from
        # the stream of the later scenarios
        for fd in dirs:
            for _ in range(4 if ctx.tier == 'quick' else 40):
                c = gen_offgrid_case(rng2)
                c['dir'] = fd
                c['ext'] = []
                c['links'] = []
                c['edit_calendars'] = []
                c['tasks'] = [dict(t, parent=None, resource='a', start=None, end=None, min_start=None, milestone=False, spent=None, spent_raw=None,
                                   est=8, est_raw=float(8 * rng2.choice([1, 1, 2, 3]) + rng2.choice([0.004, 0.009, 0.0005, 0.002])).hex())
                              for t in c['tasks'][:rng2.randint(1, 3)]]
                c['resources'] = [{'name': 'a', 'cal': wk([0, 1, 2, 3, 4], ['i', 8])}]
                c['aimed'] = 'near-capacity'
                cases.append(c)
    outs, kept, codes = evaluate(ctx, cases)
    dist = {'offgrid_stream': sum(1 for c, _ in kept if c.get('offgrid')), 'time_of_day_calendar_stream': sum(1 for c, _ in kept if c.get('tod_calendars')), 'calendar_edited_between_calcs': sum(1 for c, _ in kept if c.get('edit_calendars')),
            'aimed_sideways': sum(1 for c, _ in kept if c.get('aimed') == 'sideways'),
            'aimed_staggered_release': sum(1 for c, _ in kept if c.get('aimed') == 'staggered'),
            'aimed_milestone_summary': sum(1 for c, _ in kept if c.get('aimed') == 'milestone-summary'),
            'aimed_stale_capacity': sum(1 for c, _ in kept if c.get('aimed') == 'stale-capacity'),
            'aimed_id_twin_prerequisites': sum(1 for c, _ in kept if c.get('aimed') == 'id-twin'),
            'aimed_tiny_share_of_a_day': sum(1 for c, _ in kept if c.get('aimed') == 'tiny-share'),
            'aimed_period_ending_on_a_day': sum(1 for c, _ in kept if c.get('aimed') == 'bound-day'),
            'calendar_edited_in_place': sum(1 for c, o in kept if o.get('edited_in_place')),
            'calendar_edited_same_scheduler_object': sum(1 for c, _ in kept if c.get('edit_calendars') and c.get('edit_same_scheduler')),
            'offgrid_discarded': len(cases) - len(kept), 'illformed_discarded': 0, 'returned': 0, 'runtime_error': 0, 'crash': 0}
    feats = {}
    distinct = set()
    exact_disagree = 0
    for (case, out), code in zip(kept, codes):
        if code & BITS['illformed']:
            # the WBS that was built does not satisfy the graph invariant (C01's business): outside the
            # domain of the scheduler theorems, discarded and counted
            dist['illformed_discarded'] += 1
            continue
        oc = out['outcome']
        dist['returned' if oc == 0 else 'runtime_error' if oc == 1 else 'crash'] += 1
        fs = classify(case, out)
        for f in fs:
            feats[f] = feats.get(f, 0) + 1
        key = json.dumps([case['dir'], out['w'], out['rs'], case['balance'], case['default_estimate'], case['pbound'], case['now']])
        if len([k for k in out['w'] if not k['ext']]) >= 2 and fs:
            distinct.add(key)
        if code & 6:
            exact_disagree += 1
        desc = {'case': case, 'abstract_input': out['w'], 'outcome': out['outcome'], 'exc': out.get('exc'),
                'observed': out.get('obs'), 'code': code}
        if code & BITS['foreign_rows']:
            what = 'the usage report of the returned schedule contains rows of tasks or resources that are not in that schedule'
            if pid in ('C03', 'C04', 'C06', 'C08', 'C09'):
                ctx.failure('%s/%s/foreign-usage-rows' % (pid, case['dir']), what, desc)
            else:
                ctx.mismatch(what, desc)
            continue
        if case.get('offgrid'):
            if code & offgrid_fail:
                names = [k for k, v in BITS.items() if code & offgrid_fail & v]
                ctx.failure('%s/%s/offgrid/%s' % (pid, case['dir'], '+'.join(names)),
                            'oracle %s false (beyond the float tolerance) on the schedule returned for an off-grid case (%s)' % ('+'.join(names), case['dir']), desc)
            if extra:
                extra(ctx, case, out, code, desc)
            continue
        if code & fail_bits:
            names = [k for k, v in BITS.items() if code & fail_bits & v]
            ctx.failure('%s/%s/%s' % (pid, case['dir'], '+'.join(names)),
                        'oracle %s false on the schedule returned by the implementation (%s)' % ('+'.join(names), case['dir']), desc)
        elif code & mismatch_bits:
            names = [k for k, v in BITS.items() if code & mismatch_bits & v]
            ctx.mismatch('model and implementation differ on %s (%s scheduler)' % ('+'.join(names), case['dir']), desc)
        if extra:
            extra(ctx, case, out, code, desc)
    ctx.coverage.update(
        evaluations=len(kept),
        distinct_nontrivial=len(distinct),
        rule='hand-written corpus (%d cases) + random WBSs (1-12 tasks, depth <= 3, links on leaves and summaries, outside tasks, '
             'user-fixed dates, min_start, milestones, 4 resource names with weekly/dated/fixed/composed calendars on the dyadic grid, '
             'both balance settings, midnight and non-midnight project bounds, clock before/at/after the bound); the abstract '
             'input is read back from the WBS actually built; distinct non-trivial = distinct (abstract input, calendars, '
             'configuration) with at least two member tasks and at least one structural feature' % n_corpus,
        samples=[{'case': kept[n_corpus][0], 'abstract_input': kept[n_corpus][1]['w'], 'outcome': kept[n_corpus][1]['outcome'],
                  'observed': kept[n_corpus][1].get('obs')}] if len(kept) > n_corpus else [],
        distribution=dict(dist, features=feats, directions={d: sum(1 for c, _ in kept if c['dir'] == d) for d in ('fwd', 'bwd')}),
        traces_validated_against_impl=len(kept),
        exact_model_vs_impl_disagreements=exact_disagree,
    )
    ctx.assumptions += [
        'scheduler theorems are about exact integer arithmetic; float rounding is modelled out: the correspondence is exact on '
        'the dyadic grid (capacities 0,.5,1,2,4,8,16; amounts multiples of 1/8), cases leaving the grid are discarded and counted',
        'capacity of a day = the resource\'s answer for that day (asserted independent of the time of day); ids unique in the WBS',
        'interpreter recursion depth is not modelled',
    ]
    return kept, codes


def replay_generic(ctx, rep, fail_bits, mismatch_bits, pid):
    case = rep['case']['case']
    outs, kept, codes = evaluate(ctx, [case], jobs=1)
    print('replay: implementation outcome %s, observed %s' % (outs[0].get('outcome'), json.dumps(outs[0].get('obs'))[:2000]))
    if not kept:
        print('replay: case left the dyadic grid: %s' % outs[0].get('offgrid'))
        return
    code = codes[0]
    print('replay: checker code %d = %s' % (code, [k for k, v in BITS.items() if code & v]))
    desc = {'case': case, 'abstract_input': kept[0][1]['w'], 'observed': kept[0][1].get('obs'), 'code': code}
    if code & fail_bits:
        ctx.failure('%s/%s/replay' % (pid, case['dir']), 'oracle false on replayed case', desc)
    elif code & mismatch_bits:
        ctx.mismatch('model and implementation differ on replayed case', desc)
    ctx.coverage.update(evaluations=1, distinct_nontrivial=1, rule='replay of one case', samples=[case])
