"""C04 - reserved work equals remaining work and agrees with the task's dates.  Theorems: Props_C04.v
(per-task statement c04_task_st proved of both scheduler models as an invariant of the abstract
machine; reflection of the oracle c04_b; the model's own output passes it).  Tie: the verified oracle
c04_b evaluated on the rows and dates the implementation returns (bit 'c04'), and - because the
theorems speak about rows and dates - exact agreement of the model with the implementation on both."""
from harness import common
from harness.props import sched_common as sc

ID = 'C04'
PROPS_FILE = 'Props/Props_C04.v'
EXTRA_TARGETS = ['Sched/Case.vo']
CONST_PARTS = ('sched',)
FAIL = sc.BITS['c04']
MISMATCH = sc.BITS['model_oracle'] | sc.BITS['dates'] | sc.BITS['rows']


def extra(ctx, case, out, code, desc):
    """hypotheses of the theorems that check_case does not evaluate: capacities in [0, DAY]
    (cap_nonneg, cap_small via C04_harness_capacities) and tasks outside the WBS numbered after all
    members (exts_last).  WFin is evaluated by check_case (bit 'illformed')."""
    for r in out.get('rs', []):
        for v in list(r['tab']) + list(r['pre']) + list(r['post']):
            if not (0 <= v <= sc.DAY):
                raise common.InfraError('C04: tabulated capacity %r outside [0, DAY]: hypothesis cap_small/cap_nonneg not met' % (v,))
    flags = [bool(k['ext']) for k in out.get('w', [])]
    if any(a and not b for a, b in zip(flags, flags[1:])):
        raise common.InfraError('C04: a member task is numbered after a task outside the WBS: hypothesis exts_last not met')


def run(ctx):
    sc.run_property(ctx, ID, FAIL, MISMATCH, extra=extra)
    ctx.assumptions += [
        'C04: capacities of a day lie in [0, 86400000000] scaled units (checked on every case); with a larger capacity a '
        'reservation can move a date by less than a microsecond (Example C04_cap_small_needed)',
        'C04: conservation is exact integer arithmetic on the dyadic grid; float rounding off the grid is not covered',
    ]


def replay(ctx, rep):
    sc.replay_generic(ctx, rep, FAIL, MISMATCH, ID)
