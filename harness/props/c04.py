"""C04 - reserved work equals remaining work and agrees with the task's dates.  Theorems: Props_C04.v
(per-task statement c04_task_st proved of both scheduler models as an invariant of the abstract
machine; reflection of the oracle c04_b; the model's own output passes it).  Tie: the verified oracle
c04_b evaluated on the rows and dates the implementation returns (bit 'c04'), and - because the
theorems speak about rows and dates - exact agreement of the model with the implementation on both."""
from harness import common
from harness.props import sched_common as sc

ID = 'C04'
PROPS_FILE = 'Props/Props_C04.v'
EXTRA_TARGETS = ['Sched/Case.vo']
CONST_PARTS = ('sched', 'srcfill', 'srcpass')
FAIL = sc.BITS['c04']
MISMATCH = sc.BITS['model_oracle'] | sc.BITS['dates'] | sc.BITS['rows']


def extra(ctx, case, out, code, desc):
    """hypotheses of the theorems that check_case does not evaluate: capacities in [0, DAY]
    (cap_nonneg, cap_small via C04_harness_capacities) and tasks outside the WBS numbered after all
    members (exts_last).  WFin is evaluated by check_case (bit 'illformed')."""
    for r in out.get('rs', []):
        for v in list(r['tab']) + list(r['pre']) + list(r['post']):
            if not (0 <= v <= sc.DAY):
                raise common.InfraError('C04: tabulated capacity %r outside [0, DAY]: hypothesis cap_small/cap_nonneg not met' % (v,))
    flags = [bool(k['ext']) for k in out.get('w', [])]
    if any(a and not b for a, b in zip(flags, flags[1:])):
        raise common.InfraError('C04: a member task is numbered after a task outside the WBS: hypothesis exts_last not met')


def robustness_stream(ctx):
    """WBSs with milestone SUMMARIES (outside the domain of the theorems): the conservation clause is evaluated directly
    on what the implementation returned - the working leaves below a milestone summary still get their work reserved"""
    n = 50 if ctx.tier == 'quick' else 1000
    cases = [sc.gen_milestone_summary_case(ctx.rng) for _ in range(n)]
    outs = []
    for i in range(0, len(cases), 25):
        outs += ctx.impl_run('sched_impl', cases[i:i + 25])
    stat = {'cases': len(cases), 'returned': 0, 'raised': 0, 'tasks_judged': 0}
    for c, o in zip(cases, outs):
        if not o.get('outcome_only') or o.get('outcome') != 0:
            stat['raised'] += 1
            continue
        stat['returned'] += 1
        stat['tasks_judged'] += len(o.get('work', []))
        probs = sc.robust_work_problems(c, o)
        if probs:
            ctx.failure('C04/%s/milestone-summary/reserved-work' % c['dir'],
                        'WBS with a milestone summary: ' + '; '.join(probs[:4]), {'case': c, 'observed': o})
    return stat


def task_aware_stream(ctx):
    """user-defined resources whose capacity depends on the task asked for (IResource.get_available_units(date, task)):
    outside the model (its capacity is a function of resource and day); the clauses of the property that need no model
    are evaluated directly on what the implementation returned"""
    n = 40 if ctx.tier == 'quick' else 800
    cases = [sc.gen_task_aware_case(ctx.rng) for _ in range(n)]
    outs = []
    for i in range(0, len(cases), 20):
        outs += ctx.impl_run('sched_impl', cases[i:i + 20])
    stat = {'cases': len(cases), 'returned': 0, 'raised': 0, 'tasks_judged': 0, 'blocked_pairs': sum(len(c['task_aware']) for c in cases)}
    for c, o in zip(cases, outs):
        if not o.get('outcome_only') or o.get('outcome') != 0:
            stat['raised'] += 1
            continue
        stat['returned'] += 1
        stat['tasks_judged'] += len(o.get('work', []))
        probs = sc.robust_work_problems(c, o) + sc.robust_date_problems(c, o)
        if probs:
            ctx.failure('C04/%s/task-aware-resource' % c['dir'],
                        'resource whose capacity depends on the task: ' + '; '.join(probs[:4]), {'case': c, 'observed': o})
    return stat


def run(ctx):
    stat = robustness_stream(ctx)
    stat2 = task_aware_stream(ctx)
    sc.run_property(ctx, ID, FAIL, MISMATCH, extra=extra)
    ctx.coverage.setdefault('distribution', {})['robustness_stream_milestone_summaries'] = stat
    ctx.coverage.setdefault('distribution', {})['robustness_stream_task_aware_resources'] = stat2
    ctx.assumptions += [
        'C04: capacities of a day lie in [0, 86400000000] scaled units (checked on every case); with a larger capacity a '
        'reservation can move a date by less than a microsecond (Example C04_cap_small_needed)',
        'C04: conservation is exact integer arithmetic on the dyadic grid; float rounding off the grid is not covered',
    ]


def replay(ctx, rep):
    case = rep['case']['case']
    if case.get('outcome_only'):
        o = ctx.impl_run('sched_impl', [case])[0]
        probs = sc.robust_work_problems(case, o) if o.get('outcome') == 0 else []
        print('replay: implementation outcome %s, problems %s' % (o.get('outcome'), probs))
        if probs:
            ctx.failure('C04/%s/replay' % case['dir'], 'reserved work differs from remaining work on the replayed case', {'case': case, 'observed': o})
        ctx.coverage.update(evaluations=1, distinct_nontrivial=1, rule='replay of one case of the robustness stream', samples=[case])
        return
    sc.replay_generic(ctx, rep, FAIL, MISMATCH, ID)
