"""Shared by the task-graph properties C01, C05, C11, C15, C16: histories of public mutator calls are
generated and executed by harness/impl/graph_impl.py (state-aware, one random.Random per history),
emitted as Gallina terms of type Graph.Check.hist and judged inside Coq by `check_hist <which>`:
the model step (Graph/Model.v) is applied to the implementation's ACTUAL previous snapshot, compared
through the abstraction of the property, and the boolean oracles of Graph/Invariant.v are evaluated on
the implementation's snapshot after every call (also after raising calls).

verdict of a history = 100 * (1 + index of the first offending call) + clause; a failing history is
shrunk to the single (pre-state, call) pair, which is rebuilt with World.build and replayed."""
import hashlib
import json
import os
import random
import subprocess

from harness import common
from harness.common import InfraError

HEADER = """From PJ Require Import Base.Prelude Graph.Model Graph.Invariant Graph.Check.
Open Scope nat_scope.
Definition K_ (n : nat) : res obj := Ok n.
Definition E_ : res obj := Err.
Definition C_ (k : crash_kind) : res obj := Crash k.
Definition N_ : option obj := None.
"""

CRASH = {10: 'RecursionError', 11: 'KeyError', 12: 'TypeError', 13: 'ValueError', 14: 'IndexError',
         15: 'ZeroDivisionError', 16: 'StopIteration', 17: 'AttributeError'}
OUTCOME = dict(CRASH)
OUTCOME.update({0: 'returned', 1: 'RuntimeError', 19: 'other exception'})
SORTK = {'id': 'KId', 'prio': 'KPrio', 'name': 'KName', 'bad': 'KBad', 'est': 'KEst'}
EMPTY = {'heap': [], 'wroots': []}

N_QUICK = 560
N_THOROUGH = 5600


# ---------- emission ------------------------------------------------------------------------------------
def zz(n):
    return '(%d)%%Z' % n if n < 0 else '%d%%Z' % n


def zlist(l):
    return '[' + '; '.join(zz(x) for x in l) + ']'


def zo(x):
    return 'None' if x is None else '(Some %s)' % zz(x)


def nlist(l):
    return '[' + '; '.join(str(x) for x in l) + ']'


def no(x):
    return 'N_' if x is None else '(Some %d)' % x


def olist(l):
    return '[' + '; '.join('N_' if x is None else 'Some %d' % x for x in l) + ']'


def bb(b):
    return 'true' if b else 'false'


def name_z(nm):
    return zlist([ord(c) for c in nm])


def emit_task(r):
    return '(T %s %s %s %s %s %s %s %s %s %s)' % (zz(r[0]), no(r[1]), nlist(r[2]), nlist(r[3]), nlist(r[4]), no(r[5]),
                                                  bb(r[6]), zo(r[7]), zlist(r[8]), zo(r[9]))


def emit_state(s):
    return '(S_ [%s] %s)' % ('; '.join(emit_task(r) for r in s['heap']), nlist(s['wroots']))


def emit_res(code, v):
    if code == 0:
        return '(K_ %d)' % v
    if code == 1:
        return 'E_'
    return '(C_ %s)' % CRASH.get(code, 'OutOfFuel')


def emit_obs(rd):
    tasks = '[' + '; '.join(nlist(l) for l in rd['tasks']) + ']'
    look = '[' + '; '.join('(%d, %s, %s)' % (w, zz(i), emit_res(c, v)) for w, i, c, v in rd['look']) + ']'
    return '(mkO %s %s)' % (tasks, look)


def emit_op(op):
    k = op[0]
    if k == 'NewTask':
        return '(NewTask %s %s %s %s)' % (zz(op[1]), zo(op[2]), name_z(op[3]), zo(op[4]))
    if k == 'NewTaskRel':
        ch = 'None' if op[4] is None else '(Some %s)' % olist(op[4])
        return '(NewTaskRel %s %s %s %s %s %s)' % (zz(op[1]), name_z(op[2]), no(op[3]), ch, olist(op[5]), olist(op[6]))
    if k == 'NewWbs':
        return 'NewWbs'
    if k == 'SetParent':
        return '(SetParent %d %s)' % (op[1], no(op[2]))
    if k in ('SetChildren', 'OpFloordiv'):
        return '(%s %d %s)' % (k, op[1], olist(op[2]))
    if k in ('SetLinks', 'OpShift'):
        return '(%s %s %d %s)' % (k, bb(op[1]), op[2], olist(op[3]))
    if k in ('ChAppend', 'ChRemove'):
        return '(%s %d %s)' % (k, op[1], no(op[2]))
    if k == 'ChInsert':
        return '(ChInsert %d %s %s)' % (op[1], zz(op[2]), no(op[3]))
    if k == 'ChMove':
        return '(ChMove %d %s %s %s)' % (op[1], olist(op[2]), no(op[3]), no(op[4]))
    if k == 'ChSort':
        return '(ChSort %d %s %s)' % (op[1], SORTK[op[2]], bb(op[3]))
    if k in ('ChReorder', 'ChRemoveAll'):
        return '(%s %d %s)' % (k, op[1], zlist(op[2]))
    if k in ('LnAppend', 'LnRemove'):
        return '(%s %s %d %s)' % (k, bb(op[1]), op[2], no(op[3]))
    if k == 'LnRemoveAll':
        return '(LnRemoveAll %s %d %s)' % (bb(op[1]), op[2], zlist(op[3]))
    if k == 'LstShift':
        return '(LstShift %s %s %s)' % (bb(op[1]), nlist(op[2]), olist(op[3]))
    if k == 'LstSetParent':
        return '(LstSetParent %s %s)' % (nlist(op[1]), no(op[2]))
    if k == 'LstSetChildren':
        return '(LstSetChildren %s %s)' % (nlist(op[1]), olist(op[2]))
    if k == 'LstSetLinks':
        return '(LstSetLinks %s %s %s)' % (bb(op[1]), nlist(op[2]), olist(op[3]))
    if k == 'WbsRemove':
        return '(WbsRemove %d %s)' % (op[1], no(op[2]))
    if k == 'WbsRemoveAll':
        return '(WbsRemoveAll %d %s)' % (op[1], zlist(op[2]))
    if k == 'SetEst':
        return '(SetEst %d %s)' % (op[1], zo(op[2]))
    if k == 'SetPrio':
        return '(SetPrio %d %s)' % (op[1], zz(op[2]))
    raise InfraError('cannot emit op %r' % (op,))


def emit_step(st):
    return '(%s, %d, %s, %s)' % (emit_op(st['op']), st['code'], emit_state(st['post']), emit_obs(st['reads']))


def emit_hist(steps):
    return '[' + ';\n   '.join(emit_step(s) for s in steps) + ']'


def emit_dhist(steps, with_reads):
    """compact form (Graph/Check.v dhist): per call only the objects whose record changed"""
    out = []
    pre, prd = EMPTY, {'tasks': [], 'look': []}
    for st in steps:
        post = st['post']
        ds = []
        for k, r in enumerate(post['heap']):
            old = pre['heap'][k] if k < len(pre['heap']) else None
            if old == r:
                continue
            if old is not None and old[0] == r[0] and old[6:] == r[6:]:
                ds.append('(%d, DR %s %s %s %s %s)' % (k, no(r[1]), nlist(r[2]), nlist(r[3]), nlist(r[4]), no(r[5])))
            else:
                ds.append('(%d, DT %s)' % (k, emit_task(r)))
        if len(post['heap']) < len(pre['heap']):
            raise InfraError('an object disappeared from the snapshot')
        wr = 'None' if post['wroots'] == pre['wroots'] else '(Some %s)' % nlist(post['wroots'])
        if with_reads and st['reads'] != prd:
            ob = '(Some %s)' % emit_obs(st['reads'])
            prd = st['reads']
        else:
            ob = 'None'
        out.append('(%s, %d, [%s], %s, %s)' % (emit_op(st['op']), st['code'], '; '.join(ds), wr, ob))
        pre = post
    return '[' + ';\n   '.join(out) + ']'


# ---------- hand-written histories: witnesses of the repaired defects F1-F9, F25, the open F10 -------------
def T(i, nm='a', prio=None, est=None):
    return ['NewTask', i, prio, nm, est]


W = ['NewWbs']
PR, SU = True, False

CORPUS = [
    # F1: a task as its own parent / child
    ('F1 self parent, self child', [T(1), ['SetParent', 0, 0], ['SetChildren', 0, [0]], ['ChAppend', 0, 0], ['OpFloordiv', 0, [0]],
                                    ['ChInsert', 0, 0, 0]]),
    # F2: self link
    ('F2 self link', [T(1), ['SetLinks', PR, 0, [0]], ['SetLinks', SU, 0, [0]], ['LnAppend', PR, 0, 0], ['OpShift', SU, 0, [0]]]),
    # F3: descendant / ancestor as dependency, link-then-parent in all spellings
    ('F3 descendant as predecessor', [T(1), T(2), T(3), ['SetParent', 1, 0], ['SetParent', 2, 1], ['SetLinks', PR, 0, [1]],
                                      ['SetLinks', PR, 0, [2]], ['SetLinks', SU, 0, [2]], ['SetLinks', PR, 2, [0]], ['OpShift', PR, 2, [0]]]),
    ('F3 link then parent', [T(1), T(2), ['SetLinks', PR, 0, [1]], ['SetParent', 1, 0], ['SetChildren', 0, [1]], ['SetParent', 0, 1],
                             ['ChAppend', 0, 1], ['OpFloordiv', 1, [0]], ['ChInsert', 0, 0, 1]]),
    ('F3 link then parent below', [T(1), T(2), T(3), ['SetParent', 2, 1], ['SetLinks', SU, 0, [2]], ['SetParent', 1, 0],
                                   ['SetChildren', 0, [1]], ['SetParent', 0, 2]]),
    # F4: repeated entries in a dependency list, then the mirror side is rewritten
    ('F4 duplicate links', [T(1), T(2), ['LnAppend', PR, 0, 1], ['LnAppend', PR, 0, 1], ['SetLinks', PR, 0, [1, 1]],
                            ['OpShift', PR, 0, [1]], ['OpShift', PR, 0, [1]], ['SetLinks', SU, 1, []]]),
    ('F4 duplicate successors', [T(1), T(2), T(3), ['OpShift', SU, 0, [1, 1, 2]], ['OpShift', SU, 0, [2, 1]], ['SetLinks', PR, 1, []],
                                 ['LnRemove', PR, 2, 0]]),
    # F5: every removal path clears the owner; the task can be attached to another WBS afterwards
    ('F5 WBS.remove', [W, W, T(1), T(2), ['SetParent', 3, 2], ['ChAppend', 0, 2], ['WbsRemove', 0, 2], ['ChAppend', 1, 2]]),
    ('F5 list remove', [W, W, T(1), T(2), ['OpFloordiv', 0, [2, 3]], ['ChRemove', 0, 2], ['OpFloordiv', 1, [2]],
                        ['ChRemoveAll', 0, [2]], ['ChAppend', 1, 3]]),
    ('F5 left out of an assignment', [W, W, T(1), T(2), T(3), ['SetChildren', 0, [2, 3]], ['SetParent', 4, 3], ['SetChildren', 0, [2]],
                                      ['SetChildren', 1, [3]], ['WbsRemoveAll', 1, [3]], ['SetChildren', 0, [2, 4]]]),
    ('F5 nested remove', [W, W, T(1), T(2), T(3), ['ChAppend', 0, 2], ['ChAppend', 2, 3], ['ChAppend', 3, 4], ['WbsRemove', 0, 3],
                          ['ChAppend', 1, 4], ['SetParent', 3, None], ['ChAppend', 1, 3]]),
    # F6: children / roots assignment whose LAST element is rejected
    ('F6 assignment, last element duplicate id', [T(0), T(1), T(2), T(3), T(3), ['SetChildren', 0, [1, 2]], ['SetChildren', 0, [3, 4]],
                                                  ['SetChildren', 0, [2, 3, 4]]]),
    ('F6 roots assignment, cross-WBS element last', [W, W, T(1), T(2), T(3), ['SetChildren', 0, [2, 3]], ['ChAppend', 1, 4],
                                                     ['SetChildren', 0, [3, 4]], ['SetChildren', 1, [4, 2]]]),
    # F7: insert at len / out of range, move before itself, move without anchor
    ('F7 insert and move', [T(0), T(1), T(2), T(3), ['OpFloordiv', 0, [1, 2]], ['ChInsert', 0, 3, 3], ['ChInsert', 0, 5, 3],
                            ['ChInsert', 0, -4, 3], ['ChMove', 0, [2], 2, None], ['ChMove', 0, [2], None, None],
                            ['ChMove', 0, [2], 1, 1], ['ChMove', 0, [2, 3], 1, None], ['ChInsert', 0, 2, 3], ['ChInsert', 0, 0, 3],
                            ['ChInsert', 0, -1, 1], ['ChInsert', 3, 0, 1], ['ChInsert', 1, 0, 0], ['ChInsert', 1, 1, 2],
                            ['ChMove', 0, [3, 2], None, 2], ['ChMove', 0, [2], None, 3]]),
    ('F7 insert into an empty list', [T(0), T(1), ['ChInsert', 0, 1, 1], ['ChInsert', 0, -2, 1], ['ChInsert', 0, 0, 1], ['ChInsert', 0, 0, 1],
                                      ['ChInsert', 0, -1, 1], ['ChInsert', 0, 1, 1]]),
    # F8: duplicate id in another top-level branch of the WBS
    ('F8 duplicate id in another branch', [W, T(1), T(2), T(1), ['SetChildren', 0, [1, 2]], ['ChAppend', 2, 3], ['SetParent', 3, 2],
                                           ['OpFloordiv', 2, [3]], ['ChInsert', 2, 0, 3], ['SetChildren', 2, [3]]]),
    ('F8 duplicate id among the incoming tasks', [T(0), T(1), T(1), T(2), ['SetParent', 2, 3], ['SetChildren', 0, [1, 3]],
                                                  ['OpFloordiv', 0, [1, 3]]]),
    # F9: cycle through objects that share an id
    ('F9 cycle through shared ids', [T(1), T(2), T(1), ['SetLinks', PR, 1, [2]], ['SetLinks', PR, 2, [0]], ['SetLinks', PR, 0, [1]],
                                     ['OpShift', SU, 1, [0]], ['LnAppend', PR, 0, 1]]),
    # F10 (repaired by 0693848): constructor with several relation arguments
    ('F10 constructor', [T(1), ['NewTaskRel', 2, 'a', 0, None, [], []], ['NewTaskRel', 3, 'b', 0, None, [], [0]]]),
    ('F10 constructor, accepted', [T(1), T(2), T(3), ['NewTaskRel', 4, 'ab', 0, [1], [2], []], ['NewTaskRel', 5, 'b', 3, [], [], [2]]]),
    ('F10 constructor rejected before anything is attached', [T(1), ['NewTaskRel', 1, 'a', 0, None, [], []],
                                                              ['NewTaskRel', 2, 'a', None, [0, 0, None], [0], []]]),
    # F25: sort / reorder and a list facade obtained earlier
    ('F25 stale facade after sort', [T(0), T(2), T(1), ['OpFloordiv', 0, [1, 2]], ['Facade', 'ch', 0], ['ChSort', 0, 'id', False], T(3),
                                     ['ChAppend', 0, 3], [['ChMove', 0, [1], 2, None], {'facade': 0}],
                                     [['ChAppend', 0, 3], {'facade': 0}]]),
    ('F25 stale roots facade after reorder', [W, T(2), T(1), T(3), ['SetChildren', 0, [1, 2]], ['Facade', 'ch', 0], ['ChReorder', 0, [1]],
                                              ['ChAppend', 0, 3], [['ChMove', 0, [1], None, 3], {'facade': 0}],
                                              [['ChRemove', 0, 2], {'facade': 0}], [['ChSort', 0, 'id', True], {'facade': 0}]]),
    # boundary cases of the documented effects
    ('sort keys', [T(0), T(2, 'b', 1), T(1, 'ab', 1), T(3, 'a', 0), ['OpFloordiv', 0, [1, 2, 3]], ['ChSort', 0, 'name', False],
                   ['ChSort', 0, 'prio', False], ['ChSort', 0, 'prio', True], ['ChSort', 0, 'id', True], ['ChSort', 0, 'bad', False],
                   T(4), ['ChAppend', 0, 4], ['ChSort', 0, 'prio', False], ['ChReorder', 0, [3, 1]], ['ChReorder', 0, [3, 3]],
                   ['ChReorder', 0, [9]], ['ChReorder', 0, []]]),
    # sorting by an attribute whose value is None for a child behind an out-of-order pair: TypeError, nothing reordered
    ('sort by estimate with a None value', [W, T(0, 'a', None, 24), T(1, 'b', None, 8), T(2, 'c', None, 16), T(3, 'd'), T(4, 'e', None, 0),
                                            ['SetChildren', 0, [1, 2, 3, 4, 5]], ['ChSort', 0, 'est', False], ['ChSort', 0, 'est', True],
                                            ['SetEst', 4, 12], ['ChSort', 0, 'est', False], ['ChSort', 0, 'est', True],
                                            T(5), ['OpFloordiv', 1, [6]], ['ChSort', 1, 'est', False], T(6), ['OpFloordiv', 1, [7]],
                                            ['ChSort', 1, 'est', True]]),
    ('list level operators', [W, T(1), T(2), T(3), T(4), ['SetChildren', 0, [1, 2]], [['LstShift', PR, [1, 2], [3]], {'src': ['tasks', 0]}],
                              [['LstShift', SU, [1, 2], [4, 1]], {'src': ['roots', 0]}],
                              [['LstSetParent', [1, 2], 3], {'src': ['tasks', 0]}], [['LstSetParent', [1, 2], 4], {'src': ['tasks', 0]}]]),
    ('bulk parent, last element rejected', [T(0), T(1), T(2), T(2), ['SetChildren', 0, [1, 2]],
                                            [['LstSetParent', [1, 2], 3], {'src': ['children', 0]}]]),
    ('list shift, last element rejected', [T(0), T(1), T(2), T(3), ['SetChildren', 0, [1, 2]], ['SetParent', 3, 2],
                                           [['LstShift', PR, [1, 2], [3]], {'src': ['children', 0]}]]),
    # bulk assignment of children / predecessors / successors to a task list: one setter call per element with the
    # SAME value, undone as a whole when a later element rejects it (the first element's relations, the position of
    # a moved task in its old parent's list, the owner of an adopted free task, the order of the mirror lists)
    ('bulk children and links, accepted', [
        W, T(1), T(2), T(3), T(4), T(5), ['SetChildren', 0, [1, 2]],
        [['LstSetChildren', [1, 2], [3]], {'src': ['tasks', 0]}],                     # 3 ends below the LAST element
        [['LstSetLinks', PR, [1, 2], [4, None, 4]], {'src': ['roots', 0], 'form': 'tuple'}],
        [['LstSetLinks', SU, [1, 2], [5]], {'src': ['filter', ['tasks', 0], [1, 2]], 'form': 'single'}],
        [['LstSetLinks', PR, [1, 2], [5]], {'src': ['roots', 0], 'form': 'iter'}],     # a cycle: rejected by the first element
        [['LstSetChildren', [1, 2, 3], [4, 5]], {'src': ['tasks', 0], 'form': 'iter'}],  # one-shot iterator: read once
        [['LstSetLinks', PR, [1, 2], []], {'src': ['roots', 0], 'form': 'none'}],
        [['LstSetChildren', [1, 2], []], {'src': ['roots', 0], 'form': 'none'}]]),
    ('bulk children, second element rejected', [
        T(0), T(1), T(2), T(3), ['SetChildren', 0, [1, 2]],
        [['LstSetChildren', [1, 2], [3, 2]], {'src': ['children', 0]}],               # 2 moved below 1, then rejects itself
        [['LstSetChildren', [1, 2], [1]], {'src': ['children', 0], 'form': 'single'}],  # rejected by the first element
        [['LstSetChildren', [1, 2], [3]], {'src': ['children', 0], 'form': 'single'}]]),
    ('bulk children inside a WBS, second element rejected after a free task was adopted', [
        W, T(1), T(2), T(3), T(4), ['SetChildren', 0, [1, 2]], ['SetParent', 4, 3],
        [['LstSetChildren', [1, 2], [3, 2]], {'src': ['tasks', 0]}],                  # 3 (with its child 4) got the owner, then undone
        [['LstSetChildren', [1, 2], [3, 2]], {'src': ['filter', ['roots', 0], [1, 2]], 'form': 'tuple'}],
        [['LstSetChildren', [2, 1], [3]], {'src': ['filter', ['roots', 0], [1, 2]]}]]),
    ('bulk links, second element rejected', [
        T(0), T(1), T(2), T(3), T(4), ['SetChildren', 0, [1, 2]], ['SetLinks', PR, 1, [3, 4]], ['SetLinks', SU, 3, [2, 1]],
        [['LstSetLinks', PR, [1, 2], [4, 2]], {'src': ['children', 0]}],              # 1 lost predecessor 3, then 2 rejects itself
        [['LstSetLinks', SU, [1, 2], [1]], {'src': ['filter', ['children', 0], [1, 2]], 'form': 'single'}],
        [['LstSetLinks', PR, [1, 2], [4]], {'src': ['succs', 3]}],
        [['LstSetLinks', SU, [1, 2], [3]], {'src': ['succs', 3]}]]),                   # a cycle through the list's own owner
    # a link between a DEEP descendant (two levels below the moved task) and the future parent chain
    ('re-parenting below a task that a grandchild is linked with', [
        T(1), T(2), T(3), T(4), T(5), ['SetParent', 1, 0], ['SetParent', 2, 1], ['SetLinks', PR, 2, [3]], ['SetParent', 0, 3],
        ['ChAppend', 3, 0], ['SetChildren', 3, [0]], ['OpFloordiv', 3, [0]], ['ChInsert', 3, 0, 0], ['SetParent', 4, 3],
        ['SetParent', 0, 4], ['ChAppend', 4, 0], ['SetChildren', 4, [0]], ['SetLinks', PR, 2, []], ['SetLinks', SU, 2, [3]],
        ['SetParent', 0, 4], ['OpFloordiv', 4, [0]], [['LstSetParent', [0], 3], {'src': ['all_parents', 1]}], ['SetLinks', SU, 2, []],
        ['SetParent', 0, 4]]),
    ('re-parenting inside a WBS below a task that a grandchild is linked with', [
        W, T(1), T(2), T(3), T(4), T(5), ['SetChildren', 0, [1, 4]], ['ChAppend', 1, 2], ['ChAppend', 2, 3], ['ChAppend', 4, 5],
        ['OpShift', SU, 4, [3]], ['SetParent', 1, 5], ['ChAppend', 5, 1], ['ChInsert', 4, 0, 1], ['SetChildren', 5, [1]],
        ['OpFloordiv', 4, [1]], ['LnRemove', PR, 3, 4], ['SetParent', 1, 5]]),
    # insert with an index at the edge of the range, for a task that is already in the list / on wbs.roots
    ('insert(L, existing child not last), insert(-L-1, existing child)', [
        T(0), T(1), T(2), T(3), T(4), ['OpFloordiv', 0, [1, 2, 3]], ['ChInsert', 0, 3, 1], ['ChInsert', 0, -4, 1], ['ChInsert', 0, 3, 2],
        ['ChInsert', 0, -4, 3], ['ChInsert', 0, 4, 1], ['ChInsert', 0, -5, 2], ['ChInsert', 0, 2, 1], ['ChInsert', 0, -3, 1],
        ['ChInsert', 0, 3, 4], ['ChInsert', 0, 4, 4], ['ChInsert', 0, -5, 4], ['ChInsert', 0, -6, 4], ['ChInsert', 0, 5, 4]]),
    ('roots.insert at the edge of the range', [
        W, T(1), T(2), T(3), ['SetChildren', 0, [1, 2, 3]], ['ChInsert', 0, 3, 1], ['ChInsert', 0, -4, 2], ['ChInsert', 0, 3, 3],
        ['ChInsert', 0, 2, 1], ['Facade', 'ch', 0], [['ChInsert', 0, 3, 2], {'facade': 0}], [['ChInsert', 0, -4, 3], {'facade': 0}]]),
    ('None arguments', [W, T(1), T(2), ['ChAppend', 0, None], ['ChRemove', 0, None], ['ChInsert', 0, 0, None], ['LnAppend', PR, 1, None],
                        ['LnRemove', SU, 1, None], ['WbsRemove', 0, None], ['SetChildren', 0, [None, 1, None, 1]], ['SetLinks', PR, 1, [None]],
                        ['ChMove', 0, [None], None, 1], ['SetParent', 1, None], ['SetEst', 1, -1], ['SetEst', 1, 8]]),
]


# ---------- implementation run (shared by the five checks through a cache file) ---------------------------
def _sh(cmd, cwd):
    return subprocess.run(cmd, cwd=cwd, capture_output=True, text=True).stdout


def repo_state(repo):
    head = _sh(['git', 'rev-parse', 'HEAD'], repo).strip()
    dirty = _sh(['git', 'status', '--porcelain', '--', 'src'], repo) + _sh(['git', 'diff', '--', 'src'], repo)
    return head + ':' + hashlib.sha1(dirty.encode()).hexdigest()


def seeds_for(ctx, n):
    """the five checks of the group draw the same histories for a given VERIF_SEED (they share one run)"""
    r = random.Random('graph-group/%d' % ctx.seed)
    seeds = [r.getrandbits(40) for _ in range(n)]
    # histories of their own in which remove_all is called with a filter that raises after its first match ('rf-' seeds)
    r2 = random.Random('graph-group/raising-filters/%d' % ctx.seed)
    return seeds + ['rf-%d' % r2.getrandbits(40) for _ in range(max(6, n // 12))]


def run_generated(ctx, n, jobs=12):
    seeds = seeds_for(ctx, n)
    with open(os.path.join(common.VERIF, 'harness', 'impl', 'graph_impl.py'), 'rb') as f:
        src = hashlib.sha1(f.read()).hexdigest()
    key = hashlib.sha1(json.dumps([ctx.seed, ctx.tier, n, repo_state(ctx.repo), os.path.realpath(ctx.repo), src]).encode()).hexdigest()[:20]
    path = os.path.join(common.OUT, 'graph_cache_%s.json' % key)
    if os.environ.get('VERIF_NO_CACHE') != '1':
        try:
            with open(path, encoding='utf-8') as f:
                return json.load(f), True
        except (FileNotFoundError, json.JSONDecodeError):
            pass
    per = max(1, (len(seeds) + jobs - 1) // jobs)
    payloads = [{'mode': 'gen', 'seeds': seeds[i:i + per]} for i in range(0, len(seeds), per)]
    hs = [h for part in ctx.impl_run_many('graph_impl', payloads, jobs=jobs) for h in part]
    tmp = path + '.%d.tmp' % os.getpid()
    with open(tmp, 'w', encoding='utf-8') as f:
        json.dump(hs, f)
    os.replace(tmp, path)
    # keep the directory small: only the five most recent cache files survive
    old = sorted((p for p in os.listdir(common.OUT) if p.startswith('graph_cache_') and p.endswith('.json')),
                 key=lambda p: os.path.getmtime(os.path.join(common.OUT, p)))
    for p in old[:-5]:
        try:
            os.remove(os.path.join(common.OUT, p))
        except OSError:
            pass
    return hs, False


def run_corpus(ctx):
    out = ctx.impl_run('graph_impl', {'mode': 'ops', 'histories': [h for _, h in CORPUS]})
    for (name, items), h in zip(CORPUS, out):
        h['corpus'] = name
        h['items'] = items
    return out


def coq_verdicts(ctx, which, hists, stem='graph', jobs=12):
    """for every history the verdicts of ALL its offending calls (empty list = fine); evaluated by
    Graph/Check.v check_dhist_all in sharded generated files"""
    import concurrent.futures
    # the reads (WBS.tasks, wbs[id]) are looked at by C05 only
    terms = [emit_dhist(h['steps'], which == 5) for h in hists]
    if not terms:
        return []
    size = max(8, min(60, (len(terms) + jobs - 1) // jobs))
    shards = [terms[i:i + size] for i in range(0, len(terms), size)]

    def one(ix):
        body = (HEADER + '\nDefinition cases : list dhist :=\n [ ' + '\n ; '.join(shards[ix]) + '\n ].\n'
                + 'Eval vm_compute in (List.concat (List.map (fun h => check_dhist_all %d h ++ [0]) cases)).\n' % which)
        ok, out = ctx.coq_run('%s_%s_%d' % (stem, ctx.pid, ix), body, 900)
        if not ok:
            raise InfraError('coqc failed on generated histories, shard %d: %s' % (ix, out[-3000:]))
        res, cur = [], []
        for c in common.parse_nat_list(out):
            if c == 0:
                res.append(cur)
                cur = []
            else:
                cur.append(c)
        if len(res) != len(shards[ix]) or cur:
            raise InfraError('coq returned verdicts for %d histories instead of %d' % (len(res), len(shards[ix])))
        return res

    with concurrent.futures.ThreadPoolExecutor(max_workers=jobs) as ex:
        parts = list(ex.map(one, range(len(shards))))
    return [v for part in parts for v in part]


def coq_pair_verdicts(ctx, which, pairs):
    """pairs: (pre snapshot, step record) - one call judged from an explicit pre-state"""
    terms = ['(%s, %s)' % (emit_state(pre), emit_step(st)) for pre, st in pairs]
    return ctx.coq_codes('graphpair', HEADER, 'state * stepcase', terms,
                         'fun c => chk_hist %d (fst c) 0 [snd c]' % which, shard=20, jobs=8)


def items_of(h, upto):
    """the history as an `ops` payload (facade acquisitions included), first upto+1 calls"""
    if 'items' in h:
        items, n = [], 0
        for it in h['items']:
            if n > upto:
                break
            items.append(it)
            if not (it and it[0] == 'Facade'):
                n += 1
        return items
    items = []
    for st in h['steps'][:upto + 1]:
        items += [['Facade', k, o] for k, o in st.get('acq', [])]
        items.append([st['op'], st['how']])
    return items


def describe_call(st):
    return '%s via %s' % (json.dumps(st['op']), json.dumps(st['how'])) if st.get('how') else json.dumps(st['op'])


# ---------- the generic body of the five checks -------------------------------------------------------------
class Spec:
    """what one property does with a verdict: which checker, which clauses condemn the implementation"""

    def __init__(self, pid, which, fail, mismatch, alias=None, notes=None, extra_assumptions=()):
        self.pid, self.which, self.fail, self.mismatch = pid, which, fail, mismatch
        self.alias = alias or {}
        self.notes = notes or ''
        self.extra_assumptions = list(extra_assumptions)

    def signature(self, opkind, clause):
        name = self.fail.get(clause) or self.mismatch.get(clause) or 'clause-%d' % clause
        sig = '%s/%s/%s' % (self.pid, opkind, name)
        return self.alias.get(sig, sig)


def model_says(ctx, pre, op):
    out = ctx.coq_show('graphshow', HEADER, 'let r := step %s %s in (outcome_code (snd r), fst r)' % (emit_state(pre), emit_op(op)))
    return out[-1500:]


def report_batch(ctx, spec, items):
    """items: (history, verdict).  Every offending call is shrunk to the (pre-state, call) pair - the pair is
    rebuilt with World.build and replayed in one batch - then classified and recorded."""
    if not items:
        return
    todo = []
    for h, verdict in items:
        ix, clause = verdict // 100 - 1, verdict % 100
        st = h['steps'][ix]
        pre = h['steps'][ix - 1]['post'] if ix else EMPTY
        todo.append((h, ix, clause, st, pre))
    try:
        recs = ctx.impl_run('graph_impl', {'mode': 'pair', 'cases': [{'pre': pre, 'op': st['op'], 'how': st['how']}
                                                                     for _, _, _, st, pre in todo]})
        v2s = coq_pair_verdicts(ctx, spec.which, [(t[4], rec) for t, rec in zip(todo, recs)])
    except InfraError as e:
        recs, v2s = [{'error': str(e)}] * len(todo), [0] * len(todo)
    shown = 0
    for (h, ix, clause, st, pre), rec, v2 in zip(todo, recs, v2s):
        opkind = st['op'][0]
        origin = ('corpus: ' + h['corpus']) if 'corpus' in h else 'generated history, seed %s' % h.get('seed')
        if rec.get('built_exactly') and v2 != 0 and v2 % 100 == clause:
            case = {'kind': 'pair', 'pre': pre, 'op': rec['op'], 'how': rec['how'], 'origin': origin, 'call_index': ix, 'clause': clause,
                    'observed': {'outcome': OUTCOME.get(rec['code'], rec['code']), 'exception': rec['exc'], 'post': rec['post'],
                                 'reads': rec['reads']}, 'minimal': True}
        else:
            # the single call does not reproduce it (a list facade obtained earlier or an ill-formed pre-state is
            # involved): the replay is the prefix of the history
            case = {'kind': 'ops', 'items': items_of(h, ix), 'origin': origin, 'call_index': ix, 'clause': clause,
                    'op': st['op'], 'how': st['how'], 'pre': pre,
                    'observed': {'outcome': OUTCOME.get(st['code'], st['code']), 'exception': st['exc'], 'post': st['post'],
                                 'reads': st['reads']}, 'minimal': False}
        sig = spec.signature(opkind, clause)
        known = any(k.get('status') == 'known' and k.get('signature') == sig for k in ctx.known)
        if shown < 2 and not known:
            shown += 1
            try:
                case['model'] = model_says(ctx, pre, st['op'])
            except InfraError:
                pass
        if clause in spec.fail:
            what = '%s: %s after %s (%s), outcome %s' % (sig, spec.fail[clause], describe_call(st), origin,
                                                          OUTCOME.get(st['code'], st['code']))
            ctx.failure(sig, what, case)
        else:
            what = '%s: model and implementation differ: %s after %s (%s), outcome %s' % (
                sig, spec.mismatch.get(clause, 'clause %d' % clause), describe_call(st), origin, OUTCOME.get(st['code'], st['code']))
            ctx.mismatch(what, case)


def noop(pre, st):
    return st['code'] == 0 and st['post'] == pre


def run_property(ctx, spec):
    n = N_QUICK if ctx.tier == 'quick' else N_THOROUGH
    corpus = run_corpus(ctx)
    gen, cached = run_generated(ctx, n)
    hists = corpus + gen
    verdicts = coq_verdicts(ctx, spec.which, hists)
    checked = 0
    distinct = set()
    dist = {'op': {}, 'outcome': {}, 'outcome_by_op': {}, 'variant': {}, 'raising_calls': 0, 'calls_through_stale_facades': 0, 'no_op_calls': 0,
            'histories': len(hists), 'corpus_histories': len(corpus), 'history_length': {}, 'implementation_run_from_cache': cached}
    reported = {}
    to_report = []
    oracle_stops = spec.which in (1, 5, 11)     # an oracle failure means an ill-formed state: the history ends there
    for hix, (h, vs) in enumerate(zip(hists, verdicts)):
        upto = len(h['steps'])
        kept = []
        for v in vs:
            kept.append(v)
            if oracle_stops and v % 100 in spec.fail:
                upto = v // 100
                break
        pre = EMPTY
        for st in h['steps'][:upto]:
            checked += 1
            k = st['op'][0]
            dist['op'][k] = dist['op'].get(k, 0) + 1
            oc = OUTCOME.get(st['code'], str(st['code']))
            dist['outcome'][oc] = dist['outcome'].get(oc, 0) + 1
            per = dist['outcome_by_op'].setdefault(k, {})
            per[oc] = per.get(oc, 0) + 1
            vv = '%s:%s' % (st['how'].get('form', '-'), st['how'].get('v', '-'))
            dist['variant'][vv] = dist['variant'].get(vv, 0) + 1
            dist['raising_calls'] += st['code'] != 0
            dist['calls_through_stale_facades'] += bool(st['stale'])
            if noop(pre, st):
                dist['no_op_calls'] += 1
            else:
                distinct.add(hashlib.sha1(json.dumps([pre, st['op']]).encode()).digest())
            pre = st['post']
        b = '%d-%d' % (10 * (len(h['steps']) // 10), 10 * (len(h['steps']) // 10) + 9)
        dist['history_length'][b] = dist['history_length'].get(b, 0) + 1
        for a in h.get('anomalies', []):
            ctx.mismatch('observation anomaly: ' + a, {'origin': h.get('corpus') or h.get('seed')})
        for v in list(kept):
            # Task(..., relations, <custom attribute named like a read-only property>): the model has no such argument.
            # The constructor raises AttributeError; whatever the relations were, nothing may have changed (C15).  The
            # model's verdict on this call (it expects the task to exist) is replaced by that clause.
            stv = h['steps'][v // 100 - 1]
            if stv['how'].get('raise_after') and stv['code'] == 19:
                # remove_all with a caller's filter that raised: the model has no such filter; C15 judges the call below
                kept.remove(v)
                continue
            if stv['how'].get('bad_est') and stv['code'] == 1:
                # likewise a negative estimate / spent next to relation arguments: RuntimeError, and nothing changed
                prev = h['steps'][v // 100 - 2]['post'] if v // 100 >= 2 else EMPTY
                kept.remove(v)
                if spec.pid == 'C15' and stv['post'] != prev and not stv.get('bad_kw_reported'):
                    stv['bad_kw_reported'] = True
                    origin = ('corpus: ' + h['corpus']) if 'corpus' in h else 'generated history, seed %s' % h.get('seed')
                    ctx.failure('C15/NewTaskRel/negative-amount-rejected-after-relations',
                                'C15/NewTaskRel: the constructor raised RuntimeError (%s=-1) and left relations changed, after %s (%s)'
                                % (stv['how']['bad_est'], describe_call(stv), origin),
                                {'kind': 'ops', 'items': items_of(h, v // 100 - 1), 'origin': origin, 'call_index': v // 100 - 1,
                                 'op': stv['op'], 'how': stv['how'], 'pre': prev, 'observed': {'post': stv['post']}})
                continue
            if stv['how'].get('bad_kw') and stv['code'] == 17:
                prev = h['steps'][v // 100 - 2]['post'] if v // 100 >= 2 else EMPTY
                kept.remove(v)
                if spec.pid == 'C15' and stv['post'] != prev and not stv.get('bad_kw_reported'):
                    stv['bad_kw_reported'] = True
                    origin = ('corpus: ' + h['corpus']) if 'corpus' in h else 'generated history, seed %s' % h.get('seed')
                    ctx.failure('C15/NewTaskRel/custom-attribute-rejected-after-relations',
                                'C15/NewTaskRel: the constructor raised AttributeError (custom attribute %r) and left relations changed, after %s (%s)'
                                % (stv['how']['bad_kw'], describe_call(stv), origin),
                                {'kind': 'ops', 'items': items_of(h, v // 100 - 1), 'origin': origin, 'call_index': v // 100 - 1,
                                 'op': stv['op'], 'how': stv['how'], 'pre': prev, 'observed': {'post': stv['post']}})
        for six, stv in enumerate(h['steps'][:upto]):
            if stv['how'].get('raise_after') and stv['code'] == 19:
                dist['filters_that_raised'] = dist.get('filters_that_raised', 0) + 1
                prev = h['steps'][six - 1]['post'] if six >= 1 else EMPTY
                if spec.pid == 'C15' and stv['post'] != prev:
                    origin = ('corpus: ' + h['corpus']) if 'corpus' in h else 'generated history, seed %s' % h.get('seed')
                    ctx.failure('C15/%s/filter-raised-after-a-match' % stv['op'][0],
                                'C15/%s: the caller\'s filter raised after its first match and the call left the graph changed, after %s (%s)'
                                % (stv['op'][0], describe_call(stv), origin),
                                {'kind': 'ops', 'items': items_of(h, six), 'origin': origin, 'call_index': six,
                                 'op': stv['op'], 'how': stv['how'], 'pre': prev, 'observed': {'post': stv['post']}})
        for v in kept:
            if v % 100 == 98:
                ctx.infra_problem('the harness produced a call that no Python caller can make (pub_args false): %s'
                                  % json.dumps(h['steps'][v // 100 - 1]['op']))
                continue
            key = (h['steps'][v // 100 - 1]['op'][0], v % 100)
            reported[key] = reported.get(key, 0) + 1
            if reported[key] <= 2:           # a few witnesses per (call site, clause); all are counted
                to_report.append((h, v))
    report_batch(ctx, spec, to_report)
    dist['verdicts_by_call_site_and_clause'] = {'%s/%d' % k: c for k, c in sorted(reported.items())}
    sample = gen[0]['steps'][:6] if gen else []
    ctx.coverage.update(
        evaluations=checked,
        distinct_nontrivial=len(distinct),
        rule='hand-written corpus (%d histories: witnesses of F1-F10, F25, the seeded changes C01-A and C15-B, boundary cases) + %d generated histories of 10-40 public '
             'calls over 4-8 task objects sharing 3-5 ids and 2-3 WBSs, 26 operation kinds in every syntactic variant, illegal '
             'arguments aimed at by a legality predicate evaluated on the current snapshot, ~15%% of the list calls through a '
             'facade obtained earlier; every call is judged from the implementation\'s actual pre-state (evaluations = calls judged); '
             'distinct non-trivial = distinct (pre-state snapshot, normalised call) pairs whose call raised or changed the state' % (len(corpus), len(gen)),
        samples=[{'op': s['op'], 'how': s['how'], 'outcome': OUTCOME.get(s['code'], s['code']), 'post': s['post']} for s in sample],
        distribution=dist,
        traces_validated_against_impl=len(hists),
        comparison='inside Coq (Graph/Check.v check_hist %d): %s' % (spec.which, spec.notes),
    )
    ctx.assumptions += [
        'object identity, the raw parent and the owner pointer are observed through Task._Task__parent / Task.wbs; the runner '
        'asserts on every snapshot that Task.parent is the raw parent with the WBS root masked and WBS.roots is the root\'s list',
        'ids are ints different from sys.maxsize; names are str; sort keys are id, name (str) and an int attribute; one-shot '
        'iterables are not passed to list-level << >> (the loop would consume them on the first element)',
        'Task subclasses overriding the setters and interpreter recursion depth are not modelled',
    ] + spec.extra_assumptions
    return hists, verdicts


def replay_generic(ctx, spec, rep):
    case = rep['case']
    if case.get('kind') == 'pair':
        rec = ctx.impl_run('graph_impl', {'mode': 'pair', 'cases': [{'pre': case['pre'], 'op': case['op'], 'how': case.get('how') or {}}]})[0]
        v = coq_pair_verdicts(ctx, spec.which, [(case['pre'], rec)])[0]
        st, pre = rec, case['pre']
        print('replay: pre-state rebuilt exactly: %s' % rec.get('built_exactly'))
    else:
        h = ctx.impl_run('graph_impl', {'mode': 'ops', 'histories': [case['items']]})[0]
        if (case.get('how') or {}).get('raise_after') and case.get('call_index') is not None and case['call_index'] < len(h['steps']):
            # remove_all with a caller's filter that raises: judged on the implementation's states (the model has no such filter)
            six = case['call_index']
            st = h['steps'][six]
            pre = h['steps'][six - 1]['post'] if six else EMPTY
            print('replay: call %s' % describe_call(st))
            print('replay: implementation outcome %s (%s)' % (OUTCOME.get(st['code'], st['code']), st['exc']))
            print('replay: pre-state  %s' % json.dumps(pre))
            print('replay: post-state %s' % json.dumps(st['post']))
            if st['code'] == 19 and st['post'] != pre:
                sig = 'C15/%s/filter-raised-after-a-match' % st['op'][0]
                ctx.failure(sig, '%s: the caller\'s filter raised and the call left the graph changed (replayed)' % sig, case)
            ctx.coverage.update(evaluations=1, distinct_nontrivial=1, rule='replay of one case (judged on the observed states)',
                                samples=[{'op': st['op'], 'how': st['how']}])
            return
        vs = coq_verdicts(ctx, spec.which, [h], stem='graphreplay', jobs=1)[0]
        want = [x for x in vs if x // 100 - 1 == case.get('call_index')]
        v = (want or vs or [0])[0]
        ix = v // 100 - 1 if v else len(h['steps']) - 1
        st = h['steps'][ix]
        pre = h['steps'][ix - 1]['post'] if ix else EMPTY
    print('replay: call %s' % describe_call(st))
    print('replay: implementation outcome %s (%s)' % (OUTCOME.get(st['code'], st['code']), st['exc']))
    print('replay: pre-state  %s' % json.dumps(pre))
    print('replay: post-state %s' % json.dumps(st['post']))
    try:
        print('replay: model (outcome code, post-state): %s' % model_says(ctx, pre, st['op']))
    except InfraError:
        pass
    clause = v % 100
    print('replay: checker verdict %d (%s)' % (v, spec.fail.get(clause) or spec.mismatch.get(clause) or ('agrees' if v == 0 else '?')))
    if v != 0:
        sig = spec.signature(st['op'][0], clause)
        if clause in spec.fail:
            ctx.failure(sig, '%s: %s (replayed)' % (sig, spec.fail[clause]), case)
        else:
            ctx.mismatch('%s: model and implementation differ on the replayed call' % sig, case)
    ctx.coverage.update(evaluations=1, distinct_nontrivial=1, rule='replay of one case', samples=[{'op': st['op'], 'how': st['how']}])
