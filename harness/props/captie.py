"""The capacity table of a scheduler case IS the calendar model of C17 (pass of C03, Sched/CapTie.v).

The scheduler harness tabulates the real resource's calendar day by day (`out['rs']`) and the scheduler model and the
oracles run with `cap_of` of that table.  Here the calendar EXPRESSION of every resource of the case (the DSL of
sched_common.gen_calendar; the default calendar for a resource nobody supplied; the EDITED calendar where the case
replaces one before the observed run) is printed as a term of the exact-rational instance of the C17 calendar model and
Coq evaluates   units (cal r) (DAY * d) * K = tab[d]   for every day of the window and the 2 x 7 pattern days
(`check_captie`, meaning proved in CapTieProofs.v / Props_C03.v `C03_captie_meaning`).  A difference is a broken tie
between the two halves of the scheduler verification (`ctx.mismatch`), not a failing input of C03."""
import json
import time
from fractions import Fraction

from harness.common import z, zopt, coq_list
from harness.props import sched_common as sc

HEADER = """From Coq Require Import QArith.
From PJ Require Import Base.Prelude Cal.Calendar Sched.Check Sched.CapTie.
Open Scope Z_scope.
"""

OPK = {'or': 'OpOr', 'add': 'OpAdd', 'sub': 'OpSub', 'mul': 'OpMul', 'div': 'OpDiv'}
MAX_RES = 7          # the packed code of check_captie_full has one octal digit per count


class NotExpressible(Exception):
    pass


# ---------- numbers: exact rationals ------------------------------------------------------------------
def q(x):
    """wire number ['i', n] / ['f', hex] -> Coq term of type Q (the exact value of the int / binary64)"""
    kind, v = x
    try:
        f = Fraction(int(v)) if kind == 'i' else Fraction(float.fromhex(v))
    except (OverflowError, ValueError):
        raise NotExpressible('amount %r is not a rational' % (x,))
    return '(Qmake %s %d%%positive)' % (z(f.numerator), f.denominator)


def assoc(m):
    return coq_list(['(%s, %s)' % (z(k), q(v)) for k, v in m])


def emit_qexpr(e):
    """calendar DSL -> term of Sched.CapTie.qexpr (mirrors props/c17.py emit_expr, amounts as Qmake)"""
    k = e[0]
    if k == 'wdays':
        return '(QWeeklyDays %s %s %s %s)' % (zopt(e[1]), zopt(e[2]), coq_list([z(d) for d in e[3]]), q(e[4]))
    if k == 'wdict':
        return '(QWeeklyDict %s %s %s)' % (zopt(e[1]), zopt(e[2]), assoc(e[3]))
    if k == 'fixed':
        return '(QFixed %s %s %s)' % (q(e[1]), zopt(e[2]), zopt(e[3]))
    if k == 'dated':
        return '(QDated %s)' % assoc(e[1])
    if k == 'datedset':
        return '(QDatedSet %s %s)' % (assoc(e[1]), assoc(e[2]))
    if k == 'binc':
        return '(QBinC %s %s %s)' % (OPK[e[1]], emit_qexpr(e[2]), emit_qexpr(e[3]))
    if k == 'binn':
        return '(QBinN %s %s %s)' % (OPK[e[1]], emit_qexpr(e[2]), q(e[3]))
    if k == 'nary':
        return '(QNary %s %s)' % (OPK[e[1]], coq_list([emit_qexpr(c) for c in e[2]]))
    raise NotExpressible('calendar kind %r' % (k,))


# ---------- which calendar is in force for which resource number ----------------------------------------
def calendars_in_force(case, out):
    """per resource number of the run (order of out['rs']): the calendar expression in force during the observed
    calculation, None for a resource nobody supplied.  Resource numbers are not named in the runner's output: they are
    recovered through the ids of the member tasks (unique, else the runner discards the case)."""
    byid = {}
    for t in case['tasks']:
        if repr(t['id']) in byid:
            raise NotExpressible('task ids of the case are not unique')
        byid[repr(t['id'])] = t.get('resource')
    names = {}
    for k in out['w']:
        if k['ext']:
            continue
        if repr(k['id']) not in byid:
            raise NotExpressible('a member task of the run is not a task of the case')
        nm = byid[repr(k['id'])]
        if names.setdefault(k['res'], nm) != nm:
            raise NotExpressible('one resource number for two names')
    n = len(out['rs'])
    if sorted(names) != list(range(n)) or len(out['supplied']) != n:
        raise NotExpressible('resource numbers are not 0..n-1')
    cals = {}
    for r in case['resources']:
        cals[r['name']] = r['cal']                 # Resource objects are keyed by name, the last one wins
    for name, cal in case.get('edit_calendars') or []:
        inpl = {json.dumps(n): (mode, m) for n, mode, m in (out.get('edited_in_place') or [])}
        if json.dumps(name) in inpl:
            # edited in place: the resource's calendar is `DirectCalendar({}) | cal` or `cal - DirectCalendar({})` whose
            # dated operand got set_units between the two calculations
            mode, more = inpl[json.dumps(name)]
            dated = ['datedset', [], more]
            cals[name] = ['binc', 'or', dated, cals[name]] if mode == 'or' else ['binc', 'sub', cals[name], dated]
        elif name in cals:
            cals[name] = cal                       # resource.calendar = ... between the two calculations
    res = []
    for i in range(n):
        if (names[i] in cals) != bool(out['supplied'][i]):
            raise NotExpressible('the runner disagrees about which resources were supplied')
        res.append(cals.get(names[i]))
    return res


def emit_tiecase(case, out):
    cals = calendars_in_force(case, out)
    if len(cals) > MAX_RES:
        raise NotExpressible('more than %d resources' % MAX_RES)
    items = ['(%s, %s)' % ('None' if c is None else '(Some %s)' % emit_qexpr(c), sc.emit_rescal(r))
             for c, r in zip(cals, out['rs'])]
    return '(Build_tiecase %s %s)' % (z(out.get('K', 8)), coq_list(items)), cals


def wanted(case, out):
    return bool(out.get('rs')) and 'w' in out and not case.get('offgrid') and not case.get('tod_calendars')


def check(ctx, kept, limit=None):
    """pass over the kept on-grid cases; `limit` bounds the number of cases evaluated (quick tier)"""
    skipped = {}
    items = []
    n_edited = 0
    for case, out in kept:
        if not wanted(case, out):
            key = 'offgrid_or_time_of_day_stream' if (case.get('offgrid') or case.get('tod_calendars')) else 'no_tabulation'
            skipped[key] = skipped.get(key, 0) + 1
            continue
        if limit is not None and len(items) >= limit:
            skipped['beyond_the_tier_limit'] = skipped.get('beyond_the_tier_limit', 0) + 1
            continue
        try:
            term, cals = emit_tiecase(case, out)
        except NotExpressible as ex:
            skipped['not_expressible: %s' % ex] = skipped.get('not_expressible: %s' % ex, 0) + 1
            continue
        if case.get('edit_calendars'):
            n_edited += 1
        items.append((case, out, term, cals))
    t0 = time.time()
    codes = ctx.coq_codes('captie', HEADER, 'tiecase', [it[2] for it in items], 'check_captie_full', shard=25)
    n_cal = n_sup = n_nonneg = n_aligned = n_divfree = entries = n_bad = 0
    for (case, out, term, cals), code in zip(items, codes):
        tie, nn, al, df = code % 8, code // 8 % 8, code // 64 % 8, code // 512 % 8
        n_cal += len(cals)
        n_sup += sum(1 for c in cals if c is not None)
        n_nonneg += nn
        n_aligned += al
        n_divfree += df
        per = [len(r['tab']) + 14 for r in out['rs']]
        entries += sum(per) if al == len(cals) else al * (per[0] if per else 0)
        if tie:
            n_bad += 1
            r = tie - 1
            ctx.mismatch('the tabulated capacity of resource number %d differs from the calendar model of C17 evaluated on its '
                         'calendar expression (%s): the capacity function of the scheduler model is not the calendar model here '
                         '(check_captie = %d)' % (r, 'the default calendar' if r < len(cals) and cals[r] is None else
                                                  'supplied' + (', edited between two calculations' if case.get('edit_calendars') else ''), tie),
                         {'case': case, 'resource_number': r, 'calendar_in_force': cals[r] if r < len(cals) else None,
                          'tabulated': out['rs'][r] if r < len(out['rs']) else None, 'K': out.get('K', 8), 'captie_code': code})
    ctx.coverage['captie'] = {
        'cases': len(items), 'calendars': n_cal, 'calendars_supplied': n_sup, 'calendars_default': n_cal - n_sup,
        'cases_with_edited_calendars': n_edited, 'entries_compared': entries,
        'calendars_nonneg': n_nonneg, 'calendars_day_aligned': n_aligned, 'calendars_not_day_aligned_skipped': n_cal - n_aligned,
        'calendars_division_free': n_divfree, 'cases_differing': n_bad,
        'skipped': skipped, 'wall_s': round(time.time() - t0, 1)}
    ctx.assumptions += [
        'C03 capacity tie: on every on-grid case the tabulated capacity of every resource (window and both weekly patterns) '
        'equals the C17 calendar model (exact rationals) evaluated inside Coq on the calendar expression in force '
        '(C03_captie_meaning); trusted: the printer of calendar expressions (props/captie.py) and the recovery of resource '
        'names from task ids; beyond the weekly patterns the table is periodic by the runner\'s probes only',
    ]
    return codes
