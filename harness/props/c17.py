"""C17 - calendars and availability search.  The Gallina model (Cal/Calendar.v) instantiated with
IEEE binary64 is compared bit-exactly with the implementation on generated calendar expressions;
the model is the specification (Props_C17.v proves its loops equal the declarative meaning), so a
disagreement on an input is a concrete failing input of the property."""
import json
import math
import os

from harness import common
from harness.common import z, zopt, coq_list, InfraError

ID = 'C17'
PROPS_FILE = 'Props/Props_C17.v'
EXTRA_TARGETS = ['Cal/CalFloat.vo']
CONST_PARTS = ('srccal',)     # gen/SrcCal.v: calendar.py / resource.py translated from the source text
DAY = 86400_000_000
BASE = 19723 * DAY          # 2024-01-01, a Monday

HEADER = """From Coq Require Import PrimFloat.
From PJ Require Import Base.Prelude Cal.Calendar Cal.CalFloat.
Open Scope Z_scope.
"""

OPS = ['or', 'add', 'sub', 'mul', 'div']
OPK = {'or': 'OpOr', 'add': 'OpAdd', 'sub': 'OpSub', 'mul': 'OpMul', 'div': 'OpDiv'}


# ---------- numbers -------------------------------------------------------------------------------
def fl(x):
    """wire number -> Coq float literal"""
    kind, v = x
    f = float(v) if kind == 'i' else float.fromhex(v)
    return fhex(f.hex())


def fhex(h):
    if h in ('inf', '-inf', 'nan'):
        return {'inf': 'infinity', '-inf': 'neg_infinity', 'nan': 'nan'}[h]
    if h.startswith('-'):
        return '(- %s)%%float' % h[1:]
    return '%s%%float' % h


def gen_num(rng, allow_neg=True):
    r = rng.random()
    if allow_neg and r < 0.07:
        return rng.choice([['i', -1], ['f', (-0.5).hex()], ['i', -8], ['f', (-1e-9).hex()]])
    if r < 0.55:
        return ['i', rng.choice([0, 0, 1, 2, 3, 4, 6, 8, 8, 10, 24])]
    return ['f', rng.choice([0.5, 7.5, 0.1, 2.5, 1e-3, 0.0, 8.0, 1.0, 0.3, 4.0, 1e9]).hex()]


def gen_time(rng, bounds):
    if bounds and rng.random() < 0.5:
        b = rng.choice(bounds)
        return b + rng.choice([0, 0, 1, -1, DAY, -DAY, DAY - 1, 12 * 3600_000_000])
    d = rng.randint(-10, 40)
    tod = rng.choice([0, 0, 0, 1, 12 * 3600_000_000, DAY - 1, 9 * 3600_000_000 + 30 * 60_000_000])
    return BASE + d * DAY + tod


def gen_bound(rng, bounds):
    if rng.random() < 0.55:
        return None
    t = BASE + rng.randint(-5, 30) * DAY + rng.choice([0, 0, 0, 12 * 3600_000_000, 1])
    bounds.append(t)
    return t


def gen_interval(rng, bounds):
    st = gen_bound(rng, bounds)
    en = gen_bound(rng, bounds)
    if st is not None and en is not None and en < st and rng.random() < 0.8:
        st, en = en, st
    return st, en


def gen_leaf(rng, bounds):
    r = rng.random()
    if r < 0.3:
        st, en = gen_interval(rng, bounds)
        days = sorted(set(rng.choice([0, 1, 2, 3, 4, 5, 6]) for _ in range(rng.randint(0, 6))))
        if rng.random() < 0.06:
            days.append(rng.choice([7, -1, 9]))
        return ['wdays', st, en, days, gen_num(rng)]
    if r < 0.5:
        st, en = gen_interval(rng, bounds)
        keys = sorted(set(rng.randint(0, 6) for _ in range(rng.randint(0, 7))))
        if rng.random() < 0.08:
            keys.append(rng.choice([7, -1, 12]))
        return ['wdict', st, en, [[k, gen_num(rng)] for k in keys]]
    if r < 0.75:
        st, en = gen_interval(rng, bounds)
        return ['fixed', gen_num(rng), st, en]
    n = rng.randint(0, 6)
    ents = []
    for _ in range(n):
        t = BASE + rng.randint(-3, 12) * DAY + rng.choice([0, 0, 3600_000_000, DAY - 1])
        bounds.append(t)
        ents.append([t, gen_num(rng)])
    # dict keys must be distinct datetimes
    seen = set()
    ents = [e for e in ents if not (e[0] in seen or seen.add(e[0]))]
    if r < 0.9:
        return ['dated', ents]
    more = []
    for _ in range(rng.randint(1, 3)):
        t = BASE + rng.randint(-3, 12) * DAY + rng.choice([0, 3600_000_000])
        more.append([t, gen_num(rng)])
    seen = set()
    more = [e for e in more if not (e[0] in seen or seen.add(e[0]))]
    return ['datedset', ents, more]


def gen_expr(rng, depth, bounds):
    if depth == 0 or rng.random() < 0.3:
        return gen_leaf(rng, bounds)
    r = rng.random()
    op = rng.choice(OPS)
    if depth >= 1 and rng.random() < 0.15:
        # aimed: a chain of three or four operands under ONE operator, nested to the left or to the right, mostly over
        # calendars that have a value everywhere: (a - b) - c is not a - b - c when a - b is negative (it means "no
        # capacity" and is then skipped), nor is (a / b) / c the same as a / (b / c)
        op = rng.choice(['sub', 'sub', 'sub', 'div', 'or', 'add', 'mul'])
        leaves = [['fixed', gen_num(rng, allow_neg=False), None, None] if rng.random() < 0.75 else gen_leaf(rng, bounds)
                  for _ in range(rng.randint(3, 4))]
        if op == 'sub' and rng.random() < 0.6:          # the first difference is negative
            leaves[0] = ['fixed', ['i', rng.choice([1, 2, 3])], None, None]
            leaves[1] = ['fixed', ['i', rng.choice([4, 5, 8])], None, None]
        if rng.random() < 0.7:
            e = leaves[0]
            for l in leaves[1:]:
                e = ['binc', op, e, l]
        else:
            e = leaves[-1]
            for l in reversed(leaves[:-1]):
                e = ['binc', op, l, e]
        return e
    if r < 0.5:
        return ['binc', op, gen_expr(rng, depth - 1, bounds), gen_expr(rng, depth - 1, bounds)]
    if r < 0.8:
        num = gen_num(rng)
        if op == 'div' and rng.random() < 0.7 and float(num[1]) == 0 if num[0] == 'i' else False:
            num = ['i', 2]
        return ['binn', op, gen_expr(rng, depth - 1, bounds), num]
    return ['nary', op, [gen_expr(rng, depth - 1, bounds) for _ in range(rng.randint(0, 4))]]


def dated_leaves(e, acc=None):
    """The 'dated' / 'datedset' leaves of an expression in the order in which the runner builds them."""
    acc = [] if acc is None else acc
    k = e[0]
    if k in ('dated', 'datedset'):
        acc.append(e)
    elif k == 'binc':
        dated_leaves(e[2], acc)
        dated_leaves(e[3], acc)
    elif k == 'binn':
        dated_leaves(e[2], acc)
    elif k == 'nary':
        for c in e[2]:
            dated_leaves(c, acc)
    return acc


def apply_edit(e, edit):
    """The expression that describes the calendar after the in-place set_units calls of `edit` (values >= 0, so every
    call is accepted and successive calls concatenate)."""
    import copy
    e2 = copy.deepcopy(e)
    leaves = dated_leaves(e2)
    for i, more in edit:
        leaf = leaves[i]
        if leaf[0] == 'dated':
            leaf[0] = 'datedset'
            leaf.append(list(more))
        else:
            leaf[2] = list(leaf[2]) + list(more)
    return e2


def gen_case(rng):
    bounds = []
    aimed = rng.random() < 0.25
    if aimed:
        # aimed at objects that remember answers: an expression around a DirectCalendar that is edited in place between
        # two rounds of the same questions to the same calendar / resource objects
        ents = [[BASE + d * DAY, gen_num(rng, allow_neg=False)] for d in sorted(rng.sample(range(0, 8), rng.randint(0, 4)))]
        expr = ['dated', ents]
        r = rng.random()
        if r < 0.3:
            expr = ['binc', rng.choice(['or', 'add', 'sub']), expr, gen_leaf(rng, bounds)]
        elif r < 0.5:
            expr = ['binc', rng.choice(['or', 'add']), gen_leaf(rng, bounds), expr]
    else:
        expr = gen_expr(rng, rng.choice([0, 1, 1, 2, 2, 3]), bounds)
    if rng.random() < 0.05:
        # division by the NUMBER zero is refused when the expression is built - whatever the dividend looks like (a
        # combinator of combinators, with or without a constant operand): RuntimeError, not another exception
        expr = ['binn', 'div', expr, rng.choice([['i', 0], ['f', (0.0).hex()], ['f', (-0.0).hex()]])]
    evals = [gen_time(rng, bounds) for _ in range(rng.randint(4, 9))]
    units = [gen_time(rng, bounds) for _ in range(rng.randint(2, 4))]
    search = []
    for _ in range(rng.randint(2, 4)):
        d = rng.choice([1, 1, 1, -1, -1, -1, 2, -3, 0])
        n = rng.choice([0, 1, 2, 7, 30, 400, 400, 2000])
        search.append([gen_time(rng, bounds), d, n])
    case = {'expr': expr, 'evals': evals, 'units': units, 'search': search}
    leaves = dated_leaves(expr)
    if leaves and (aimed or rng.random() < 0.5):
        if aimed:
            # whole-day dates around the entries, asked before and after the edit (same datetimes: a memo would hit)
            tod = rng.choice([0, 0, 9 * 3600_000_000])
            case['units'] = [BASE + d * DAY + tod for d in sorted(rng.sample(range(-1, 9), rng.randint(3, 6)))]
            case['evals'] = list(case['units'])
            case['search'] = [[BASE + rng.randint(-1, 3) * DAY + tod, 1, rng.choice([7, 30])],
                              [BASE + rng.randint(5, 9) * DAY + tod, -1, rng.choice([7, 30])],
                              [BASE + rng.randint(0, 5) * DAY + tod, rng.choice([1, -1]), rng.choice([1, 2, 3])]]
        edit = []
        for i in sorted(rng.sample(range(len(leaves)), rng.randint(1, min(2, len(leaves))))):
            pool = [t for t in case['units']] + [BASE + d * DAY for d in range(-1, 9)]
            more = []
            for t in rng.sample(pool, rng.randint(1, min(3, len(pool)))):
                v = ['i', 0] if rng.random() < 0.4 else gen_num(rng, allow_neg=False)
                if not any(m[0] == t for m in more):
                    more.append([t, v])
            edit.append([i, more])
        case['edit'] = edit
    return case


def gen_neutral_case(rng):
    """aimed: a calendar combined with the NUMBER that is neutral for the operator (x * 1, x / 1, x + 0, x - 0, ...) is still
    a combinator with a constant operand: on a date where the calendar has no information the constant alone answers"""
    bounds = []
    inner = gen_leaf(rng, bounds)
    while not bounds:
        bounds = []
        inner = gen_leaf(rng, bounds)
    if rng.random() < 0.3:
        inner = ['binc', rng.choice(OPS), inner, gen_leaf(rng, bounds)]
    op = rng.choice(['mul', 'div', 'mul', 'div', 'add', 'sub', 'or'])
    num = rng.choice([['i', 1], ['f', (1.0).hex()]]) if op in ('mul', 'div') else rng.choice([['i', 0], ['f', (0.0).hex()], ['i', 1]])
    expr = ['binn', op, inner, num]
    if rng.random() < 0.3:
        expr = ['binn', rng.choice(['mul', 'div']), expr, rng.choice([['i', 1], ['f', (1.0).hex()], ['i', 2]])]
    evals = [gen_time(rng, bounds) for _ in range(rng.randint(5, 9))]
    units = [gen_time(rng, bounds) for _ in range(rng.randint(2, 4))]
    search = [[gen_time(rng, bounds), rng.choice([1, -1]), rng.choice([2, 7, 30])] for _ in range(2)]
    return {'expr': expr, 'evals': evals, 'units': units, 'search': search}


CORPUS = [
    # witnesses of F20 (defects repaired by fix commits) and boundary cases; run first on every invocation
    {'expr': ['wdays', BASE + 5 * DAY, BASE, [0, 1], ['i', 8]], 'evals': [BASE], 'units': [BASE], 'search': []},
    {'expr': ['fixed', ['i', 8], BASE + 5 * DAY, BASE], 'evals': [BASE], 'units': [], 'search': []},
    {'expr': ['dated', [[BASE, ['i', -3]]]], 'evals': [BASE], 'units': [BASE], 'search': []},
    {'expr': ['wdict', None, None, [[7, ['i', 8]], [0, ['i', 4]]]], 'evals': [BASE], 'units': [], 'search': []},
    {'expr': ['datedset', [[BASE, ['i', 1]]], [[BASE + 3600_000_000, ['i', 5]]]], 'evals': [BASE, BASE + 1], 'units': [BASE], 'search': []},
    {'expr': ['datedset', [[BASE, ['i', 1]]], [[BASE + DAY, ['i', -5]]]], 'evals': [BASE + DAY], 'units': [], 'search': []},
    {'expr': ['binn', 'div', ['fixed', ['i', 8], None, None], ['i', 0]], 'evals': [BASE], 'units': [], 'search': []},
    {'expr': ['binn', 'div', ['fixed', ['i', 8], None, None], ['f', (0.0).hex()]], 'evals': [BASE], 'units': [], 'search': []},
    {'expr': ['binc', 'div', ['fixed', ['i', 8], None, None], ['fixed', ['i', 0], None, None]], 'evals': [BASE], 'units': [BASE], 'search': [[BASE, 1, 5]]},
    {'expr': ['binn', 'sub', ['wdays', None, None, [0, 1, 2, 3, 4], ['i', 8]], ['i', 10]], 'evals': [BASE, BASE + 5 * DAY], 'units': [BASE], 'search': [[BASE, 1, 30], [BASE, -1, 30]]},
    {'expr': ['wdays', None, None, [0, 1, 2, 3, 4], ['i', 8]], 'evals': [BASE + k * DAY for k in range(7)], 'units': [BASE + 5 * DAY],
     'search': [[BASE + 5 * DAY + 3600_000_000, 1, 100000], [BASE + 7 * DAY + 5, -1, 100000], [BASE + 5 * DAY, 1, 2], [BASE + 5 * DAY, 1, 3]]},
    {'expr': ['fixed', ['i', 0], None, None], 'evals': [BASE], 'units': [BASE], 'search': [[BASE, 1, 100000], [BASE, -1, 100000]]},
    {'expr': ['binc', 'or', ['dated', [[BASE, ['i', 0]], [BASE + DAY, ['i', 3]]]], ['wdays', BASE + DAY, BASE + 3 * DAY, [0, 1, 2, 3, 4, 5, 6], ['f', (7.5).hex()]]],
     'evals': [BASE, BASE + DAY, BASE + 2 * DAY, BASE + 3 * DAY, BASE + 3 * DAY + 1, BASE - 1], 'units': [BASE - 1], 'search': [[BASE - 3 * DAY, 1, 10], [BASE + 10 * DAY, -1, 10]]},
]


# ---------- emission ------------------------------------------------------------------------------
def emit_assoc(m, key=z):
    return coq_list(['(%s, %s)' % (key(k), fl(v)) for k, v in m])


def emit_expr(e):
    k = e[0]
    if k == 'wdays':
        return '(EWeeklyDays %s %s %s %s)' % (zopt(e[1]), zopt(e[2]), coq_list([z(d) for d in e[3]]), fl(e[4]))
    if k == 'wdict':
        return '(EWeeklyDict %s %s %s)' % (zopt(e[1]), zopt(e[2]), emit_assoc(e[3]))
    if k == 'fixed':
        return '(EFixed %s %s %s)' % (fl(e[1]), zopt(e[2]), zopt(e[3]))
    if k == 'dated':
        return '(EDated %s)' % emit_assoc(e[1])
    if k == 'datedset':
        return '(EDatedSet %s %s)' % (emit_assoc(e[1]), emit_assoc(e[2]))
    if k == 'binc':
        return '(EBinC %s %s %s)' % (OPK[e[1]], emit_expr(e[2]), emit_expr(e[3]))
    if k == 'binn':
        return '(EBinN %s %s %s)' % (OPK[e[1]], emit_expr(e[2]), fl(e[3]))
    if k == 'nary':
        return '(ENary %s %s)' % (OPK[e[1]], coq_list([emit_expr(c) for c in e[2]]))
    raise ValueError(k)


CRASH = {10: 'RecursionError', 11: 'KeyError', 12: 'TypeError', 13: 'ValueError', 14: 'IndexError',
         15: 'ZeroDivisionError', 16: 'StopIteration', 17: 'AttributeError'}


def emit_obs(o, val):
    if o[0] == 'ok':
        return '(Ok %s)' % val(o[1])
    code = o[1]
    if code == 1:
        return 'Err'
    if code in CRASH:
        return '(Crash %s)' % CRASH[code]
    return '(Crash OutOfFuel)'   # an exception type the model never produces: guaranteed mismatch


def emit_num_out(v):
    if isinstance(v, list):
        raise InfraError('implementation returned a non-float number: %r' % (v,))
    return fhex(v)


def emit_case(case, obs):
    evs = uns = srs = '[]'
    if obs['build'] == 0:
        evs = coq_list(['(%s, %s)' % (z(t), emit_obs(o, lambda v: 'None' if v is None else '(Some %s)' % emit_num_out(v)))
                        for t, o in zip(case['evals'], obs['evals'])])
        uns = coq_list(['(%s, %s)' % (z(t), emit_obs(o, emit_num_out)) for t, o in zip(case['units'], obs['units'])])
        srs = coq_list(['((%s, %s, %s), %s)' % (z(t), z(d), z(n), emit_obs(o, z))
                        for (t, d, n), o in zip(case['search'], obs['search'])])
    return '(%s, %d%%nat, %s, %s, %s)' % (emit_expr(case['expr']), obs['build'], evs, uns, srs)


def has_structure(e):
    k = e[0]
    if k in ('binc', 'binn', 'nary', 'datedset'):
        return True
    if k in ('wdays', 'wdict'):
        return e[1] is not None or e[2] is not None
    if k == 'fixed':
        return e[2] is not None or e[3] is not None
    return len(e[1]) > 0


WHAT = {1: 'constructor outcome differs from the model (accept/reject)', 2: 'get_available_units differs from the model',
        3: 'Resource.get_available_units differs from the model', 4: 'availability search differs from the model',
        5: 'after an in-place set_units: set_units outcome differs from the model',
        6: 'after an in-place set_units: get_available_units of the same calendar object differs from the model',
        7: 'after an in-place set_units: Resource.get_available_units of the same resource object differs from the model',
        8: 'after an in-place set_units: availability search of the same resource object differs from the model'}


def evaluate(ctx, cases):
    """Run implementation and model on the cases; returns codes."""
    chunks = [cases[i:i + 150] for i in range(0, len(cases), 150)]
    obs = [o for part in ctx.impl_run_many('c17_impl', chunks) for o in part]
    terms = [emit_case(c, o) for c, o in zip(cases, obs)]
    # second round: the same questions to the same objects after DirectCalendars were edited in place; the model
    # answers for the expression that describes the edited calendar
    second = [i for i, (c, o) in enumerate(zip(cases, obs)) if c.get('edit') and o['build'] == 0 and 'evals2' in o]
    for i in second:
        c, o = cases[i], obs[i]
        c2 = dict(c, expr=apply_edit(c['expr'], c['edit']))
        terms.append(emit_case(c2, {'build': 0, 'evals': o['evals2'], 'units': o['units2'], 'search': o['search2']}))
    codes = ctx.coq_codes('cases', HEADER, 'case', terms, 'check_case')
    first, extra = codes[:len(cases)], codes[len(cases):]
    for i, code in zip(second, extra):
        if first[i] == 0 and code != 0:
            first[i] = code + 4
    return obs, first


def run(ctx):
    n = 600 if ctx.tier == 'quick' else 6000
    cases = list(CORPUS) + [gen_case(ctx.rng) for _ in range(n)]
    import random as _random
    rng2 = _random.Random('C17/neutral-number/%s' % ctx.seed)
    cases += [gen_neutral_case(rng2) for _ in range(n // 20)]
    obs, codes = evaluate(ctx, cases)
    distinct = set()
    dist = {'rejected': 0, 'built': 0, 'zero_division': 0, 'search_found': 0, 'search_failed': 0, 'edited_in_place_and_asked_again': 0}
    for c, o in zip(cases, obs):
        key = json.dumps(c['expr'])
        if o['build'] != 0:
            dist['rejected'] += 1
            distinct.add(('rej', key))
            continue
        dist['built'] += 1
        if 'evals2' in o:
            dist['edited_in_place_and_asked_again'] += 1
            distinct.add((key, 'edit', json.dumps(c['edit'])))
        if has_structure(c['expr']):
            for t in c['evals']:
                distinct.add((key, t))
        for q, r in zip(c['evals'], o['evals']):
            if r[0] == 'exc' and r[1] == 15:
                dist['zero_division'] += 1
        for q, r in zip(c['search'], o['search']):
            distinct.add((key, 's', tuple(q)))
            dist['search_found' if r[0] == 'ok' else 'search_failed'] += 1
    for i, code in enumerate(codes):
        if code != 0:
            ctx.failure('C17/%s' % WHAT[code].split(' differs')[0], WHAT[code],
                        {'case': cases[i], 'observed': obs[i], 'from_corpus': i < len(CORPUS)})
    ctx.coverage.update(
        evaluations=len(cases),
        distinct_nontrivial=len(distinct),
        rule='random calendar expressions (depth <= 3 over weekly/dated/fixed leaves, scalars, n-ary constructors, ~7% invalid '
             'definitions) each with 4-9 dates on/around validity bounds, 2-4 resource lookups and 2-4 searches; '
             'distinct = distinct (expression, date) pairs on expressions with a combinator or bounded validity, '
             'distinct rejected definitions, distinct (expression, search) triples',
        samples=[{'case': cases[len(CORPUS)], 'observed': obs[len(CORPUS)]}, {'case': cases[-1], 'observed': obs[-1]}],
        distribution=dict(dist, neutral_number_cases=n // 20),
        traces_validated_against_impl=len(cases),
        comparison='bit-exact IEEE binary64 (Coq primitive floats) on every returned value',
    )
    ctx.assumptions += [
        'FuncCalendar (arbitrary Python callables) and user subclasses of IWorkCalendar are outside the model',
        'Coq primitive floats (hardware binary64 under vm_compute) are used only in the correspondence run, no theorem depends on them',
    ]


def replay(ctx, rep):
    case = rep['case']['case']
    obs, codes = evaluate(ctx, [case])
    print('replay: case %s' % json.dumps(case))
    print('replay: implementation observed %s' % json.dumps(obs[0]))
    print('replay: model verdict code %d (%s)' % (codes[0], WHAT.get(codes[0], 'agrees')))
    if codes[0] != 0:
        ctx.failure('C17/%s' % WHAT[codes[0]].split(' differs')[0], WHAT[codes[0]], {'case': case, 'observed': obs[0]})
    ctx.coverage.update(evaluations=1, distinct_nontrivial=1, rule='replay of one case', samples=[case])
