"""C10 - WBS.clone / WBS.subtree return an independent, faithful copy.

The Gallina model (Graph/Clone.v clone_sel) states the result of the copy at specification level;
Props_C10.v proves that it satisfies the declarative statement (CloneSpec: position-wise bijection
preserving ids, fields, hierarchy, sibling order, the set of internal links; links to other tasks of
the source dropped; outside links kept to the same objects; the source untouched; fresh objects).
Here WBS states are built through the public API (random valid and invalid histories, custom
attributes, WBS attributes, outside tasks linked both ways, outside tasks carrying a member's id),
clone()/subtree(selection) is called, and inside Coq (Graph/CloneCheck.v check_case) the verified
boolean oracle clone_spec_b is evaluated on the implementation's before/after snapshots and the
result is compared with the model (dependency lists as multisets, everything else exactly).  Then
copy and source are mutated and the other side must not change (decided by the run, see
C10_indep_statement)."""
import json

from harness import common
from harness.common import z, zopt, coq_list, coq_opt, coq_bool, InfraError

ID = 'C10'
PROPS_FILE = 'Props/Props_C10.v'
EXTRA_TARGETS = ['Graph/CloneCheck.vo']
CONST_PARTS = ()

HEADER = """From PJ Require Import Base.Prelude Graph.Model Graph.Clone Graph.CloneCheck.
Open Scope nat_scope.
"""


# ---------- corpus --------------------------------------------------------------------------------
# objects: 0 = hidden root of the source WBS, then in order of creation
def tk(i, **kw):
    return ['task', i, kw]


CORPUS = [
    # F23 (a): an outside predecessor (no WBS) carries the id of a member that is a predecessor too -> link dropped
    {'hist': [['wbs', {}], tk(1, name='a'), tk(2, name='b'), ['roots', 0, [1, 2]], tk(1, name='outside'),
              ['preds', 2, [1, 3]]], 'call': ['clone', 0]},
    # F23 (b): an outside predecessor with a member's id -> link redirected to the member's copy
    {'hist': [['wbs', {}], tk(1, name='a'), tk(2, name='b'), ['roots', 0, [1, 2]], tk(1, name='outside'),
              tk(7, name='o7'), ['preds', 2, [3, 4]]], 'call': ['clone', 0]},
    # F23 (b'): the same through subtree, the outside task lives in another WBS and is a successor
    {'hist': [['wbs', {}], tk(1), tk(2), ['roots', 0, [1, 2]], ['wbs', {}], tk(2, name='other'), ['rootadd', 1, 4],
              ['succs', 1, [4]]], 'call': ['subtree', 0, 'list', [1, 2]]},
    # F23 (c): subtree([r, d]) with d below r flattened the hierarchy; also [d, r] and a repeated root
    {'hist': [['wbs', {}], tk(1), tk(2), tk(3), ['rootadd', 0, 1], ['append', 1, 2], ['append', 2, 3]],
     'call': ['subtree', 0, 'list', [1, 2]]},
    {'hist': [['wbs', {}], tk(1), tk(2), tk(3), ['rootadd', 0, 1], ['append', 1, 2], ['append', 2, 3]],
     'call': ['subtree', 0, 'list', [3, 1]]},
    {'hist': [['wbs', {}], tk(1), tk(2), tk(3), ['rootadd', 0, 1], ['append', 1, 2], ['rootadd', 0, 3]],
     'call': ['subtree', 0, 'tuple', [3, 2, 3]]},
    # attributes of the WBS itself are carried over (private ones are not), custom task attributes
    {'hist': [['wbs', {}], tk(1, name='a', prio=3, tag='x', estimate=8, spent=2), ['rootadd', 0, 1],
              ['wattr', 0, 'title', 'Plan'], ['wattr', 0, 'version', 7], ['wattr', 0, '_cache', 1],
              ['attr', 1, '_tmp', 5], ['attr', 1, 'fresh', 'v']],
     'call': ['clone', 0]},
    # a custom attribute present with the value None (constructor keyword / assigned after having had a value) is an
    # attribute of the copy too; likewise a WBS attribute whose value is None
    {'hist': [['wbs', {}], tk(3, name='c', owner=None), tk(4, blocked_by='x', prio=None), ['roots', 0, [1, 2]],
              ['attr', 2, 'blocked_by', None], ['wattr', 0, 'owner', None], ['wattr', 0, 'title', 'Plan']],
     'call': ['clone', 0]},
    {'hist': [['wbs', {}], tk(3, tag=None), tk(4), ['rootadd', 0, 1], ['append', 1, 2], ['attr', 2, 'fresh', None]],
     'call': ['subtree', 0, 'single', [1]]},
    # an outside predecessor without WBS and an outside successor in another WBS: shared, mirror lists gain the copy
    {'hist': [['wbs', {}], tk(1), tk(2), ['rootadd', 0, 1], ['append', 1, 2], tk(9, name='free'), ['preds', 2, [3]],
              ['wbs', {}], tk(5), ['rootadd', 1, 5], ['succs', 1, [5]]], 'call': ['clone', 0]},
    # subtree drops the links to members that are not selected, keeps internal and outside ones
    {'hist': [['wbs', {}], tk(1), tk(2), tk(3), tk(4), ['roots', 0, [1, 2, 3]], ['append', 2, 4], tk(8),
              ['preds', 4, [1, 3, 5]], ['succs', 2, [3]]], 'call': ['subtree', 0, 'list', [2, 3]]},
    # order of the dependency lists is not preserved by the rebuild (sets are): x.predecessors = [a, b]
    {'hist': [['wbs', {}], tk(1, name='b'), tk(2, name='x'), tk(3, name='a'), ['roots', 0, [1, 2, 3]],
              ['preds', 2, [3, 1]]], 'call': ['clone', 0]},
    # boundary: empty WBS, empty selection, None, a single task instead of a list, a generator
    {'hist': [['wbs', {}]], 'call': ['clone', 0]},
    {'hist': [['wbs', {}], tk(1), ['rootadd', 0, 1]], 'call': ['subtree', 0, 'list', []]},
    {'hist': [['wbs', {}], tk(1), ['rootadd', 0, 1]], 'call': ['subtree', 0, 'none', []]},
    {'hist': [['wbs', {}], tk(1), tk(2), ['rootadd', 0, 1], ['append', 1, 2]], 'call': ['subtree', 0, 'single', [2]]},
    {'hist': [['wbs', {}], tk(1), tk(2), ['rootadd', 0, 1], ['rootadd', 0, 2]], 'call': ['subtree', 0, 'gen', [2, None, 1]]},
]
N_F23 = 5       # the first five corpus cases fail on the unrepaired code (F23)


# ---------- emission ------------------------------------------------------------------------------
def nat(n):
    return '%d' % n


def zz(n):
    return '(%d)%%Z' % n


def onat(x):
    return 'None' if x is None else '(Some %d)' % x


def oz(x):
    return 'None' if x is None else '(Some %s)' % zz(x)


def nlist(l):
    return '[' + '; '.join(nat(x) for x in l) + ']'


def zlist(l):
    return '[' + '; '.join(zz(x) for x in l) + ']'


def emit_task(r):
    tid, par, kids, preds, succs, own, hid, prio, name, est = r
    return '(T %s %s %s %s %s %s %s %s %s %s)' % (zz(tid), onat(par), nlist(kids), nlist(preds), nlist(succs), onat(own),
                                                  coq_bool(hid), oz(prio), zlist(name), oz(est))


def emit_state(s):
    return '(S_ [%s] %s)' % ('; '.join(emit_task(r) for r in s['heap']), nlist(s['wroots']))


def emit_case(o):
    call = o['case']['call']
    for r in o['pre']['heap'] + o['post']['heap']:
        if not isinstance(r[0], int) or isinstance(r[0], bool):
            raise InfraError('non-integer task id in a generated case')
    if call[0] == 'clone':
        sel = 'None'
    else:
        sel = '(Some [%s])' % '; '.join(onat(x) for x in call[3])
    code = o['code'] if o['code'] != 19 else 18
    return '(%s, %s, %s, %s, %s, (%s, %s, %s))' % (emit_state(o['pre']), nat(call[1]), sel, nat(code), emit_state(o['post']),
                                                   zlist(o['wa_pre']), zlist(o['wa_src']), zlist(o['wa_new']))


WHAT = {
    1: 'the call raised',
    2: 'the result satisfies the oracle but differs from the model',
    3: 'the new WBS / its hidden root is not well formed or not fresh',
    4: 'tasks of the new WBS do not correspond one to one (by preorder position) to the selected tasks, or are not new objects',
    5: 'a copy differs from its original in id / fields / custom attributes, or does not report the new WBS as owner',
    6: 'hierarchy or sibling order of the copy differs from the source',
    7: 'the dependency links among the copies are not the links among the originals',
    8: 'links leaving the selection: a copy is linked with a task of the source WBS, or an outside link was dropped / redirected',
    9: 'an object that existed before the call changed (other than an outside task gaining copies in its mirror list)',
    10: 'public attributes of the WBS object were not carried over (or the source lost them)',
    11: 'the graph after the call is not well formed',
    90: 'generated state is not well formed before the call (C01 domain)',
    91: 'generated selection is not inside the source WBS',
    92: 'model walk ran out of fuel',
    93: 'clone(): members differ from WBS.tasks',
    94: 'a hidden WBS root of the generated state does not carry the reserved id (hypothesis hid_ids of C10_wf)',
}
CLAUSE = {1: 'raised', 3: 'new-wbs', 4: 'bijection', 5: 'fields-owner', 6: 'hierarchy', 7: 'internal-links', 8: 'outside-links',
          9: 'source-changed', 10: 'wbs-attributes', 11: 'not-well-formed'}


def site(o):
    return o['case']['call'][0]


def decide(ctx, o, code, from_corpus):
    case = {'case': o['case'], 'observed': {k: o[k] for k in ('pre', 'post', 'code', 'exc', 'wa_pre', 'wa_src', 'wa_new')},
            'from_corpus': from_corpus}
    if o.get('anomalies'):
        ctx.mismatch('snapshot anomaly: %s' % o['anomalies'][0], case)
    if code in CLAUSE:
        ctx.failure('C10/%s/%s' % (site(o), CLAUSE[code]), '%s: %s' % (site(o), WHAT[code]), case)
    elif code != 0:
        ctx.mismatch('%s: %s (code %d)' % (site(o), WHAT.get(code, '?'), code), case)
    if o['code'] == 0:
        if not o.get('new_is_wbs', True) or not o.get('roots_eq_children', True):
            ctx.failure('C10/%s/new-wbs' % site(o), 'the returned object is not a plain WBS', case)
        for ph in o.get('indep', []):
            if not ph['other_unchanged']:
                case2 = dict(case)
                case2['independence'] = ph
                ctx.failure('C10/%s/independence-%s' % (site(o), ph['side']),
                            'mutating the %s changed the other side' % ph['side'], case2)


def evaluate(ctx, obs):
    terms = [emit_case(o) for o in obs]
    return ctx.coq_codes('cases', HEADER, 'ccase', terms, 'check_case', shard=60, jobs=16)


def run(ctx):
    n = 750 if ctx.tier == 'quick' else 12000
    seeds = [ctx.rng.getrandbits(48) for _ in range(n)]
    chunk = 75 if ctx.tier == 'quick' else 250
    payloads = [{'mode': 'ops', 'cases': CORPUS}] + [{'mode': 'gen', 'seeds': seeds[i:i + chunk]} for i in range(0, n, chunk)]
    obs = [o for part in ctx.impl_run_many('c10_impl', payloads, jobs=16) for o in part]
    codes = evaluate(ctx, obs)
    k = len(CORPUS)
    dist = {'call': {}, 'outcome': {}, 'members': {}, 'selection': {'empty': 0, 'nested_or_repeated': 0, 'plain': 0, 'with_None': 0},
            'form': {}, 'outside_links': 0, 'outside_with_member_id_linked': 0, 'dropped_links': 0, 'internal_links': 0,
            'wbs_attributes': 0, 'history_ops': 0, 'history_ops_raised': 0, 'after_ops': 0, 'after_ops_raised': 0,
            'source_has_custom_attribute_with_value_None': 0, 'source_wbs_has_attribute_with_value_None': 0}
    distinct = set()
    for i, (o, code) in enumerate(zip(obs, codes)):
        decide(ctx, o, code, i < k)
        call = o['case']['call']
        dist['call'][call[0]] = dist['call'].get(call[0], 0) + 1
        oc = 'returned' if o['code'] == 0 else (o.get('exc') or '?').split(':')[0]
        dist['outcome'][oc] = dist['outcome'].get(oc, 0) + 1
        dist['history_ops'] += len(o['case']['hist'])
        dist['history_ops_raised'] += o.get('hist_raised', 0)
        dist['source_has_custom_attribute_with_value_None'] += 1 if o.get('none_valued_custom') else 0
        dist['source_wbs_has_attribute_with_value_None'] += 1 if o.get('none_valued_wattr') else 0
        heap = o['pre']['heap']
        nsrc = sum(1 for r in heap if r[5] == call[1] and not r[6])
        new = len(o['post']['heap']) - len(heap) - 1 if o['code'] == 0 else 0
        b = '0' if new == 0 else '1-3' if new <= 3 else '4-6' if new <= 6 else '7+'
        dist['members'][b] = dist['members'].get(b, 0) + 1
        if call[0] == 'subtree':
            dist['form'][call[2]] = dist['form'].get(call[2], 0) + 1
            sel = [x for x in call[3] if x is not None]
            if len(sel) != len(call[3]):
                dist['selection']['with_None'] += 1
            if not sel:
                dist['selection']['empty'] += 1
            else:
                roots_kept = len(o['post']['heap'][len(heap)][2]) if o['code'] == 0 else len(sel)
                dist['selection']['nested_or_repeated' if roots_kept < len(sel) else 'plain'] += 1
        if o['wa_pre']:
            dist['wbs_attributes'] += 1
        # links of the copied tasks, classified on the source
        nontrivial = False
        if o['code'] == 0 and new > 0:
            n0 = len(heap)
            post = o['post']['heap']
            copies = post[n0 + 1:n0 + 1 + new]
            member_ids = set()
            ext = drop = intl = 0
            # members = objects whose copy exists: recover by position from the model's point of view is not needed here,
            # classify on the copies: a link to an old object is an outside link
            for c in copies:
                for y in c[3] + c[4]:
                    if y < n0:
                        ext += 1
                        if any(r[5] == call[1] and not r[6] and r[0] == heap[y][0] for r in heap):
                            dist['outside_with_member_id_linked'] += 1
                    else:
                        intl += 1
            src_links = sum(len(r[3]) + len(r[4]) for r in heap if r[5] == call[1] and not r[6])
            if call[0] == 'clone':
                drop = 0
            else:
                drop = 1 if new < nsrc and src_links > ext + intl else 0
            dist['outside_links'] += 1 if ext else 0
            dist['internal_links'] += 1 if intl else 0
            dist['dropped_links'] += drop
            nontrivial = new >= 2 and (ext + intl > 0 or any(c[2] for c in copies))
        if nontrivial:
            distinct.add(json.dumps([o['pre'], call], sort_keys=True))
        for ph in o.get('indep', []):
            dist['after_ops'] += len(ph['codes'])
            dist['after_ops_raised'] += sum(1 for c in ph['codes'] if c != 0)
    ctx.coverage.update(
        evaluations=len(obs),
        distinct_nontrivial=len(distinct),
        rule='WBS states built through the public API (0-10 tasks in the source WBS, depth <= 4, links inside, links both ways '
             'to tasks of another WBS / free tasks, outside tasks carrying ids of members, custom task attributes, WBS '
             'attributes, then 0-5 further random valid/invalid mutations), one clone() or subtree(selection) call '
             '(selection: list/tuple/generator/task list/single task/None, repeated and nested roots, None entries), then 1-4 '
             'mutations of the copy and 1-4 of the source; distinct = distinct (pre-state, call) pairs whose copy has >= 2 '
             'tasks and at least one link or parent/child relation',
        samples=[{'case': obs[0]['case'], 'verdict': codes[0]}, {'case': obs[-1]['case'], 'verdict': codes[-1]}],
        distribution=dist,
        traces_validated_against_impl=len(obs),
        comparison='inside Coq (Graph/CloneCheck.v check_case): WF of the state before, oracle clone_spec_b (7 clauses) on the '
                   'implementation snapshots, WBS attribute tokens, WF after, equality with the model clone_sel (dependency '
                   'lists as multisets); independence under later mutation: snapshot comparison in the runner',
    )
    ctx.assumptions += [
        'attribute values are compared by a token of (name, type, repr) of every public attribute PRESENT in the task (a key '
        'whose value is None is distinguished from an absent key; name, resource, start, '
        'end, milestone, min_start, spent, custom ones); prio (int) and estimate (int) are model fields of their own; the '
        'copy is shallow: a mutable attribute VALUE is shared by reference (DESIGN 4.10, not claimed)',
        'attributes given to the WBS constructor land on the hidden root task, not on the WBS object; they are not public '
        'attributes of the WBS and are not carried over (not claimed)',
        'independence under later mutation (C10_indep_statement) is decided by this run (mutations of either side, snapshot '
        'of the other side), not by a theorem: the frame lemmas of the mutators belong to C16',
        'selections are tasks of the source WBS (sel_ok, evaluated on every case); hierarchies deeper than the interpreter '
        'recursion limit are excluded (F16)',
    ]


def replay(ctx, rep):
    case = rep['case']['case']
    obs = ctx.impl_run('c10_impl', {'mode': 'ops', 'cases': [case]})
    codes = evaluate(ctx, obs)
    print('replay: case %s' % json.dumps(case))
    print('replay: implementation observed code=%s exc=%s' % (obs[0]['code'], obs[0]['exc']))
    print('replay: pre  %s' % json.dumps(obs[0]['pre']))
    print('replay: post %s' % json.dumps(obs[0]['post']))
    print('replay: verdict code %d (%s)' % (codes[0], WHAT.get(codes[0], 'agrees')))
    for ph in obs[0].get('indep', []):
        print('replay: mutation of the %s: other side unchanged = %s' % (ph['side'], ph['other_unchanged']))
    decide(ctx, obs[0], codes[0], False)
    ctx.coverage.update(evaluations=1, distinct_nontrivial=1, rule='replay of one case', samples=[case])
