"""Helpers shared by the implementation runners (executed with the repository on PYTHONPATH)."""
import json
import sys
from datetime import datetime, timedelta

EPOCH = datetime(1970, 1, 1)
US = timedelta(microseconds=1)


def to_us(dt):
    return None if dt is None else (dt - EPOCH) // US


def from_us(n):
    return None if n is None else EPOCH + timedelta(microseconds=n)


def exc_code(e):
    """Outcome class of a raised exception, numbered as Base/Prelude.v crash_code."""
    if isinstance(e, RecursionError):
        return 10
    if isinstance(e, RuntimeError):
        return 1
    table = [(KeyError, 11), (TypeError, 12), (ValueError, 13), (IndexError, 14), (ZeroDivisionError, 15),
             (StopIteration, 16), (AttributeError, 17)]
    for cls, code in table:
        if isinstance(e, cls):
            return code
    return 19   # any other exception type


def num_in(x):
    """number from the wire: ['i', int] or ['f', hex]"""
    kind, v = x
    return int(v) if kind == 'i' else float.fromhex(v)


def num_out(x):
    """number to the wire as a float hex (ints are converted; exact below 2**53)"""
    if x is None:
        return None
    if isinstance(x, bool):
        return ['bool', x]
    if isinstance(x, int):
        if abs(x) >= 2 ** 53:
            return ['big', str(x)]
        return float(x).hex()
    if isinstance(x, float):
        return x.hex()
    return ['other', repr(x)]


def main(fn):
    payload = json.load(sys.stdin)
    out = fn(payload)
    json.dump(out, sys.stdout)
