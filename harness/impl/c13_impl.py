"""Runs CSV round-trip cases on the implementation (pjplan.write_csv / pjplan.read_csv).

case kinds
  {'kind': 'round', 'wbs': [node...]}   build the WBS through the public API, write it, read the
        file back, write the re-read WBS, read that file and write once more.
  {'kind': 'read', 'file': text}        store the text as UTF-8 bytes and read it.
node = {'id', 'name', 'resource', 'start', 'end' (microseconds or None), 'estimate', 'spent'
        (['i', int] | ['f', hex] | None), 'milestone', 'min_start', 'custom': [[name, value]],
        'preds': [id...], 'kids': [node...]};  custom value = None | ['s', str] | ['i', int] |
        ['f', hex] | ['b', bool].
Every exception of the implementation is caught and reported by class (util.exc_code)."""
import csv
import os
import tempfile
from datetime import datetime

from harness.impl.util import from_us, to_us, exc_code, main

from pjplan import WBS, Task, read_csv, write_csv

OWN = ('name', 'resource', 'start', 'end', 'milestone', 'min_start')


def num_in(x):
    if x is None:
        return None
    kind, v = x
    return int(v) if kind == 'i' else float.fromhex(v)


def cval_in(x):
    if x is None:
        return None
    kind, v = x
    if kind == 's':
        return v
    if kind == 'i':
        return int(v)
    if kind == 'f':
        return float.fromhex(v)
    if kind == 'b':
        return bool(v)
    raise ValueError(kind)


def build(nodes):
    """WBS from the wire format, through the public API only."""
    w = WBS()
    by_id = {}
    links = []

    def mk(node, parent):
        t = Task(node['id'], node['name'], resource=node['resource'], start=from_us(node['start']),
                 end=from_us(node['end']), milestone=node['milestone'], estimate=num_in(node['estimate']),
                 spent=num_in(node['spent']), min_start=from_us(node['min_start']),
                 **{k: cval_in(v) for k, v in node['custom']})
        if parent is None:
            w.roots.append(t)
        else:
            parent.children.append(t)
        by_id[node['id']] = t
        links.append((t, node['preds']))
        for k in node['kids']:
            mk(k, t)

    for n in nodes:
        mk(n, None)
    for t, preds in links:
        if preds:
            t.predecessors = [by_id[p] for p in preds]
    return w


def num_obs(x):
    """[printed text, canonical repr of the float value, type name]"""
    if x is None:
        return None
    try:
        canon = repr(float(x))
    except Exception:  # noqa
        canon = None
    return [str(x), canon, type(x).__name__]


def date_obs(x):
    if x is None:
        return None
    if isinstance(x, datetime):
        return ['us', to_us(x)]
    return ['other', type(x).__name__, repr(x)]


def text_obs(x):
    if x is None or isinstance(x, str):
        return x
    return ['other', type(x).__name__, repr(x)]


def snap_task(t):
    custom = []
    for k, v in t.__dict__.items():
        if k.startswith('_') or k in OWN:
            continue
        custom.append([k, None if v is None else str(v), type(v).__name__])
    return {
        'id': t.id if isinstance(t.id, int) and not isinstance(t.id, bool) else ['other', type(t.id).__name__, repr(t.id)],
        'name': text_obs(t.name), 'resource': text_obs(t.resource),
        'start': date_obs(t.start), 'end': date_obs(t.end),
        'estimate': num_obs(t.estimate), 'spent': num_obs(t.spent),
        'milestone': t.milestone if isinstance(t.milestone, bool) else ['other', type(t.milestone).__name__, repr(t.milestone)],
        'min_start': date_obs(t.min_start),
        'custom': custom,
        'preds': [p.id for p in t.predecessors],
        'parent': t.parent.id if t.parent is not None else None,
        'kids': [snap_task(c) for c in t.children],
    }


def snap(w):
    return {'roots': [snap_task(t) for t in w.roots], 'order': [t.id for t in w.tasks]}


# ---------- the property evaluated directly on the implementation's objects (auxiliary oracle) ----------
def _txt(x):
    return '' if x is None else x


def _cust(t):
    return {k: ('' if v is None else str(v)) for k, v in t.__dict__.items() if not k.startswith('_') and k not in OWN}


def py_differences(a, b):
    """differences between the WBS a and the re-read WBS b, in the words of the property"""
    diffs = []
    ia, ib = [t.id for t in a.tasks], [t.id for t in b.tasks]
    if ia != ib or [type(i) for i in ia] != [type(i) for i in ib]:
        return ['task ids / order: %r -> %r' % (ia, ib)]
    if [t.id for t in a.roots] != [t.id for t in b.roots]:
        diffs.append('roots: %r -> %r' % ([t.id for t in a.roots], [t.id for t in b.roots]))
    for x, y in zip(a.tasks, b.tasks):
        px = x.parent.id if x.parent is not None else None
        py = y.parent.id if y.parent is not None else None
        if px != py:
            diffs.append('task %r: parent %r -> %r' % (x.id, px, py))
        if [c.id for c in x.children] != [c.id for c in y.children]:
            diffs.append('task %r: children %r -> %r' % (x.id, [c.id for c in x.children], [c.id for c in y.children]))
        if [p.id for p in x.predecessors] != [p.id for p in y.predecessors]:
            diffs.append('task %r: predecessors %r -> %r' % (x.id, [p.id for p in x.predecessors], [p.id for p in y.predecessors]))
        for f in ('name', 'resource'):
            if _txt(getattr(x, f)) != _txt(getattr(y, f)):
                diffs.append('task %r: %s %r -> %r' % (x.id, f, getattr(x, f), getattr(y, f)))
        for f in ('start', 'end', 'estimate', 'spent', 'milestone', 'min_start'):
            u, v = getattr(x, f), getattr(y, f)
            if not (u == v and (u is None) == (v is None)):
                diffs.append('task %r: %s %r -> %r' % (x.id, f, u, v))
        cx, cy = _cust(x), _cust(y)
        for k in sorted(set(cx) | set(cy)):
            if cx.get(k, '') != cy.get(k, ''):
                diffs.append('task %r: attribute %s %r -> %r' % (x.id, k, cx.get(k), cy.get(k)))
    return diffs


def attempt(fn):
    try:
        return 0, None, fn()
    except BaseException as ex:  # noqa
        return exc_code(ex), '%s: %s' % (type(ex).__name__, str(ex)[:200]), None


def read_text(path):
    with open(path, 'rb') as f:
        return f.read().decode('utf-8')


SPELLINGS = ('UTF-8', 'utf8', 'utf_8', 'U8', 'utf-8')


def spelling_probe(path, w_ref, n):
    """the same file read again with the encoding named explicitly, by another spelling of the default codec name
    (Python resolves all of them to the one UTF-8 codec): the loaded WBS must have the same meaning"""
    enc = SPELLINGS[n % len(SPELLINGS)]
    code, msg, w = attempt(lambda: read_csv(path, encoding=enc))
    if code != 0:
        return ['read_csv(encoding=%r) raises %s where read_csv() loads the file' % (enc, msg)]
    if snap(w) != snap(w_ref):
        return ['read_csv(encoding=%r) loads another WBS than read_csv()' % enc] + py_differences(w_ref, w)[:4]
    return []


def run_round(case, d):
    out = {}
    code, msg, w = attempt(lambda: build(case['wbs']))
    out['build'] = code
    if code != 0:
        out['build_exc'] = msg
        return out
    p1, p2, p3 = (os.path.join(d, n) for n in ('1.csv', '2.csv', '3.csv'))
    for p in (p1, p2, p3):
        if os.path.exists(p):
            os.remove(p)
    out['wcode'], out['wexc'], _ = attempt(lambda: write_csv(w, p1))
    if out['wcode'] != 0:
        return out
    out['file1'] = read_text(p1)
    out['rcode'], out['rexc'], w1 = attempt(lambda: read_csv(p1))
    if out['rcode'] != 0:
        return out
    out['w1'] = snap(w1)
    out['py_diffs'] = py_differences(w, w1)[:12]
    out['enc_diffs'] = spelling_probe(p1, w1, case.get('n', 0))
    out['w2code'], out['w2exc'], _ = attempt(lambda: write_csv(w1, p2))
    if out['w2code'] != 0:
        return out
    out['file2'] = read_text(p2)
    out['r2code'], out['r2exc'], w2 = attempt(lambda: read_csv(p2))
    if out['r2code'] != 0:
        return out
    out['w3code'], out['w3exc'], _ = attempt(lambda: write_csv(w2, p3))
    if out['w3code'] != 0:
        return out
    out['file3'] = read_text(p3)
    return out


def run_read(case, d):
    p = os.path.join(d, 'h.csv')
    with open(p, 'wb') as f:
        f.write(case['file'].encode('utf-8'))
    out = {}
    out['rcode'], out['rexc'], w1 = attempt(lambda: read_csv(p))
    if out['rcode'] == 0:
        out['w1'] = snap(w1)
        out['enc_diffs'] = spelling_probe(p, w1, case.get('n', 0))
    return out


def run_all(cases):
    res = []
    with tempfile.TemporaryDirectory(prefix='c13-') as d:
        for n, c in enumerate(cases):
            c = dict(c, n=n)
            res.append(run_round(c, d) if c['kind'] == 'round' else run_read(c, d))
    return {'results': res, 'field_size_limit': csv.field_size_limit()}


main(run_all)
