"""Runs calendar cases on the implementation: build the expression through the public API,
query get_available_units, Resource.get_available_units and the availability search."""
from harness.impl.util import from_us, to_us, exc_code, num_in, num_out, main

import pjplan
from pjplan import WeeklyCalendar, DirectCalendar, FixedCalendar, Resource
from pjplan import calendar as calmod

NARY = {'or': 'WorkCalendarDisjunction', 'add': 'WorkCalendarSum', 'sub': 'WorkCalendarSub',
        'mul': 'WorkCalendarsMul', 'div': 'WorkCalendarDiv'}


BASE_POKE = 19723 * 86400_000_000 + 5 * 86400_000_000      # 2024-01-06, inside the window the cases ask about
DIRECT = []     # the DirectCalendar objects of the expression, in build order (edited in place by a case's 'edit')


def build(e):
    c = build1(e)
    if isinstance(c, DirectCalendar):
        DIRECT.append(c)
    return c


def build1(e):
    k = e[0]
    if k == 'wdays':
        _, st, en, days, u = e
        return WeeklyCalendar(start=from_us(st), end=from_us(en), days=list(days), units_per_day=num_in(u))
    if k == 'wdict':
        _, st, en, m = e
        # the dict stays the CALLER's: a second calendar is built from it, then the caller changes it (other hours on the
        # configured weekdays, hours on the others) - none of which may show in the calendar of the case
        given = {int(d): num_in(v) for d, v in m}
        c = WeeklyCalendar(start=from_us(st), end=from_us(en), units_per_day=given)
        try:
            WeeklyCalendar(units_per_day=given)
        except BaseException:  # noqa - the twin is not part of the case
            pass
        for d in range(7):
            given[d] = 9.25 if d in given else 3.5
        return c
    if k == 'fixed':
        _, u, st, en = e
        return FixedCalendar(num_in(u), from_us(st), from_us(en))
    if k in ('dated', 'datedset'):
        # The dict handed to the constructor stays the CALLER's: it is used for a second calendar, which is then edited
        # in place, and it is changed by the caller afterwards - none of which may show in the calendar of the case.
        given = {from_us(t): num_in(v) for t, v in e[1]}
        if given:
            c = DirectCalendar(given)
            twin = DirectCalendar(given)
        else:
            # nothing configured: built without argument, like the twin (two empty calendars are two calendars)
            c = DirectCalendar()
            twin = DirectCalendar()
        if k == 'datedset':
            more = {from_us(t): num_in(v) for t, v in e[2]}
            c.set_units(more)
            more.clear()
        try:
            twin.set_units({d: 123.0 for d in list(given)[:2]} | {from_us(BASE_POKE): 77.0})
        except BaseException:  # noqa - the twin is not part of the case
            pass
        for d in list(given)[:1]:
            given[d] = 4321.0
        given[from_us(BASE_POKE + 86400_000_000)] = 55.0
        return c
    if k in ('binc', 'binn'):
        _, op, a, b = e
        ca = build(a)
        cb = build(b) if k == 'binc' else num_in(b)
        if op == 'or':
            return ca | cb
        if op == 'add':
            return ca + cb
        if op == 'sub':
            return ca - cb
        if op == 'mul':
            return ca * cb
        if op == 'div':
            return ca / cb
    if k == 'nary':
        _, op, cs = e
        return getattr(calmod, NARY[op])([build(c) for c in cs])
    raise ValueError(k)


def observe(fn):
    try:
        return ['ok', fn()]
    except BaseException as ex:  # noqa
        return ['exc', exc_code(ex), type(ex).__name__]


def run_case(case):
    out = {}
    del DIRECT[:]
    try:
        cal = build(case['expr'])
        out['build'] = 0
    except BaseException as ex:  # noqa
        out['build'] = exc_code(ex)
        out['build_exc'] = type(ex).__name__
        return out
    out['evals'] = [observe(lambda: num_out(cal.get_available_units(from_us(t)))) for t in case['evals']]
    res = Resource('r', cal)
    out['units'] = [observe(lambda: num_out(res.get_available_units(from_us(t)))) for t in case['units']]
    out['search'] = [observe(lambda: to_us(res.get_nearest_availability_date(from_us(t), d, n)))
                     for t, d, n in case['search']]
    if case.get('edit'):
        # the calendars are mutable objects: edit DirectCalendars of the expression in place and ask the SAME calendar
        # and the SAME resource object again (a resource or combinator that remembers answers is wrong now)
        for i, more in case['edit']:
            DIRECT[i].set_units({from_us(t): num_in(v) for t, v in more})
        out['evals2'] = [observe(lambda: num_out(cal.get_available_units(from_us(t)))) for t in case['evals']]
        out['units2'] = [observe(lambda: num_out(res.get_available_units(from_us(t)))) for t in case['units']]
        out['search2'] = [observe(lambda: to_us(res.get_nearest_availability_date(from_us(t), d, n)))
                          for t, d, n in case['search']]
    return out


if __name__ == '__main__':
    main(lambda payload: [run_case(c) for c in payload])
