"""Runs query / bulk-assignment / remove_all cases on the implementation.

A case builds a small WBS (or a tree of free tasks) through the public API, obtains a task list
(wbs.tasks, wbs.roots, t.children, t.all_children, or a filtered list), performs one call and
reports: outcome class, the returned tasks (as object numbers, in order), every task still
reachable from the roots afterwards (preorder, with id, public parent id and the attribute state)
and, for remove_all, the descendants each returned task still has."""
from datetime import datetime

from harness.impl.util import from_us, to_us, exc_code, main

from pjplan import Task, WBS
from pjplan.task import _ImmutableTaskList

CTOR = ('name', 'resource', 'start', 'end', 'milestone', 'estimate', 'spent', 'min_start')


def val_in(v):
    if v is None:
        return None
    k = v[0]
    if k == 'b':
        return bool(v[1])
    if k == 'i':
        return int(v[1])
    if k == 'f':
        return float.fromhex(v[1])
    if k == 's':
        return v[1]
    if k == 't':
        return from_us(v[1])
    raise ValueError(v)


def val_out(x):
    if x is None:
        return None
    if isinstance(x, bool):
        return ['b', x]
    if isinstance(x, int):
        return ['i', str(x)]
    if isinstance(x, float):
        return ['f', x.hex()]
    if isinstance(x, str):
        return ['s', x]
    if isinstance(x, datetime):
        return ['t', to_us(x)]
    return ['x', repr(x)]


def arg_in(a):
    if a[0] == 'v':
        return val_in(a[1])
    vals = [val_in(x) for x in a[1]]
    shape = a[2] if len(a) > 2 else 'list'
    return {'list': list, 'tuple': tuple, 'set': set}[shape](vals)


def view(t, k):
    """What a filter is meant to see of attribute k (used by callable keys only)."""
    if k == 'parent_id':
        return t.parent.id if t.parent else None
    if k == 'id':
        return t.id
    if k in ('estimate', 'spent'):
        return getattr(t, k)
    return t.__dict__.get(k)


def pred_in(p):
    k = p[0]
    if k == 'const':
        b = bool(p[1])
        return lambda t: b
    if k == 'idin':
        vals = [val_in(x) for x in p[1]]
        return lambda t: t.id in vals
    if k == 'has':
        name = p[1]
        return lambda t: view(t, name) is not None
    if k == 'not':
        inner = pred_in(p[1])
        return lambda t: not inner(t)
    raise ValueError(p)


def key_in(k):
    if k is None:
        return None
    if k[0] == 'bad':
        return k[1]
    return pred_in(k[1])


class Phase(Task):
    """a user subclass of Task that changes nothing"""


class World:
    def __init__(self, case):
        self.mk = Phase if case.get('subclass') else Task
        self.objs = {}       # object number -> Task
        self.num = {}        # id(Task) -> object number
        self.free = case['free']
        roots = [self.build(n) for n in case['forest']]
        if self.free:
            self.wbs = None
            self.free_roots = roots
        else:
            self.wbs = WBS()
            self.wbs.roots = roots

    def build(self, n):
        kw = {k: val_in(v) for k, v in n['attrs']}
        t = self.mk(val_in(n['id']), **kw)
        for name in n.get('del', []):
            delattr(t, name)
        self.objs[n['o']] = t
        self.num[id(t)] = n['o']
        kids = [self.build(c) for c in n['ch']]
        if kids:
            t.children = kids
        return t

    def roots(self):
        return list(self.free_roots) if self.free else list(self.wbs.roots)

    def source(self, s):
        k = s[0]
        if k == 'all':
            if self.free:
                lst = []
                for r in self.free_roots:
                    lst.append(r)
                    lst += list(r.all_children)
                return _ImmutableTaskList(lst)
            return self.wbs.tasks
        if k == 'roots':
            return self.wbs.roots
        if k == 'kids':
            return self.objs[s[1]].children
        if k == 'desc':
            return self.objs[s[1]].all_children
        if k == 'query':
            return call(self.source(s[1]), s[2], s[3])
        raise ValueError(s)

    def number(self, t):
        return self.num.get(id(t), -1)

    def state(self):
        out = []

        def walk(t):
            attrs = {k: v for k, v in t.__dict__.items() if not k.startswith('_')}
            attrs['estimate'] = t.estimate
            attrs['spent'] = t.spent
            out.append([self.number(t), val_out(t.id), val_out(t.parent.id) if t.parent is not None else None,
                        t.parent is not None, sorted([k, val_out(v)] for k, v in attrs.items())])
            for c in t.children:
                walk(c)

        for r in self.roots():
            walk(r)
        return out


def call(lst, key, fs):
    kw = {k: arg_in(a) for k, a in fs}
    if key is None:
        return lst(**kw)
    return lst(key_in(key), **kw)


def run_case(case):
    w = World(case)
    op = case['op']
    out = {'code': 0, 'ret': [], 'det': []}
    try:
        kind = op[0]
        if kind == 'query':
            src = w.source(op[1])
            out['src_len'] = len(src)
            before = list(src)
            res = call(src, op[2], op[3])
            out['ret'] = [w.number(t) for t in res]
            out['src_kept'] = [w.number(t) for t in src] == [w.number(t) for t in before]
        elif kind == 'assign':
            src = w.source(op[1])
            out['src_len'] = len(src)
            setattr(src, op[2], val_in(op[3]))
        elif kind == 'wbs_remove_all':
            out['src_len'] = len(w.wbs.tasks)
            key = op[1]
            kw = {k: arg_in(a) for k, a in op[2]}
            res = w.wbs.remove_all(**kw) if key is None else w.wbs.remove_all(key_in(key), **kw)
            out['ret'] = [w.number(t) for t in res]
            out['det'] = [[w.number(t), [w.number(c) for c in t.all_children]] for t in res]
        elif kind == 'list_remove_all':
            lst = w.wbs.roots if op[1] is None else w.objs[op[1]].children
            out['src_len'] = len(lst)
            key = op[2]
            kw = {k: arg_in(a) for k, a in op[3]}
            res = lst.remove_all(**kw) if key is None else lst.remove_all(key_in(key), **kw)
            out['ret'] = [w.number(t) for t in res]
            out['det'] = [[w.number(t), [w.number(c) for c in t.all_children]] for t in res]
        else:
            raise ValueError(kind)
    except BaseException as ex:  # noqa
        out['code'] = exc_code(ex)
        out['exc'] = type(ex).__name__ + ': ' + str(ex)[:120]
        out['ret'] = []
        out['det'] = []
    out['after'] = w.state()
    return out


def run_safe(case):
    try:
        return run_case(case)
    except BaseException as ex:  # noqa  (building the world failed: a harness problem, reported as such)
        return {'build_error': type(ex).__name__ + ': ' + str(ex)[:200]}


main(lambda payload: [run_safe(c) for c in payload])
