"""C15, probe outside the operation language of the graph model: Task.clone(**kwargs) with relation keywords is a mutator
of the tasks it names.  A clone call that raises (a rejected relation, a negative amount, a read-only name) must leave
every relation of every task as it was.  Each scenario returns the snapshots before / after and what the call did."""
from harness.impl.util import exc_code, main

from pjplan import Task, WBS


def snap(tasks, wbss):
    return {'tasks': [[t.id, t.parent.id if t.parent is not None else None, [c.id for c in t.children],
                       [c.id for c in t.predecessors], [c.id for c in t.successors],
                       (wbss.index(t.wbs) if t.wbs in wbss else -1) if t.wbs is not None else None] for t in tasks],
            'wbs': [[t.id for t in w.tasks] for w in wbss], 'roots': [[t.id for t in w.roots] for w in wbss]}


class Phase(Task):
    """a user subclass of Task that changes nothing"""


def run_case(case):
    mk = Phase if case.get('subclass') else Task
    w = WBS()
    p = mk(1, 'p')
    w.roots.append(p)
    a = mk(2, 'a')
    p.children.append(a)
    b = mk(3, 'b')
    w.roots.append(b)
    free = mk(4, 'free')
    a.predecessors = [b]
    tasks, wbss = [p, a, b, free], [w]
    src = {'member': a, 'free': free}[case['source']]
    kw = {}
    for k, v in case['kwargs']:
        if k in ('parent',):
            kw[k] = {'p': p, 'b': b, 'free': free}[v]
        elif k in ('children', 'predecessors', 'successors'):
            kw[k] = [{'p': p, 'a': a, 'b': b, 'free': free}[x] for x in v]
        elif k == 'wbs':
            kw[k] = w
        else:
            kw[k] = v
    before = snap(tasks, wbss)
    try:
        if case.get('op') == 'ctor':
            Task(9, 'new', **kw)
        else:
            src.clone(**kw)
        out = {'code': 0}
    except BaseException as e:  # noqa
        out = {'code': exc_code(e), 'exc': '%s: %s' % (type(e).__name__, str(e)[:160])}
    out['before'], out['after'] = before, snap(tasks, wbss)
    return out


if __name__ == '__main__':
    main(lambda payload: [run_case(c) for c in payload])
