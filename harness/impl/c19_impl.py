"""Runs rendering cases on the implementation: builds the WBS through the public API, fixes the clock
by replacing the module-level name `datetime` of the two Gantt renderers, calls the three private
text builders and the public to_html() / _repr_html_() of the three renderers."""
from datetime import datetime

from harness.impl.util import from_us, exc_code, num_in, main

from pjplan import Task, WBS
import pjplan.viz.mermaid.gantt as mgantt_mod
import pjplan.viz.mermaid.network as mnet_mod
import pjplan.viz.dhtmlx.gantt as dhtmlx_mod

_CLOCK = [None]


class FixedClock(datetime):
    @classmethod
    def now(cls, tz=None):
        return _CLOCK[0]


mgantt_mod.datetime = FixedClock
dhtmlx_mod.datetime = FixedClock


def build(case):
    tasks = []
    stack = []          # (level, task)
    roots = []
    by_ix = []
    for spec in case['tasks']:
        lv = spec['level']
        while stack and stack[-1][0] >= lv:
            stack.pop()
        kwargs = {}
        for k, v in spec['attrs']:
            kwargs[k] = v
        t = Task(
            spec['id'], spec['name'],
            resource=spec['resource'],
            start=from_us(spec['start']), end=from_us(spec['end']),
            milestone=spec['ms'],
            estimate=None if spec['est'] is None else num_in(spec['est']),
            spent=None if spec['spent'] is None else num_in(spec['spent']),
            min_start=from_us(spec['min_start']),
            parent=stack[-1][1] if stack else None,
            **kwargs)
        if not stack:
            roots.append(t)
        stack.append((lv, t))
        by_ix.append(t)
    for spec, t in zip(case['tasks'], by_ix):
        if spec['preds']:
            t.predecessors = [by_ix[i] for i in spec['preds']]
    # The renderer objects are created while the WBS is still incomplete (every second root missing, a task that will
    # be dropped present) and asked for their output after it was completed: a renderer shows the WBS as it is when it
    # is asked, not as it was when the object was made.
    w = WBS()
    tmp = Task(-424242, 'dropped before rendering')
    w.roots = [r for i, r in enumerate(roots) if i % 2 == 0] + [tmp]
    cfg = case['cfg']
    rend = (mgantt_mod.MermaidGantt(w, height=cfg['height'], weekends=cfg['weekends'], tick_interval=cfg['tick'], title=cfg['title']),
            mnet_mod.MermaidNetwork(w, height=cfg['height']),
            dhtmlx_mod.DhtmlxGantt(w, height=cfg['height'], scale=cfg['scale'], today_marker=cfg['today_marker']))
    w.roots = roots
    return w, rend


def observe(fn):
    try:
        return ['ok', fn()]
    except BaseException as ex:  # noqa
        return ['exc', exc_code(ex), type(ex).__name__ + ': ' + str(ex)[:200]]


def run_case(case):
    out = {}
    try:
        w, (g, n, d) = build(case)
    except BaseException as ex:  # noqa
        return {'build': [exc_code(ex), type(ex).__name__ + ': ' + str(ex)[:200]]}
    _CLOCK[0] = from_us(case['clock'])
    cfg = case['cfg']
    out['order'] = [t.id for t in w.tasks]
    out['gantt_src'] = observe(lambda: g._MermaidGantt__src())
    out['gantt_styles'] = observe(lambda: g._MermaidGantt__styles())
    out['gantt_doc'] = observe(g.to_html)
    out['gantt_repr'] = observe(g._repr_html_)
    out['net_src'] = observe(lambda: n._MermaidNetwork__src())
    out['net_doc'] = observe(n.to_html)
    out['net_repr'] = observe(n._repr_html_)
    classes = observe(lambda: d._DhtmlxGantt__task_classes())
    out['dhtmlx_classes_def'] = ['ok', classes[1][0]] if classes[0] == 'ok' else classes
    out['dhtmlx_data'] = observe(lambda: d._DhtmlxGantt__data(d._DhtmlxGantt__task_classes()[1]))
    out['dhtmlx_columns'] = observe(lambda: d._DhtmlxGantt__columns())
    out['dhtmlx_doc'] = observe(d.to_html)
    out['dhtmlx_repr'] = observe(d._repr_html_)
    return out


main(lambda payload: [run_case(c) for c in payload])
