"""C18, robustness stream: attribute values outside the model's value type (NaN estimates, sets of labels - partially
ordered) under the comparison filters.  Only the selection is observed; the expectation is computed by the caller from the
literal clause (a task is selected iff the attribute is present and `value OP filter value` is true)."""
from harness.impl.util import exc_code, main

from pjplan import Task, WBS


def dec(v):
    if v is None:
        return None
    k = v[0]
    if k == 'nan':
        return float('nan')
    if k == 'set':
        return set(v[1])
    if k == 'f':
        return float.fromhex(v[1])
    if k == 'list':
        return list(v[1])
    if k == 'tuple':
        return tuple(dec(x) for x in v[1])
    return v[1]


def run_case(case):
    try:
        w = WBS()
        for i, attrs in enumerate(case['tasks']):
            w // Task(i + 1, **{k: dec(v) for k, v in attrs.items() if v != 'absent'})
        flt = {k: dec(v) for k, v in case['filters']}
        lst = w.tasks if case.get('via') != 'roots' else w.roots
        return {'code': 0, 'ret': [t.id for t in lst(**flt)]}
    except BaseException as e:  # noqa
        return {'code': exc_code(e), 'exc': '%s: %s' % (type(e).__name__, str(e)[:200])}


if __name__ == '__main__':
    main(lambda payload: [run_case(c) for c in payload])
