"""Runs critical-path cases on the implementation: builds the WBS through the public API from the
harness' description, takes a snapshot of every task, calls WBS.critical_path(), takes the snapshot
again.  Returned tasks are reported as positions in the description (matched by object identity)."""
from datetime import datetime

from harness.impl.util import exc_code, to_us, main

from pjplan import WBS, Task


def num(s):
    """'3' -> int, '0.1' -> float (the way a user writes an estimate); None stays None"""
    if s is None:
        return None
    return float(s) if ('.' in s or 'e' in s) else int(s)


def build(case):
    """-> (wbs, objs): objs[i] is the Task of description entry i (inside or outside the WBS)"""
    wbs = WBS()
    objs = []
    for d in case['tasks']:
        kw = {}
        if d.get('est') is not None:
            kw['estimate'] = num(d['est'])
        if d.get('spent') is not None:
            kw['spent'] = num(d['spent'])
        if d.get('milestone'):
            kw['milestone'] = True
        t = Task(d['id'], name='t%s' % d['id'], **kw)
        if d['parent'] is not None:
            objs[d['parent']] // t
        elif d['inside']:
            wbs // t
        objs.append(t)
    for d, t in zip(case['tasks'], objs):
        if d['preds']:
            if d.get('link_style') == 'append':
                for p in d['preds']:
                    t.predecessors.append(objs[p])
            else:
                t.predecessors = [objs[p] for p in d['preds']]
    return wbs, objs


def prim(v):
    if v is None or isinstance(v, (bool, int, str)):
        return v
    if isinstance(v, float):
        return ['float', v.hex()]
    if isinstance(v, datetime):
        return ['dt', to_us(v)]
    return ['obj', type(v).__name__]


def snapshot(wbs, objs):
    index = {id(t): i for i, t in enumerate(objs)}

    def pos(t):
        if t is None:
            return None
        return index.get(id(t), -1)

    snap = []
    for t in objs:
        snap.append({
            'id': prim(t.id), 'name': prim(t.name), 'estimate': prim(t.estimate), 'spent': prim(t.spent),
            'start': prim(t.start), 'end': prim(t.end), 'milestone': prim(t.milestone), 'resource': prim(t.resource),
            'min_start': prim(t.min_start),
            'parent': pos(t.parent), 'children': [pos(c) for c in t.children],
            'predecessors': [pos(p) for p in t.predecessors], 'successors': [pos(s) for s in t.successors],
            'in_wbs': t.wbs is wbs, 'has_wbs': t.wbs is not None,
            'attrs': sorted([k, prim(v)] for k, v in t.__dict__.items()),
        })
    return {'tasks': snap, 'roots': [pos(t) for t in wbs.roots], 'all': [pos(t) for t in wbs.tasks],
            'wbs_attrs': sorted([k, prim(v)] for k, v in wbs.__dict__.items())}


def run_case(case):
    out = {}
    try:
        wbs, objs = build(case)
        out['build'] = 0
    except BaseException as ex:  # noqa
        out['build'] = exc_code(ex)
        out['build_exc'] = '%s: %s' % (type(ex).__name__, ex)
        return out
    # a first call on the SAME objects with other amounts (every estimate one unit larger, put back afterwards): the
    # observed call must describe the WBS as it is now, whatever an earlier call may have left behind
    bumped = [(t, t.estimate) for t in objs if t.estimate is not None]
    try:
        for t, e in bumped:
            t.estimate = e + 1
        wbs.critical_path()
    except BaseException:  # noqa
        pass
    finally:
        for t, e in bumped:
            t.estimate = e
    before = snapshot(wbs, objs)
    try:
        res = wbs.critical_path()
        index = {id(t): i for i, t in enumerate(objs)}
        out['call'] = ['ok', [index.get(id(t), -1) for t in res]]
        out['ids'] = [prim(t.id) for t in res]
    except BaseException as ex:  # noqa
        out['call'] = ['exc', exc_code(ex), '%s: %s' % (type(ex).__name__, ex)]
    after = snapshot(wbs, objs)
    out['before'] = before
    out['after'] = after
    return out


main(lambda payload: [run_case(c) for c in payload])
