"""Runs C20 cases on the implementation: builds WBSs / detached trees / links through the public API,
prints sheets through WBS / Task / task-list `repr()` and `.print(...)`, builds usage reports
directly and through the schedulers; returns a snapshot of the task graph taken through the public
getters (what the model receives) and the exact text of every call."""
import contextlib
import io
from datetime import datetime

from harness.impl.util import from_us, to_us, exc_code, num_in, main

import pjplan
from pjplan import Task, WBS, Resource, WeeklyCalendar, ForwardScheduler, BackwardScheduler
import pjplan.schedule as schedmod
from pjplan.schedule import ResourceUsageReport, ResourceUsageRow


class _Clock(datetime):
    """datetime whose now() is fixed, installed as pjplan.schedule.datetime"""
    fixed = None

    @classmethod
    def now(cls, tz=None):
        return cls.fixed


class _Obj:
    """an attribute value that is neither str nor number: printed through str()"""

    def __init__(self, s):
        self.s = s

    def __str__(self):
        return self.s


def val_in(v):
    k = v[0]
    if k == 'none':
        return None
    if k in ('s', 'b'):
        return v[1]
    if k == 'i':
        return int(v[1])
    if k == 'd':
        return from_us(v[1])
    if k == 'f':
        return float.fromhex(v[1])
    if k == 'o':
        return _Obj(v[1])
    raise ValueError(k)


def val_out(v):
    if v is None:
        return ['none']
    if type(v) is str:
        return ['s', v]
    if type(v) is bool:
        return ['b', v]
    if type(v) is int:
        return ['i', v]
    if isinstance(v, datetime):
        return ['d', to_us(v)]
    return ['r', str(v)]


def id_out(i):
    if type(i) is int:
        return ['i', i]
    if type(i) is str:
        return ['s', i]
    return ['s', str(i)]


def num_val_out(v):
    if v is None:
        return None
    if type(v) is int:
        return ['i', v]
    return ['r', str(v)]


def build_sheet(case):
    """returns (wbss, tasks by key); construction steps the library rejects are skipped"""
    wbss = [WBS() for _ in range(case['wbs'])]
    tasks = {}
    for t in case['tasks']:
        kw = {k: val_in(v) for k, v in t.get('kw', {}).items()}
        kw.update({k: val_in(v) for k, v in t.get('attrs', {}).items()})
        try:
            obj = Task(val_in(t['id']), val_in(t['name']), estimate=val_in(t['estimate']), spent=val_in(t['spent']), **kw)
        except Exception:
            continue
        try:
            if t.get('parent') is not None and t['parent'] in tasks:
                tasks[t['parent']].children.append(obj)
            elif t.get('wbs') is not None:
                wbss[t['wbs']].roots.append(obj)
        except Exception:
            pass
        tasks[t['k']] = obj
    for a, b in case['links']:
        try:
            if a in tasks and b in tasks:
                tasks[a].predecessors.append(tasks[b])
        except Exception:
            pass
    return wbss, tasks


def snapshot(wbss, tasks):
    """the forest of all top-level trees (WBS roots in order, then detached roots) through the public
    getters; every task gets an object number"""
    widx = {id(w): i for i, w in enumerate(wbss)}
    objno = {}
    slices = []

    def owner(t):
        w = t.wbs
        if w is None:
            return None
        return widx.get(id(w), 999)

    def link(t):
        return [id_out(t.id), owner(t)]

    def node(t):
        objno[id(t)] = len(objno)
        d = {
            'obj': objno[id(t)], 'id': id_out(t.id), 'owner': owner(t), 'name': val_out(t.name),
            'estimate': num_val_out(t.estimate), 'spent': num_val_out(t.spent),
            'parent': None if t.parent is None else link(t.parent),
            'preds': [link(p) for p in t.predecessors], 'succs': [link(s) for s in t.successors],
            'attrs': [[k, val_out(v)] for k, v in t.__dict__.items() if not k.startswith('_') and k != 'name'],
        }
        return {'d': d, 'ch': [node(c) for c in t.children]}

    forest = []
    for w in wbss:
        start = len(forest)
        for r in w.roots:
            forest.append(node(r))
        slices.append([start, len(forest) - start])
    for t in tasks.values():
        if id(t) not in objno and t.parent is None and t.wbs is None:
            forest.append(node(t))
    return forest, slices, objno


def run_call(call, wbss, tasks, objno):
    e = call['entry']
    if e[0] == 'wbs':
        target = wbss[e[1]]
        given = list(target.roots)
    elif e[0] == 'task':
        target = tasks[e[1]]
        given = [target]
    elif e[0] == 'alltasks':
        target = wbss[e[1]].tasks
        given = list(target)
    elif e[0] == 'pick':
        keys = set(id(tasks[k]) for k in e[2] if k in tasks)
        target = wbss[e[1]].tasks(lambda t: id(t) in keys)
        given = list(target)
    elif e[0] == 'children':
        target = tasks[e[1]].children
        given = list(target)
    elif e[0] in ('succs', 'preds', 'allsuccs', 'allpreds', 'allkids', 'allparents'):
        # lists that may MIX tasks of several WBSs and of none (the external mark is decided row by row)
        attr = {'succs': 'successors', 'preds': 'predecessors', 'allsuccs': 'all_successors', 'allpreds': 'all_predecessors',
                'allkids': 'all_children', 'allparents': 'all_parents'}[e[0]]
        target = getattr(tasks[e[1]], attr)
        given = list(target)
    else:
        raise ValueError(e[0])
    res = {'given': [objno.get(id(t), -1) for t in given]}
    try:
        if call['via'] == 'repr':
            res['out'] = repr(target)
        else:
            fields = call['fields']
            if fields is not None:
                fk = call.get('fields_kind', 'list')
                if fk == 'tuple':
                    fields = tuple(fields)
                elif fk == 'iter':
                    fields = iter(list(fields))
                elif fk == 'gen':
                    fields = (f for f in list(fields))
            theme = call['theme']
            if theme is not None:
                theme = dict(theme)
                if 'level_colors' in theme and call.get('levels_kind') == 'tuple':
                    theme['level_colors'] = tuple(theme['level_colors'])
            buf = io.StringIO()
            with contextlib.redirect_stdout(buf):
                target.print(fields=fields, children=call['children'], theme=theme)
            txt = buf.getvalue()
            if not txt.endswith('\n'):
                res['code'] = 19
                res['exc'] = 'print wrote no final newline'
                return res
            res['out'] = txt[:-1]
        res['code'] = 0
    except BaseException as ex:  # noqa
        res['code'] = exc_code(ex)
        res['exc'] = '%s: %s' % (type(ex).__name__, str(ex)[:200])
        res['out'] = ''
    return res


def run_sheet(case):
    wbss, tasks = build_sheet(case)
    forest, slices, objno = snapshot(wbss, tasks)
    calls = []
    for c in case['calls']:
        try:
            calls.append(run_call(c, wbss, tasks, objno))
        except KeyError:
            calls.append({'skip': True})
    return {'forest': forest, 'slices': slices, 'calls': calls}


def day_of(dt):
    return datetime(dt.year, dt.month, dt.day)


def observe_report(rep):
    rows = rep.rows()
    # the columns: the set of resources of the rows, in the interpreter's set order (the report builds
    # the same set from the same objects in the same order)
    cols = list(set([r.resource for r in rows]))
    cells = []
    seen = set()
    for r in rows:
        d = day_of(r.date)
        for k, res in enumerate(cols):
            if (k, d) in seen or res != r.resource:
                continue
            seen.add((k, d))
            val = sum([x.units for x in rows if x.resource == res and day_of(x.date) == d], 0)
            if val == 0:
                cls = 0
            elif val == res.get_available_units(d):
                cls = 1
            else:
                cls = 2
            cells.append([k, to_us(d), f"{val:.1f}", cls])
    obs = {'dates': [to_us(r.date) for r in rows], 'cols': [c.name for c in cols], 'cells': cells}
    try:
        obs['out'] = repr(rep)
        obs['code'] = 0
    except BaseException as ex:  # noqa
        obs['code'] = exc_code(ex)
        obs['exc'] = '%s: %s' % (type(ex).__name__, str(ex)[:200])
        obs['out'] = ''
    return obs


def mk_resources(specs):
    res = []
    for name, days, units in specs:
        res.append(Resource(name, WeeklyCalendar(days=list(days), units_per_day=num_in(units))))
    return res


def run_usage(case):
    resources = mk_resources(case['resources'])
    if case['kind'] == 'usage':
        task = Task(1, 't')
        rows = [ResourceUsageRow(resources[k], from_us(t), task, num_in(u)) for k, t, u in case['rows']]
        return observe_report(ResourceUsageReport(rows))
    # a real scheduler run
    _Clock.fixed = _Clock(2020, 1, 1)
    schedmod.datetime = _Clock
    try:
        w = WBS()
        objs = {}
        for t in case['tasks']:
            obj = Task(t['id'], t['name'], resource=t['resource'], estimate=num_in(t['estimate']) if t['estimate'] else None)
            if t.get('parent') is not None and t['parent'] in objs:
                objs[t['parent']].children.append(obj)
            else:
                w.roots.append(obj)
            objs[t['id']] = obj
        for a, b in case['links']:
            try:
                objs[a].predecessors.append(objs[b])
            except Exception:
                pass
        try:
            if case['direction'] == 'forward':
                s = ForwardScheduler(start=from_us(case['anchor']), resources=resources,
                                     balance_resources=case['balance']).calc(w)
            else:
                s = BackwardScheduler(end=from_us(case['anchor']), resources=resources,
                                      balance_resources=case['balance']).calc(w)
        except BaseException as ex:  # noqa
            return {'sched_failed': '%s: %s' % (type(ex).__name__, str(ex)[:200])}
        return observe_report(s.resource_usage)
    finally:
        schedmod.datetime = datetime


def run_case(case):
    if case['kind'] == 'sheet':
        return run_sheet(case)
    return run_usage(case)


main(lambda payload: [run_case(c) for c in payload])
