"""Runs mutation histories of the task graph on the implementation (C01, C05, C11, C15, C16).

Payload: {'mode': 'gen', 'seeds': [...], 'tier': ...}  - histories are generated here, state-aware
         {'mode': 'ops', 'histories': [[op, ...], ...]} - given operation lists (corpus)
         {'mode': 'pair', 'cases': [{'pre': snapshot, 'op': op}]} - one call on a constructed state
After every call the runner records: the normalised call (objects by number), the outcome class,
a full snapshot by object identity (public getters + raw parent/owner) and the read-only API."""
import random as _random
import random
import signal
import sys

from harness.impl.util import exc_code, main

from pjplan import Task, WBS
from pjplan import task as taskmod

NAMES = ['a', 'b', 'c', 'ab', 'ba', 'B']


class World:
    def __init__(self):
        self.objs = []        # object number -> Task (hidden roots included)
        self.num = {}         # id(Task) -> object number
        self.wbss = []        # wid -> WBS
        self.facades = []     # (kind, owner object number, facade)
        self.anomalies = []

    def reg(self, t):
        k = self.num.get(id(t))
        if k is None:
            k = len(self.objs)
            self.objs.append(t)
            self.num[id(t)] = k
        return k

    def o(self, k):
        return None if k is None else self.objs[k]

    def olist(self, ks):
        return [self.o(k) for k in ks]

    def wid_of(self, w):
        for i, x in enumerate(self.wbss):
            if x is w:
                return i
        return None

    def users(self):
        return [k for k, t in enumerate(self.objs) if t.id != taskmod.EMPTY_TASK_ID]

    # ----- observation -----
    def snapshot(self):
        # discover objects that became reachable without being returned (half-built constructor)
        i = 0
        while i < len(self.objs):
            t = self.objs[i]
            rel = list(t.children) + list(t.predecessors) + list(t.successors)
            if t._Task__parent is not None:
                rel.append(t._Task__parent)
            for x in rel:
                self.reg(x)
            i += 1
        heap = []
        for k, t in enumerate(self.objs):
            raw = t._Task__parent
            hid = t.id == taskmod.EMPTY_TASK_ID
            pub = t.parent
            exp = None if raw is None or raw.id == taskmod.EMPTY_TASK_ID else raw
            if pub is not exp:
                self.anomalies.append('public parent of object %d is not the raw parent with the root masked' % k)
            ow = t._Task__wbs
            if t.wbs is not ow:
                self.anomalies.append('Task.wbs of object %d is not the stored owner' % k)
            prio = t.__dict__.get('prio')
            nm = t.name if isinstance(t.name, str) else ''
            heap.append([plain_id(t.id) if not hid else 2 ** 63 - 1, None if raw is None else self.num[id(raw)],
                         [self.num[id(c)] for c in t.children], [self.num[id(c)] for c in t.predecessors],
                         [self.num[id(c)] for c in t.successors], None if ow is None else self.wid_of(ow),
                         hid, prio, [ord(c) for c in nm], t.estimate])
        return {'heap': heap, 'wroots': [self.num[id(w._root())] for w in self.wbss]}

    def reads(self, ids):
        tasks = []
        look = []
        for wi, w in enumerate(self.wbss):
            try:
                tasks.append([self.num[id(t)] for t in w.tasks])
            except CallTimeout:
                raise
            except BaseException:  # noqa - WBS.tasks itself raises (a cycle): no list can be compared
                tasks.append([10 ** 6])
            if [self.num[id(t)] for t in w.roots] != [self.num[id(t)] for t in w._root().children]:
                self.anomalies.append('WBS.roots differs from the children of the root')
            for i in ids:
                try:
                    look.append([wi, i, 0, self.num[id(w[i])]])
                except CallTimeout:
                    raise
                except BaseException as e:  # noqa
                    look.append([wi, i, exc_code(e), None])
        return {'tasks': tasks, 'look': look}

    # ----- construction of a given state (replay of a single call) -----
    def build(self, snap):
        heap = snap['heap']
        wr = snap['wroots']
        for k, rec in enumerate(heap):
            if rec[6]:
                w = WBS()
                self.wbss.append(None)
                t = w._root()
                t._wbs_obj = w
            else:
                t = Task(rec[0], name=''.join(chr(c) for c in rec[8]), estimate=rec[9])
                if rec[7] is not None:
                    t.prio = rec[7]
            self.reg(t)
        self.wbss = [self.objs[r]._wbs_obj for r in wr]
        for k, rec in enumerate(heap):
            t = self.objs[k]
            t._Task__parent = self.o(rec[1])
            t._Task__children[:] = self.olist(rec[2])
            t._Task__predecessors[:] = self.olist(rec[3])
            t._Task__successors[:] = self.olist(rec[4])
            t._Task__wbs = None if rec[5] is None else self.wbss[rec[5]]



    # ----- helpers used by the executor -----
    def is_root(self, k):
        return self.objs[k].id == taskmod.EMPTY_TASK_ID

    def wbs_of_root(self, k):
        for w in self.wbss:
            if w._root() is self.objs[k]:
                return w
        raise KeyError(k)

    def nums(self, lst):
        return [self.num[id(t)] for t in lst]


# =====================================================================================================
# execution of one operation of the model's op language through the public API
# =====================================================================================================
SORT_KEYS = {'id': 'id', 'prio': 'prio', 'name': 'name', 'bad': 5, 'est': 'estimate'}


def materialise(W, vs, form):
    """a sequence argument in one of the forms the API accepts"""
    objs = [W.o(k) for k in vs]
    if form == 'single':
        assert len(objs) == 1 and objs[0] is not None
        return objs[0]
    if form == 'none':
        assert not objs
        return None
    if form == 'tuple':
        return tuple(objs)
    if form == 'iter':
        return iter(objs)
    GIVEN.append(objs)
    return objs


GIVEN = []      # list arguments handed to the API by the current call: they stay the caller's (see do_call)


def ch_facade(W, o, how):
    """children facade of a task / roots facade of a WBS: obtained now, or an old one from the pool"""
    k = how.get('facade')
    if k is not None:
        kind, owner, f = W.facades[k]
        assert kind == 'ch' and owner == o, (kind, owner, o)
        return f
    if W.is_root(o):
        return W.wbs_of_root(o).roots
    return W.objs[o].children


def ln_facade(W, dirn, t, how):
    k = how.get('facade')
    if k is not None:
        kind, owner, f = W.facades[k]
        assert kind == ('pr' if dirn else 'su') and owner == t, (kind, owner, t)
        return f
    return W.objs[t].predecessors if dirn else W.objs[t].successors


def new_facade(W, kind, owner):
    if kind == 'ch':
        f = ch_facade(W, owner, {})
    else:
        f = ln_facade(W, kind == 'pr', owner, {})
    W.facades.append((kind, owner, f))
    return len(W.facades) - 1


def src_list(W, src):
    """a task list obtained through the public API (for list-level << >> and bulk assignment)"""
    k = src[0]
    if k == 'tasks':
        return W.wbss[src[1]].tasks
    if k == 'roots':
        return W.wbss[src[1]].roots
    if k == 'children':
        return W.objs[src[1]].children
    if k == 'all_children':
        return W.objs[src[1]].all_children
    if k == 'all_parents':
        return W.objs[src[1]].all_parents
    if k == 'preds':
        return W.objs[src[1]].predecessors
    if k == 'succs':
        return W.objs[src[1]].successors
    if k == 'filter':
        return src_list(W, src[1])(id_in_=src[2])
    if k == 'raw':       # replay only: no public list with exactly these elements was found
        return taskmod._ImmutableTaskList([W.objs[x] for x in src[1]])
    raise ValueError(k)


def all_sources(W):
    res = []
    for wi in range(len(W.wbss)):
        res += [['tasks', wi], ['roots', wi]]
    for k in W.users():
        res += [['children', k], ['all_children', k], ['preds', k], ['succs', k], ['all_parents', k]]
    return res


def find_source(W, ts):
    """some public list whose elements are exactly ts, in order"""
    ids = sorted(set(W.objs[x].id for x in ts))
    for s in all_sources(W):
        for cand in (s, ['filter', s, ids]):
            try:
                if W.nums(src_list(W, cand)) == ts:
                    return cand
            except BaseException:  # noqa
                pass
    return ['raw', ts]


class FilterBoom(Exception):
    """raised by a caller's filter function (outcome class 19: none of the library's own exception types)"""


def raising_key(ids):
    """a filter that matches the named ids and, once it has matched, raises at the next task it is asked about"""
    state = {'hit': False}

    def key(t):
        if state['hit']:
            raise FilterBoom('the filter cannot judge task %r' % (t.id,))
        if t.id in ids:
            state['hit'] = True
            return True
        return False
    return key


def remove_all_call(f, ids, v, how=None):
    if how and how.get('raise_after'):
        return f.remove_all(raising_key(ids))
    if v == 'all':
        return f.remove_all()
    if v == 'key':
        return f.remove_all(lambda t: t.id in ids)
    if v == 'id':
        assert len(ids) == 1
        return f.remove_all(id=ids[0])
    if v == 'key+kw':
        return f.remove_all(lambda t: True, id_in_=ids)
    return f.remove_all(id_in_=ids)


def as_id(i, how):
    """ids are compared with == : 1, 1.0 and True are ONE id.  A tenth of the tasks get their id as a float (or, for 0 and
    1, as a bool); the snapshot reports the integer it equals."""
    spelling = how.get('id_as')
    if spelling == 'float':
        return float(i)
    if spelling == 'bool' and i in (0, 1):
        return bool(i)
    return i


def plain_id(x):
    if isinstance(x, (bool, float)) and x == int(x):
        return int(x)
    return x


def execute(W, op, how):
    """performs the call; whatever the implementation raises propagates"""
    k = op[0]
    form = how.get('form', 'list')
    v = how.get('v')
    if k == 'NewTask':
        _, i, pr, nm, e = op
        kw = {}
        if pr is not None:
            kw['prio'] = pr
        W.reg(Task(as_id(i, how), name=nm, estimate=e, **kw))
    elif k == 'NewTaskRel':
        _, i, nm, p, ch, su, pr = op
        kw = {'name': nm}
        if p is not None:
            kw['parent'] = W.o(p)
        if ch is not None:
            kw['children'] = materialise(W, ch, how.get('fch', 'list'))
        if su or how.get('pass_empty'):
            kw['successors'] = materialise(W, su, how.get('fsu', 'list'))
        if pr or how.get('pass_empty'):
            kw['predecessors'] = materialise(W, pr, how.get('fpr', 'list'))
        if how.get('bad_kw'):
            kw[how['bad_kw']] = None
        if how.get('bad_est'):
            kw[how['bad_est']] = -1
        W.reg(Task(as_id(i, how), **kw))
    elif k == 'NewWbs':
        w = WBS()
        W.wbss.append(w)
        W.reg(w._root())
    elif k == 'SetParent':
        _, t, p = op
        if v == 'setattr':
            setattr(W.objs[t], 'parent', W.o(p))
        else:
            W.objs[t].parent = W.o(p)
    elif k == 'SetChildren':
        _, t, vs = op
        val = materialise(W, vs, form)
        if W.is_root(t):
            W.wbs_of_root(t).roots = val
        else:
            W.objs[t].children = val
    elif k == 'SetLinks':
        _, d, t, vs = op
        val = materialise(W, vs, form)
        if d:
            W.objs[t].predecessors = val
        else:
            W.objs[t].successors = val
    elif k == 'ChAppend':
        _, o, t = op
        ch_facade(W, o, how).append(W.o(t))
    elif k == 'ChRemove':
        _, o, t = op
        ch_facade(W, o, how).remove(W.o(t))
    elif k == 'ChInsert':
        _, o, i, t = op
        ch_facade(W, o, how).insert(i, W.o(t))
    elif k == 'ChMove':
        _, o, ts, b, a = op
        f = ch_facade(W, o, how)
        val = materialise(W, ts, form)
        if v == 'positional':
            f.move(val, W.o(b), W.o(a))
        else:
            kw = {}
            if b is not None or v == 'explicit-none':
                kw['before'] = W.o(b)
            if a is not None or v == 'explicit-none':
                kw['after'] = W.o(a)
            f.move(val, **kw)
    elif k == 'ChSort':
        _, o, key, rev = op
        f = ch_facade(W, o, how)
        if rev or v == 'explicit':
            f.sort(SORT_KEYS[key], reverse=rev)
        else:
            f.sort(SORT_KEYS[key])
    elif k == 'ChReorder':
        _, o, ids = op
        ch_facade(W, o, how).reorder(list(ids) if v != 'tuple' else tuple(ids))
    elif k == 'ChRemoveAll':
        _, o, ids = op
        remove_all_call(ch_facade(W, o, how), ids, v, how)
    elif k == 'LnAppend':
        _, d, t, x = op
        ln_facade(W, d, t, how).append(W.o(x))
    elif k == 'LnRemove':
        _, d, t, x = op
        ln_facade(W, d, t, how).remove(W.o(x))
    elif k == 'LnRemoveAll':
        _, d, t, ids = op
        remove_all_call(ln_facade(W, d, t, how), ids, v)
    elif k == 'OpFloordiv':
        _, o, vs = op
        val = materialise(W, vs, form)
        if v == 'iadd':
            if W.is_root(o):
                W.wbs_of_root(o).roots += val
            else:
                W.objs[o].children += val
        elif v == 'facade_add':
            f = ch_facade(W, o, how)
            if W.is_root(o):
                W.wbs_of_root(o).roots = f + val
            else:
                W.objs[o].children = f + val
        else:
            owner = W.wbs_of_root(o) if W.is_root(o) else W.objs[o]
            owner // val
    elif k == 'OpShift':
        _, d, t, vs = op
        val = materialise(W, vs, form)
        if v == 'iadd':
            if d:
                W.objs[t].predecessors += val
            else:
                W.objs[t].successors += val
        elif v == 'facade_add':
            f = ln_facade(W, d, t, how)
            if d:
                W.objs[t].predecessors = f + val
            else:
                W.objs[t].successors = f + val
        elif d:
            W.objs[t] << val
        else:
            W.objs[t] >> val
    elif k == 'LstShift':
        _, d, ts, vs = op
        lst = src_list(W, how['src'])
        val = materialise(W, vs, form)
        if d:
            lst << val
        else:
            lst >> val
    elif k == 'LstSetParent':
        _, ts, p = op
        lst = src_list(W, how['src'])
        lst.parent = W.o(p)
    elif k == 'LstSetChildren':
        _, ts, vs = op
        lst = src_list(W, how['src'])
        val = materialise(W, vs, form)
        if v == 'setattr':
            setattr(lst, 'children', val)
        else:
            lst.children = val
    elif k == 'LstSetLinks':
        _, d, ts, vs = op
        lst = src_list(W, how['src'])
        val = materialise(W, vs, form)
        if v == 'setattr':
            setattr(lst, 'predecessors' if d else 'successors', val)
        elif d:
            lst.predecessors = val
        else:
            lst.successors = val
    elif k == 'WbsRemove':
        _, w, t = op
        W.wbss[w].remove(W.o(t))
    elif k == 'WbsRemoveAll':
        _, w, ids = op
        remove_all_call(W.wbss[w], ids, v, how)
    elif k == 'SetEst':
        _, t, e = op
        W.objs[t].estimate = e
    elif k == 'SetPrio':
        _, t, pv = op
        W.objs[t].prio = pv
    else:
        raise ValueError('unknown op %r' % (k,))


TS_INDEX = {'LstShift': 2, 'LstSetParent': 1, 'LstSetChildren': 1, 'LstSetLinks': 2}     # where the elements of the task list sit


def normalise(W, op, how):
    """the elements of a task list source are read now: they are the `ts` of the model's op"""
    if op[0] in TS_INDEX:
        if 'src' not in how:
            how['src'] = find_source(W, op[TS_INDEX[op[0]]])
        ts = W.nums(src_list(W, how['src']))
        op = list(op)
        op[TS_INDEX[op[0]]] = ts
    return op


class CallTimeout(BaseException):
    pass


def _alarm(signum, frame):
    raise CallTimeout()


CALL_LIMIT = 3.0     # seconds; a broken implementation can loop for ever (a parent cycle under _find_root)


def do_call(W, op, how, ids):
    how = dict(how)
    op = normalise(W, op, how)
    code, exc, hung = 0, None, False
    signal.signal(signal.SIGALRM, _alarm)
    signal.setitimer(signal.ITIMER_REAL, CALL_LIMIT)
    del GIVEN[:]
    try:
        execute(W, op, how)
    except CallTimeout:
        code, exc, hung = 19, 'the call did not return within %.0f s' % CALL_LIMIT, True
    except BaseException as e:  # noqa - every exception of the implementation is an observation
        if isinstance(e, (KeyboardInterrupt, SystemExit, AssertionError)):
            raise
        code, exc = exc_code(e), '%s: %s' % (type(e).__name__, str(e)[:120])
    finally:
        signal.setitimer(signal.ITIMER_REAL, 0)
    # the caller goes on using the lists it passed in (reorders and empties them): no task or WBS may notice
    for lst in GIVEN:
        lst.reverse()
        del lst[:]
    post = W.snapshot()
    signal.setitimer(signal.ITIMER_REAL, CALL_LIMIT)
    try:
        reads = W.reads(ids)
    except CallTimeout:
        reads, hung = {'tasks': [[10 ** 6] for _ in W.wbss], 'look': []}, True
    finally:
        signal.setitimer(signal.ITIMER_REAL, 0)
    stale = how.get('facade') is not None
    return {'op': op, 'how': how, 'code': code, 'exc': exc, 'post': post, 'reads': reads, 'stale': stale, 'hung': hung}


# =====================================================================================================
# a read-only view of a snapshot, used by the generator to aim at legal / illegal arguments
# =====================================================================================================
class View:
    def __init__(self, snap):
        self.h = snap['heap']
        self.wr = snap['wroots']
        self.n = len(self.h)

    def tid(self, x): return self.h[x][0]
    def par(self, x): return self.h[x][1]
    def kids(self, x): return self.h[x][2]
    def preds(self, x): return self.h[x][3]
    def succs(self, x): return self.h[x][4]
    def own(self, x): return self.h[x][5]
    def hid(self, x): return self.h[x][6]

    def users(self):
        return [x for x in range(self.n) if not self.hid(x)]

    def anc(self, x):
        res, seen = [], {x}
        p = self.par(x)
        while p is not None and p not in seen:
            res.append(p)
            seen.add(p)
            p = self.par(p)
        return res

    def root(self, x):
        a = self.anc(x)
        return a[-1] if a else x

    def pubpar(self, x):
        p = self.par(x)
        return None if p is None or self.hid(p) else p

    def sub(self, x):
        res, seen, stack = [], set(), [x]
        while stack:
            y = stack.pop()
            if y in seen:
                continue
            seen.add(y)
            res.append(y)
            stack += reversed(self.kids(y))
        return res

    def closure(self, x, d):
        seen, stack = set(), list(self.preds(x) if d else self.succs(x))
        while stack:
            y = stack.pop()
            if y in seen:
                continue
            seen.add(y)
            stack += self.preds(y) if d else self.succs(y)
        return seen

    def clash(self, p, chs):
        tree = set(self.sub(self.root(p)))
        inc = []
        for c in chs:
            for y in self.sub(c):
                if y not in tree and y not in inc:
                    inc.append(y)
        ids = [self.tid(y) for y in inc]
        return len(set(ids)) < len(ids) or bool(set(ids) & set(self.tid(y) for y in tree))

    def links_bad(self, t, ups):
        ups = set(ups)
        return any(l in ups for x in self.sub(t) for l in self.preds(x) + self.succs(x))

    def ok_parent(self, t, p, links=True):
        if p == t:
            return False
        if self.own(t) is None:
            if p is not None and self.pubpar(t) != p and self.clash(p, [t]):
                return False
        elif p is not None and self.own(p) != self.own(t):
            return False
        if p is not None:
            a = self.anc(p)
            if t in a or (links and self.links_bad(t, [p] + a)):
                return False
        return True

    def ok_children(self, t, value):
        value = [v for v in dict.fromkeys(value) if v is not None]
        if t in value:
            return False
        if self.own(t) is None:
            if any(self.own(v) is not None for v in value):
                return False
        elif any(self.own(v) is not None and self.own(v) != self.own(t) for v in value):
            return False
        if self.clash(t, value):
            return False
        a = self.anc(t)
        return not any(v in a or self.links_bad(v, [t] + a) for v in value)

    def ok_links(self, d, t, value):
        value = [v for v in dict.fromkeys(value) if v is not None]
        a, s = self.anc(t), self.sub(t)
        if any(v == t or v in a or v in s for v in value):
            return False
        return not any(t in self.closure(v, d) for v in value)

    # ---- the state after an ACCEPTED setter call (relations and owner only): the generator uses it to follow a
    #      bulk assignment element by element; it is its own reading of the code, not the model's
    def clone(self):
        V = View.__new__(View)
        V.h = [[r[0], r[1], list(r[2]), list(r[3]), list(r[4])] + list(r[5:]) for r in self.h]
        V.wr = self.wr
        V.n = self.n
        return V

    def after_children(self, t, value):
        value = [v for v in dict.fromkeys(value) if v is not None]
        V = self.clone()
        for c in self.kids(t):
            if c not in value:
                V.h[c][1] = None
                for y in self.sub(c):
                    V.h[y][5] = None
        for c in value:
            q = V.h[c][1]
            if q is not None and q != t and c in V.h[q][2]:
                V.h[q][2].remove(c)
            V.h[c][1] = t
            if self.own(t) is not None:
                for y in self.sub(c):
                    V.h[y][5] = self.own(t)
        V.h[t][2] = list(value)
        return V

    def after_links(self, d, t, value):
        value = [v for v in dict.fromkeys(value) if v is not None]
        V = self.clone()
        f, b = (3, 4) if d else (4, 3)
        for x in self.h[t][f]:
            if t in V.h[x][b]:
                V.h[x][b].remove(t)
        V.h[t][f] = list(value)
        for x in value:
            if t not in V.h[x][b]:
                V.h[x][b].append(t)
        return V

    def bulk_children(self, ts, value):
        """index of the first element of ts that rejects `t.children = value` (None: all accept)"""
        V = self
        for k, t in enumerate(ts):
            if not V.ok_children(t, value):
                return k
            V = V.after_children(t, value)
        return None

    def bulk_links(self, d, ts, value):
        V = self
        for k, t in enumerate(ts):
            if not V.ok_links(d, t, value):
                return k
            V = V.after_links(d, t, value)
        return None


# =====================================================================================================
# state-aware generation of one history
# =====================================================================================================
ID_POOL = [0, 1, 2, 3, 4, 5, 7, 9, -1, 12]
KINDS = [('SetParent', 12), ('SetChildren', 9), ('SetLinks', 8), ('ChAppend', 9), ('ChRemove', 3), ('ChInsert', 8),
         ('ChMove', 8), ('ChSort', 4), ('ChReorder', 4), ('ChRemoveAll', 2), ('LnAppend', 5), ('LnRemove', 3),
         ('LnRemoveAll', 2), ('OpFloordiv', 9), ('OpShift', 7), ('LstShift', 5), ('LstSetParent', 2), ('LstSetChildren', 4), ('LstSetLinks', 4),
         ('WbsRemove', 2),
         ('WbsRemoveAll', 3), ('SetEst', 1), ('SetPrio', 2), ('DeepLink', 5), ('SortNone', 3), ('Promote', 3), ('Diamond', 3), ('DeepUndo', 4), ('StaleList', 4), ('ReleaseReuse', 3), ('AdoptRootRemove', 3), ('BulkUndoNeighbour', 3), ('LongChainCycle', 2)]
P_ILLEGAL = 0.43
P_STALE = 0.21      # share of list calls that ASK for a pooled facade; ~15 % find one


def pick_form(rng, vs, allow_iter=True, allow_none=True):
    forms = ['list'] * 5 + ['tuple']
    if allow_iter:
        forms.append('iter')
    if len(vs) == 1 and vs[0] is not None:
        forms += ['single'] * 3
    if len(vs) == 0 and allow_none:
        forms += ['none'] * 3
    return rng.choice(forms)


def decorate(rng, vs):
    """None elements and repeated elements, both dropped by the API"""
    vs = list(vs)
    if rng.random() < 0.12:
        vs.insert(rng.randint(0, len(vs)), None)
    if vs and rng.random() < 0.12:
        vs.insert(rng.randint(0, len(vs)), rng.choice(vs))
    return vs


class Gen:
    def __init__(self, rng, W):
        self.rng = rng
        self.W = W
        self.n_ops = rng.randint(10, 40)
        self.n_tasks = rng.randint(4, 8)
        self.ids = rng.sample(ID_POOL, rng.randint(3, min(5, self.n_tasks)))
        self.unused_id = next(i for i in [6, 8, 11] if i not in self.ids)
        self.n_wbs = rng.randint(2, 3)
        self.made_tasks = 0
        self.made_wbs = 0
        self.used_ids = []
        self.deep_left = 0
        self.queue = []          # calls prepared by an aimed episode, issued at the next steps
        # decisions of episode variants added later are drawn from a stream of their own: the main stream, and what it is
        # known to reach, stays as it was
        self.rng2 = _random.Random('later/%d/%d/%r' % (self.n_ops, self.n_tasks, self.ids))

    # ---- choices ----
    def want_illegal(self):
        return self.rng.random() < P_ILLEGAL

    def choose(self, good, bad, illegal):
        """from the wanted class if it is inhabited, else from the other one"""
        first, second = (bad, good) if illegal else (good, bad)
        pool = first or second
        return self.rng.choice(pool) if pool else None

    def new_id(self):
        rng = self.rng
        if self.made_tasks == self.n_tasks - 1 and len(set(self.used_ids)) == len(self.used_ids) and self.used_ids:
            i = rng.choice(self.used_ids)          # several objects share an id
        else:
            i = rng.choice(self.ids)
        return i

    def facade_for(self, kinds, owners=None):
        """a facade obtained earlier in the history (its index in the pool), or None"""
        if self.rng.random() >= P_STALE:
            return None
        c = [k for k, (kind, owner, _) in enumerate(self.W.facades) if kind in kinds and (owners is None or owner in owners)]
        return self.rng.choice(c) if c else None

    def subset(self, l, p=0.6):
        return [x for x in l if self.rng.random() < p]

    # ---- creation ----
    def gen_create(self, V):
        rng = self.rng
        users = V.users()
        need_t, need_w = self.n_tasks - self.made_tasks, self.n_wbs - self.made_wbs
        if need_w and (not need_t or rng.random() < need_w / (need_w + need_t + 1.0) or (self.made_wbs == 0 and self.made_tasks >= 2)):
            self.made_wbs += 1
            return ['NewWbs'], {}
        self.made_tasks += 1
        i = self.new_id()
        self.used_ids.append(i)
        nm = rng.choice(NAMES)
        if len(users) >= 2 and rng.random() < 0.6:
            return self.gen_new_rel(V, i, nm)
        e = rng.choice([None, None, 0, 4, 8, 16, -1 if rng.random() < 0.3 else 8])
        if e == -1:          # the constructor raises: nothing is created
            self.made_tasks -= 1
            self.used_ids.pop()
        return ['NewTask', i, rng.choice([None, None, 1, 2, 3, 5]), nm, e], self.id_spelling(i)

    def id_spelling(self, i):
        r = random.Random('%s/%s/%s' % (getattr(self, 'seed_text', ''), self.made_tasks, i)).random()    # not from the main stream: older seeds keep their histories
        if r < 0.07:
            return {'id_as': 'float'}
        if r < 0.12 and i in (0, 1):
            return {'id_as': 'bool'}
        return {}

    def gen_new_rel(self, V, i, nm):
        """Task(id, parent=, children=, successors=, predecessors=); the new object has the next number"""
        rng = self.rng
        users = V.users()
        illegal = self.want_illegal()
        # aim at an accepted call: parent whose tree does not hold the id, detached children without the id,
        # dependencies outside the new family and not connected to each other
        okp = [x for x in users if i not in [V.tid(y) for y in V.sub(V.root(x))]]
        p = rng.choice(okp) if okp and rng.random() < 0.7 else None
        fam = set(([p] + V.anc(p) + V.sub(V.root(p))) if p is not None else [])
        fam_ids = set(V.tid(y) for y in fam) | {i}
        ch = None
        if rng.random() < 0.5:
            ch = []
            for c in self.subset([x for x in users if V.par(x) is None and x not in fam], 0.5)[:2]:
                ids_c = [V.tid(y) for y in V.sub(c)]
                if not set(ids_c) & fam_ids and not V.links_bad(c, fam):
                    ch.append(c)
                    fam_ids |= set(ids_c)
        inside = fam | set(y for c in (ch or []) for y in V.sub(c))
        free = [x for x in users if x not in inside]
        su = self.subset(free, 0.3)[:2] if rng.random() < 0.45 else []
        down = set(su) | set(y for x in su for y in V.closure(x, False))
        pr = [x for x in self.subset(free, 0.3) if x not in down][:2] if rng.random() < 0.55 else []
        if illegal:
            r = rng.random()
            if r < 0.35 and p is not None:
                pr = pr + [rng.choice([p] + V.anc(p)[:1])]          # parent / ancestor as dependency: last argument fails
                pr = [x for x in pr if not V.hid(x)]
            elif r < 0.55 and su:
                pr = pr + [su[0]]                                    # cycle through the new task
            elif r < 0.75 and ch:
                su = su + [ch[-1]]                                   # own child as successor
            elif users:
                ch = (ch or []) + [rng.choice(users)]
        how = {'fch': pick_form(rng, ch or [], allow_none=False) if ch is not None else 'list',
               'fsu': pick_form(rng, su, allow_none=False), 'fpr': pick_form(rng, pr, allow_none=False),
               'pass_empty': rng.random() < 0.2}
        if ch is not None:
            ch = decorate(rng, ch) if how['fch'] != 'single' else ch
        if random.Random('%s/kw/%s/%s' % (getattr(self, 'seed_text', ''), self.made_tasks, i)).random() < 0.12:
            # a custom attribute (Task(..., **kwargs)) whose name is a read-only property of Task: the constructor raises
            # AttributeError - after the relations were set.  Nothing may stay attached (judged in graph_common).
            how['bad_kw'] = ['wbs', 'all_children', 'all_parents', 'all_predecessors'][(self.made_tasks + i) % 4]
        elif random.Random('%s/est/%s/%s' % (getattr(self, 'seed_text', ''), self.made_tasks, i)).random() < 0.1:
            # a negative estimate / spent together with relations: the constructor raises RuntimeError - nothing may stay attached
            how['bad_est'] = ['estimate', 'spent'][(self.made_tasks + i) % 2]
        return ['NewTaskRel', i, nm, p, ch, su, pr], how

    # ---- mutations ----
    def gen_op(self, V):
        """one call; an op whose owner argument could not be determined (the generator reads the snapshot, and a broken
        implementation can leave a child without parent) is replaced by a harmless one - the state it came from is
        judged by the checks anyway"""
        r = self.gen_op1(V)
        op = r[0]
        owner_at = {'SetParent': 1, 'SetChildren': 1, 'OpFloordiv': 1, 'SetLinks': 2, 'OpShift': 2, 'ChAppend': 1, 'ChRemove': 1,
                    'ChInsert': 1, 'ChMove': 1, 'ChSort': 1, 'ChReorder': 1, 'ChRemoveAll': 1, 'LnAppend': 2, 'LnRemove': 2,
                    'LnRemoveAll': 2, 'WbsRemove': 1, 'WbsRemoveAll': 1, 'SetEst': 1, 'SetPrio': 1}
        i = owner_at.get(op[0])
        if i is not None and not isinstance(op[i], int):
            return ['SetPrio', self.rng.choice(V.users()), self.rng.randint(0, 5)], {}
        return r

    def gen_op1(self, V):
        rng = self.rng
        users = V.users()
        need = (self.n_tasks - self.made_tasks) + (self.n_wbs - self.made_wbs)
        left = max(1, self.n_ops - self.step)
        while self.queue:                # first: an episode's prepared calls name objects by the numbers they will get
            item = self.queue.pop(0)
            if callable(item):           # an episode continues with a look at the state as it is now
                item = item(V)
            if item is not None:
                return item
        if len(users) < 2 or (need and rng.random() < min(1.0, 3.0 * need / left)):
            if need:
                return self.gen_create(V)
        if getattr(self, 'raise_filters', False) and self.rng2.random() < 0.3:
            for g in (self.g_WbsRemoveAll, self.g_ChRemoveAll):
                r = g(V)
                if r is not None:
                    return r
        if self.deep_left > 0 and rng.random() < 0.75:       # an aimed episode in progress (g_DeepLink)
            self.deep_left -= 1
            r = self.g_DeepLink(V)
            if r is not None:
                return r
        for _ in range(20):
            kind = rng.choices([k for k, _ in KINDS], [w for _, w in KINDS])[0]
            if kind == 'DeepLink' and self.deep_left == 0:
                self.deep_left = 6
            r = getattr(self, 'g_' + kind)(V)
            if r is not None:
                return r
        return ['SetPrio', rng.choice(users), rng.randint(0, 5)], {}

    def owners(self, V):
        """tasks and hidden roots that can own a children list"""
        return V.users() + list(V.wr)

    def pick_owner(self, V):
        """owners that already have children are preferred, so that lists of 2+ children are common"""
        ow = self.owners(V)
        return self.rng.choices(ow, [1 + 3 * len(V.kids(x)) + 2 * len(V.anc(x)) + (2 if V.hid(x) else 0) for x in ow])[0]

    def g_SetParent(self, V):
        users = V.users()
        good, bad = [], []
        for t in users:
            for p in users + [None]:
                (good if V.ok_parent(t, p) else bad).append((t, p))
        moving = [(t, p) for t, p in good if V.pubpar(t) != p]
        if moving and self.rng.random() < 0.85:
            good = moving
        illegal = self.want_illegal()
        pool = (bad or good) if illegal else (good or bad)
        if not pool:
            return None
        c = self.rng.choices(pool, [(1 + 3 * len(V.kids(p)) + 3 * len(V.anc(p))) if p is not None else 0.5 for _, p in pool])[0]
        return ['SetParent', c[0], c[1]], {'v': self.rng.choice([None, None, 'setattr'])}

    def list_arg(self, V, cur, cands, ok, illegal, keep=0.6, max_add=2):
        """a sequence argument: part of the current list, legal additions, and (illegal) an offender
        that is mostly the LAST element"""
        rng = self.rng
        vs = self.subset(cur, keep)
        rng.shuffle(vs) if rng.random() < 0.5 else None
        if not ok(vs):
            vs = []
        for _ in range(rng.randint(0, max_add)):
            add = [c for c in cands if c not in vs and ok(vs + [c])]
            if add:
                vs.append(rng.choice(add))
        if illegal:
            off = [c for c in cands if not ok(vs + [c])]
            if off:
                x = rng.choice(off)
                if rng.random() < 0.75:
                    vs.append(x)
                else:
                    vs.insert(rng.randint(0, len(vs)), x)
        return vs

    def g_SetChildren(self, V):
        rng = self.rng
        t = self.pick_owner(V)
        vs = self.list_arg(V, V.kids(t), V.users(), lambda l: V.ok_children(t, l), self.want_illegal(),
                           keep=rng.choice([0.5, 0.9, 0.9, 1.0]))
        form = pick_form(rng, vs)
        if form not in ('single', 'none'):
            vs = decorate(rng, vs)
        return ['SetChildren', t, vs], {'form': form}

    def g_SetLinks(self, V):
        rng = self.rng
        t = rng.choice(V.users())
        d = rng.random() < 0.5
        cur = V.preds(t) if d else V.succs(t)
        vs = self.list_arg(V, cur, V.users(), lambda l: V.ok_links(d, t, l), self.want_illegal())
        form = pick_form(rng, vs)
        if form not in ('single', 'none'):
            vs = decorate(rng, vs)
        return ['SetLinks', d, t, vs], {'form': form}

    def ch_owner(self, V):
        k = self.facade_for(['ch'])
        if k is not None:
            return self.W.facades[k][1], k
        return self.pick_owner(V), None

    def g_ChAppend(self, V):
        rng = self.rng
        o, k = self.ch_owner(V)
        illegal = self.want_illegal()
        if illegal and rng.random() < 0.1:
            return ['ChAppend', o, None], {'facade': k}
        good = [t for t in V.users() if V.ok_parent(t, o)]
        bad = [t for t in V.users() if not V.ok_parent(t, o)]
        newc = [t for t in good if V.par(t) != o]
        if newc and rng.random() < 0.8:
            good = newc
        t = self.choose(good, bad, illegal)
        return ['ChAppend', o, t], {'facade': k}

    def g_ChRemove(self, V):
        rng = self.rng
        o, k = self.ch_owner(V)
        kids = V.kids(o)
        r = rng.random()
        if kids and r < 0.75:
            t = rng.choice(kids)
        elif r < 0.93:
            t = rng.choice(V.users())
        else:
            t = None
        return ['ChRemove', o, t], {'facade': k}

    def g_ChInsert(self, V):
        """children.insert / roots.insert: member and non-member tasks, the index drawn from the boundary set
        {0, L-1, L, L+1, -1, -L, -L-1, -L-2} of the CURRENT length L (the valid range is [-n, n) with
        n = L for a member, L + 1 for a newcomer)"""
        rng = self.rng
        o, k = self.ch_owner(V)
        if len(V.kids(o)) < 2 and rng.random() < 0.5:
            big = [x for x in self.owners(V) if len(V.kids(x)) >= 2]
            if big:
                o, k = rng.choice(big), None
        kids = V.kids(o)
        L = len(kids)
        illegal = self.want_illegal()
        if illegal and rng.random() < 0.04:
            return ['ChInsert', o, rng.randint(-2, 2), None], {'facade': k}
        bad_index = illegal and rng.random() < 0.65
        if kids and rng.random() < 0.45:
            # a task that is already in the list - mostly not the last one, so that a move to the end shows
            t = rng.choice(kids[:-1]) if L >= 2 and rng.random() < 0.75 else rng.choice(kids)
        else:
            good = [t for t in V.users() if t not in kids and V.ok_parent(t, o)]
            bad = [t for t in V.users() if t not in kids and not V.ok_parent(t, o)]
            t = self.choose(good, bad, illegal and not bad_index)
            if t is None:
                t = rng.choice(V.users())
        n = len([x for x in kids if x != t]) + 1
        boundary = [0, L - 1, L, L + 1, -1, -L, -L - 1, -L - 2]
        r = rng.random()
        if r < 0.15:
            i = rng.choice(boundary + [99, -99, rng.randint(-L - 3, L + 3)])
        elif bad_index:
            i = rng.choice([b for b in boundary if not -n <= b < n])
        else:
            i = rng.choice([b for b in boundary if -n <= b < n])
        return ['ChInsert', o, i, t], {'facade': k}

    def g_ChMove(self, V):
        rng = self.rng
        o, k = self.ch_owner(V)
        kids = V.kids(o)
        if len(kids) < 2 and rng.random() < 0.8:
            big = [x for x in self.owners(V) if len(V.kids(x)) >= 2]
            if big:
                o, k = rng.choice(big), None
                kids = V.kids(o)
        illegal = self.want_illegal()
        if len(kids) < 2 and not illegal and rng.random() < 0.9:
            return None
        others = [x for x in V.users() if x not in kids]
        ts = rng.sample(kids, min(len(kids) - (0 if illegal else 1), rng.choice([1, 1, 1, 2, 2, 3]))) if kids else []
        rest = [x for x in kids if x not in ts]
        b = a = None
        anchor = rng.choice(rest) if rest else None
        if rng.random() < 0.5:
            b = anchor
        else:
            a = anchor
        if illegal or anchor is None:
            r = rng.random()
            if r < 0.3 and others:                      # missing anchor
                if rng.random() < 0.5:
                    b, a = rng.choice(others), None
                else:
                    b, a = None, rng.choice(others)
            elif r < 0.45:                              # no anchor at all
                b = a = None
            elif r < 0.55 and len(kids) >= 2:           # both anchors
                b, a = rng.sample(kids, 2)
            elif r < 0.75 and ts:                       # anchor among the moved tasks
                if rng.random() < 0.5:
                    b, a = rng.choice(ts), None
                else:
                    b, a = None, rng.choice(ts)
            elif others:                                # the LAST task to move is not in the list
                ts = ts + [rng.choice(others)]
            else:
                b = a = None
        if ts and rng.random() < 0.15:                  # the same task twice in the selection (it is moved once)
            ts = ts + [rng.choice(ts)] if rng.random() < 0.5 else [ts[-1]] + ts
        form = pick_form(rng, ts)
        if form not in ('single', 'none') and rng.random() < 0.1:
            ts = ts + [None] if rng.random() < 0.5 else [None] + ts
        return ['ChMove', o, ts, b, a], {'facade': k, 'form': form,
                                         'v': rng.choice([None, None, 'explicit-none', 'positional'])}

    def g_ChSort(self, V):
        rng = self.rng
        o, k = self.ch_owner(V)
        if len(V.kids(o)) < 2 and rng.random() < 0.85:
            big = [x for x in self.owners(V) if len(V.kids(x)) >= 2]
            if not big:
                return None
            o, k = rng.choice(big), None
        key = rng.choice(['id', 'id', 'name', 'name', 'prio', 'prio', 'bad', 'est', 'est'])
        return ['ChSort', o, key, rng.random() < 0.4], {'facade': k, 'v': rng.choice([None, 'explicit'])}

    def g_ChReorder(self, V):
        rng = self.rng
        o, k = self.ch_owner(V)
        if len(V.kids(o)) < 2 and rng.random() < 0.85:
            big = [x for x in self.owners(V) if len(V.kids(x)) >= 2]
            if not big:
                return None
            o, k = rng.choice(big), None
        kid_ids = [V.tid(x) for x in V.kids(o)]
        ids = rng.sample(kid_ids, rng.randint(0, len(kid_ids)))
        if self.want_illegal():
            r = rng.random()
            if r < 0.5 or not ids:
                ids.append(rng.choice([i for i in self.ids + [self.unused_id] if i not in kid_ids] or [self.unused_id]))
            else:
                # an id named twice; judged by C05 on WBS.tasks, so mostly on the children of a WBS member / the roots
                inw = [x for x in self.owners(V) if len(V.kids(x)) >= 2 and any(x in V.sub(r0) for r0 in V.wr)]
                if inw and rng.random() < 0.7:
                    o, k = rng.choice(inw), None
                    kid_ids = [V.tid(x) for x in V.kids(o)]
                    ids = rng.sample(kid_ids, rng.randint(1, len(kid_ids)))
                ids.insert(rng.randint(0, len(ids)), rng.choice(ids))
        return ['ChReorder', o, ids], {'facade': k, 'v': rng.choice([None, 'tuple'])}

    def ids_arg(self, present):
        rng = self.rng
        pool = list(dict.fromkeys(present + self.ids + [self.unused_id]))
        ids = self.subset(pool, 0.35)
        if present and rng.random() < 0.6 and not set(ids) & set(present):
            ids.append(rng.choice(present))
        v = rng.choice([None, None, 'key', 'key+kw'])
        if len(ids) == 1 and rng.random() < 0.5:
            v = 'id'
        if rng.random() < 0.08:
            v, ids = 'all', list(dict.fromkeys(self.ids + [self.unused_id] + present))
        return ids, v

    def g_ChRemoveAll(self, V):
        o, k = self.ch_owner(V)
        if not V.kids(o) and self.rng.random() < 0.8:
            return None
        ids, v = self.ids_arg([V.tid(x) for x in V.kids(o)])
        if getattr(self, 'raise_filters', False) and ids and self.rng2.random() < 0.7:
            return ['ChRemoveAll', o, ids], {'facade': k, 'v': 'key', 'raise_after': True}
        return ['ChRemoveAll', o, ids], {'facade': k, 'v': v}

    def ln_owner(self, V, d):
        k = self.facade_for(['pr' if d else 'su'])
        if k is not None:
            return self.W.facades[k][1], k
        return self.rng.choice(V.users()), None

    def g_LnAppend(self, V):
        rng = self.rng
        d = rng.random() < 0.5
        t, k = self.ln_owner(V, d)
        illegal = self.want_illegal()
        if illegal and rng.random() < 0.08:
            return ['LnAppend', d, t, None], {'facade': k}
        cur = V.preds(t) if d else V.succs(t)
        good = [x for x in V.users() if V.ok_links(d, t, cur + [x])]
        bad = [x for x in V.users() if not V.ok_links(d, t, cur + [x])]
        fresh = [x for x in good if x not in cur]
        if fresh and rng.random() < 0.85:
            good = fresh
        return ['LnAppend', d, t, self.choose(good, bad, illegal)], {'facade': k}

    def g_LnRemove(self, V):
        rng = self.rng
        d = rng.random() < 0.5
        t, k = self.ln_owner(V, d)
        cur = V.preds(t) if d else V.succs(t)
        if not cur and rng.random() < 0.7:
            linked = [x for x in V.users() if (V.preds(x) if d else V.succs(x))]
            if not linked:
                return None
            t, k = rng.choice(linked), None
            cur = V.preds(t) if d else V.succs(t)
        r = rng.random()
        x = rng.choice(cur) if cur and r < 0.75 else (rng.choice(V.users()) if r < 0.94 else None)
        return ['LnRemove', d, t, x], {'facade': k}

    def g_LnRemoveAll(self, V):
        rng = self.rng
        d = rng.random() < 0.5
        t, k = self.ln_owner(V, d)
        cur = V.preds(t) if d else V.succs(t)
        if not cur:
            linked = [x for x in V.users() if (V.preds(x) if d else V.succs(x))]
            if not linked:
                return None
            t, k = rng.choice(linked), None
            cur = V.preds(t) if d else V.succs(t)
        ids, v = self.ids_arg([V.tid(x) for x in cur])
        return ['LnRemoveAll', d, t, ids], {'facade': k, 'v': v}

    def g_OpFloordiv(self, V):
        rng = self.rng
        k = self.facade_for(['ch'])
        o = self.W.facades[k][1] if k is not None else self.pick_owner(V)
        cur = V.kids(o)
        vs = self.list_arg(V, [], V.users(), lambda l: V.ok_children(o, cur + l), self.want_illegal(), max_add=3)
        if cur and rng.random() < 0.2:
            vs.insert(rng.randint(0, len(vs)), rng.choice(cur))        # a task that is already a member
        form = pick_form(rng, vs)
        if form not in ('single', 'none'):
            vs = decorate(rng, vs)
        v = 'facade_add' if k is not None else rng.choice([None, None, 'iadd'])
        return ['OpFloordiv', o, vs], {'form': form, 'v': v, 'facade': k}

    def g_OpShift(self, V):
        rng = self.rng
        d = rng.random() < 0.5
        k = self.facade_for(['pr' if d else 'su'])
        t = self.W.facades[k][1] if k is not None else rng.choice(V.users())
        cur = V.preds(t) if d else V.succs(t)
        vs = self.list_arg(V, [], V.users(), lambda l: V.ok_links(d, t, cur + l), self.want_illegal(), max_add=3)
        if cur and rng.random() < 0.2:
            vs.insert(rng.randint(0, len(vs)), rng.choice(cur))
        form = pick_form(rng, vs)
        if form not in ('single', 'none'):
            vs = decorate(rng, vs)
        v = 'facade_add' if k is not None else rng.choice([None, None, 'iadd'])
        return ['OpShift', d, t, vs], {'form': form, 'v': v, 'facade': k}

    def a_source(self, V, min_len=1):
        rng = self.rng
        c = []
        for s in all_sources(self.W):
            try:
                ts = self.W.nums(src_list(self.W, s))
            except BaseException:  # noqa
                continue
            if len(ts) >= min_len:
                c.append((s, ts))
        if not c:
            return None
        multi = [x for x in c if len(x[1]) >= 2]
        s, ts = rng.choice(multi if multi and rng.random() < 0.8 else c)
        if len(ts) >= 2 and rng.random() < 0.3:
            ids = self.subset(sorted(set(V.tid(x) for x in ts)), 0.6) or [V.tid(ts[0])]
            s = ['filter', s, ids]
            ts = [x for x in ts if V.tid(x) in ids]
        return s, ts

    def g_LstShift(self, V):
        rng = self.rng
        st = self.a_source(V)
        if st is None:
            return None
        s, ts = st
        d = rng.random() < 0.5
        users = V.users()

        def ok_for(t, l):
            return V.ok_links(d, t, (V.preds(t) if d else V.succs(t)) + l)
        illegal = self.want_illegal()
        vs = []
        for _ in range(rng.randint(1, 2)):
            add = [c for c in users if c not in vs and all(ok_for(t, vs + [c]) for t in ts)]
            if add:
                vs.append(rng.choice(add))
        if illegal:
            # accepted by the first element(s) of the list, rejected by a later one (mostly the last)
            late = [c for c in users if ts and ok_for(ts[0], vs + [c]) and not all(ok_for(t, vs + [c]) for t in ts)]
            anyb = [c for c in users if not all(ok_for(t, vs + [c]) for t in ts)]
            pool = late if late and rng.random() < 0.8 else anyb
            if pool:
                vs.append(rng.choice(pool))
        form = pick_form(rng, vs, allow_iter=False)
        if form not in ('single', 'none') and rng.random() < 0.1:
            vs = vs + [None]
        return ['LstShift', d, ts, vs], {'src': s, 'form': form}

    def g_LstSetParent(self, V):
        rng = self.rng
        st = self.a_source(V)
        if st is None:
            return None
        s, ts = st
        users = V.users()
        cands = users + [None]
        illegal = self.want_illegal()
        # sequential legality is approximated element by element on the current state
        good = [p for p in cands if all(V.ok_parent(t, p) for t in ts)]
        late = [p for p in cands if ts and V.ok_parent(ts[0], p) and not all(V.ok_parent(t, p) for t in ts)]
        bad = [p for p in cands if not all(V.ok_parent(t, p) for t in ts)]
        if illegal:
            pool = late if late and rng.random() < 0.8 else (bad or good)
        else:
            pool = good or bad
        if not pool:
            return None
        return ['LstSetParent', ts, rng.choice(pool)], {'src': s}

    def bulk_value(self, V, ts, first_rejecting, illegal, seeds):
        """a value for a bulk assignment: grown from `seeds` and the other tasks so that every element accepts it;
        then (illegal) an offender - mostly one the first element accepts and a later one rejects"""
        rng = self.rng
        users = V.users()
        vs = []
        cands = list(seeds) + users
        for _ in range(rng.choice([0, 1, 1, 1, 2, 2, 2, 3, 3])):
            add = [c for c in dict.fromkeys(cands) if c not in vs and first_rejecting(vs + [c]) is None]
            pref = [c for c in add if c in seeds]
            if add:
                vs.append(rng.choice(pref if pref and rng.random() < 0.6 else add))
        if illegal:
            off = [(c, first_rejecting(vs + [c])) for c in users if c not in vs]
            late = [c for c, k in off if k is not None and k >= 1]
            anyb = [c for c, k in off if k is not None]
            pool = late if late and rng.random() < 0.8 else anyb
            if pool:
                x = rng.choice(pool)
                if rng.random() < 0.75:
                    vs.append(x)
                else:
                    vs.insert(rng.randint(0, len(vs)), x)
        return vs

    def bulk_source(self, V):
        """short lists are preferred: every element has to accept the value"""
        for _ in range(4):
            st = self.a_source(V)
            if st is None:
                return None
            if 2 <= len(st[1]) <= 3 or self.rng.random() < 0.35:
                return st
        return st

    def g_LstSetChildren(self, V):
        """lst.children = value: every element in turn takes the SAME tasks (each later one takes them away from
        the one before); members of the list itself inside the value are rejected by that member"""
        rng = self.rng
        st = self.bulk_source(V)
        if st is None:
            return None
        s, ts = st
        illegal = self.want_illegal()
        seeds = [c for t in ts for c in V.kids(t)] + ([x for x in ts[1:]] if illegal else [])
        vs = self.bulk_value(V, ts, lambda l: V.bulk_children(ts, l), illegal, seeds)
        form = pick_form(rng, vs)
        if form not in ('single', 'none'):
            vs = decorate(rng, vs)
        return ['LstSetChildren', ts, vs], {'src': s, 'form': form, 'v': rng.choice([None, None, None, 'setattr'])}

    def g_LstSetLinks(self, V):
        """lst.predecessors = value / lst.successors = value"""
        rng = self.rng
        st = self.bulk_source(V)
        if st is None:
            return None
        s, ts = st
        d = rng.random() < 0.5
        illegal = self.want_illegal()
        seeds = [c for t in ts for c in (V.preds(t) if d else V.succs(t))]
        vs = self.bulk_value(V, ts, lambda l: V.bulk_links(d, ts, l), illegal, seeds)
        form = pick_form(rng, vs)
        if form not in ('single', 'none'):
            vs = decorate(rng, vs)
        return ['LstSetLinks', d, ts, vs], {'src': s, 'form': form, 'v': rng.choice([None, None, None, 'setattr'])}

    def g_DeepLink(self, V):
        """aims at `a task is re-parented below a task that one of its DEEP descendants (>= 2 levels down) is
        linked with` - the check of the links of the whole moved subtree against the new parent chain.
        When the situation exists the illegal re-parenting is issued in one of its spellings; otherwise one
        step towards it: grow a chain m -> c -> g, link g with a task of another tree."""
        rng = self.rng
        users = V.users()
        strikes, deep = [], []
        for m in users:
            subm = V.sub(m)
            sset = set(subm)
            for g in subm:
                if g == m or V.par(g) == m:
                    continue
                deep.append((m, g))
                for x in V.preds(g) + V.succs(g):
                    if x in sset or V.hid(x):
                        continue
                    for p in V.sub(x):             # x is the new parent or one of its ancestors
                        if p not in sset and not V.hid(p) and V.par(m) != p and V.ok_parent(m, p, links=False):
                            strikes.append((m, p))
        if strikes:
            m, p = rng.choice(strikes)
            kids = V.kids(p)
            how = {'aim': 'deep-link-strike'}
            r = rng.random()
            if r < 0.3:
                return ['SetParent', m, p], how
            if r < 0.45:
                return ['ChAppend', p, m], how
            if r < 0.6:
                return ['ChInsert', p, rng.randint(-len(kids) - 1, len(kids)), m], how
            if r < 0.8:
                vs = [m] if rng.random() < 0.6 or not users else [m, rng.choice(users)]
                return ['OpFloordiv', p, vs], dict(how, form=pick_form(rng, vs), v=rng.choice([None, 'iadd']))
            vs = kids + [m]
            if rng.random() < 0.5:
                rng.shuffle(vs)
            return ['SetChildren', p, vs], dict(how, form=pick_form(rng, vs))
        how = {'aim': 'deep-link-build'}
        rng.shuffle(deep)
        for m, g in deep:                         # link the deep descendant with a task of another tree
            d = rng.random() < 0.5
            tree = set(V.sub(V.root(m)))
            cur = V.preds(g) if d else V.succs(g)
            xs = [x for x in users if x not in tree and x not in cur and V.ok_links(d, g, cur + [x])]
            if xs:
                x = rng.choice(xs)
                r = rng.random()
                if r < 0.4:
                    return ['LnAppend', d, g, x], how
                if r < 0.7:
                    return ['OpShift', not d, x, [g]], how          # from the other end
                return ['SetLinks', d, g, cur + [x]], how
        two = [(m, c) for m in users for c in V.kids(m) if not V.kids(c)]
        rng.shuffle(two)
        for m, c in two:                          # a third level
            gs = [g for g in users if V.par(g) != c and V.ok_parent(g, c) and not V.kids(g)]
            if gs:
                g = rng.choice(gs)
                return (['SetParent', g, c] if rng.random() < 0.5 else ['ChAppend', c, g]), how
        pairs = [(c, m) for m in users for c in users if c != m and V.par(c) != m and not V.kids(c) and V.ok_parent(c, m)]
        if pairs:
            c, m = rng.choice(pairs)
            return ['SetParent', c, m], how
        return None

    def g_SortNone(self, V):
        """aims at `sort raises in the middle`: a list of 3+ children whose first two estimates are out of order and
        a later child has estimate None; then sort by estimate (TypeError; the list must keep its order)"""
        rng = self.rng
        big = [x for x in self.owners(V) if len(V.kids(x)) >= 4]
        if not big:
            # first give some owner four children, then come back
            users = V.users()
            for t in rng.sample(self.owners(V), len(self.owners(V))):
                vs = list(V.kids(t))
                for c in rng.sample(users, len(users)):
                    if len(vs) >= 4:
                        break
                    if c not in vs and V.ok_children(t, vs + [c]):
                        vs.append(c)
                if len(vs) >= 4:
                    if not getattr(self, 'sortnone_built', False):
                        self.sortnone_built = True
                        self.queue = [self.g_SortNone]
                    return ['SetChildren', t, vs], {'form': 'list', 'aim': 'sort-none-build'}
            return None
        o = rng.choice(big)
        kids = V.kids(o)
        n = len(kids)
        how = {'aim': 'sort-none'}
        rev = rng.random() < 0.4
        # every child gets a distinct estimate in random order, one child None: far enough from the end where the
        # sort starts (reverse=True walks the reversed list) that something has been moved before None is met
        j = rng.randint(0, max(0, n - 3)) if rev else rng.randint(min(2, n - 1), n - 1)
        vals = rng.sample([0, 4, 8, 12, 16, 24, 32, 40], n)
        if n >= 3 and not rev and vals[0] < vals[1] and (n < 4 or vals[1] < vals[2]):
            vals[0], vals[1] = vals[1], vals[0]           # an out-of-order pair in front
        ops = [(['SetEst', kids[i], None if i == j else vals[i]], how) for i in range(n)]
        ops.append((['ChSort', o, 'est', rev], dict(how, facade=None, v=rng.choice([None, 'explicit']))))
        if rng.random() < 0.5:      # and once more after the None is gone: accepted, really sorted
            ops += [(['SetEst', kids[j], rng.choice([2, 14, 36])], how),
                    (['ChSort', o, 'est', rev], dict(how, facade=None, v=None))]
        self.queue = ops[1:]
        return ops[0]

    def g_Promote(self, V):
        """aims at `one children / roots assignment drops a child and keeps (promotes) one of its descendants`:
        the promoted subtree stays in the tree while the dropped rest is released"""
        rng = self.rng
        cands = []
        for t in self.owners(V):
            for c in V.kids(t):
                for g in V.sub(c):
                    if g != c:
                        cands.append((t, c, g))
        if not cands:
            return None
        t, c, g = rng.choice(cands)
        vs = [x for x in V.kids(t) if x != c and rng.random() < 0.7] + [g]
        if rng.random() < 0.5:
            rng.shuffle(vs)
        if not V.ok_children(t, vs):
            return None
        if rng.random() < 0.3:
            # ... and a task of another tree that carries the id of the promoted descendant joins in the same call:
            # the id is still in use in the receiving tree, the call must be rejected
            twins = [x for x in V.users() if V.tid(x) == V.tid(g) and x != g and V.root(x) != V.root(t) and V.par(x) is None]
            if twins:
                vs = vs + [rng.choice(twins)]
                return ['SetChildren', t, vs], {'form': 'list', 'aim': 'promote-descendant-with-id-twin'}
        form = pick_form(rng, vs)
        return ['SetChildren', t, vs], {'form': form, 'aim': 'promote-descendant'}

    def g_StaleList(self, V):
        """aims at a list view kept ACROSS a call that rewrites the list: `f = t.children` (or wbs.roots), then a
        reorder / sort / move made directly, then a call through f (remove, move, append, insert, sort, reorder).
        The view must still be the list of the parent."""
        rng = self.rng
        big = [x for x in self.owners(V) if len(V.kids(x)) >= 2]
        if not big or len(self.W.facades) >= 12:
            return None
        o = rng.choice(big)
        kids = V.kids(o)
        k = new_facade(self.W, 'ch', o)
        self.extra_acq = ['ch', o]
        how = {'aim': 'stale-list'}
        kid_ids = [V.tid(x) for x in kids]
        r = rng.random()
        if r < 0.45:
            first = ['ChReorder', o, rng.sample(kid_ids, rng.randint(1, len(kid_ids)))], dict(how, facade=None, v=None)
        elif r < 0.8:
            first = ['ChSort', o, rng.choice(['id', 'name']), rng.random() < 0.5], dict(how, facade=None, v=None)
        else:
            a, b = rng.sample(kids, 2)
            first = ['ChMove', o, [a], b, None], dict(how, facade=None, form='list', v=None)
        others = [x for x in V.users() if x not in kids and V.ok_parent(x, o if not V.hid(o) else None)]
        c = rng.choice(kids)
        r = rng.random()
        if r < 0.35:
            second = ['ChRemove', o, c], dict(how, facade=k)
        elif r < 0.55 and len(kids) >= 2:
            d = rng.choice([x for x in kids if x != c])
            second = ['ChMove', o, [c], d, None], dict(how, facade=k, form='list', v=None)
        elif r < 0.7 and others:
            second = ['ChAppend', o, rng.choice(others)], dict(how, facade=k)
        elif r < 0.8 and others:
            second = ['ChInsert', o, 0, rng.choice(others)], dict(how, facade=k)
        elif r < 0.9:
            second = ['ChReorder', o, [V.tid(c)]], dict(how, facade=k, v=None)
        else:
            second = ['ChRemoveAll', o, [V.tid(c)]], dict(how, facade=k, v=None)
        self.queue = [second]
        r2 = self.rng2.random()
        if r2 < 0.4 and first[0][0] == 'ChReorder':
            # ... and between the two the membership of the list changes through a fresh view (a task joins or leaves);
            # then a reorder through the kept view: the parent's list must be what the last calls made it
            if others and self.rng2.random() < 0.6:
                middle = ['ChAppend', o, self.rng2.choice(others)], dict(how, facade=None)
                last_ids = self.rng2.sample(kid_ids, self.rng2.randint(1, len(kid_ids)))
            else:
                gone = self.rng2.choice(kids)
                middle = ['ChRemove', o, gone], dict(how, facade=None)
                last_ids = [i for i in kid_ids if i != V.tid(gone)][:2] or kid_ids[:1]
            self.queue = [middle, (['ChReorder', o, last_ids], dict(how, facade=k, v=None))]
        return first

    def g_ReleaseReuse(self, V):
        """aims at a stale owner below a RELEASED subtree: a member m with descendants leaves its WBS (remove / left out
        of an assignment), a new task re-using the id of an inner task g of the released subtree joins the WBS, then g
        itself (not m) is brought back below a member - the id is taken, the call must be rejected"""
        rng = self.rng
        how = {'aim': 'release-reuse'}
        cands = []
        for wi, r in enumerate(V.wr):
            for m in V.sub(r)[1:]:
                inner = [g for g in V.sub(m) if g != m]
                if inner:
                    cands.append((wi, r, m, inner))
        if not cands:
            return None
        wi, r, m, inner = rng.choice(cands)
        g = rng.choice(inner)
        n = V.n
        pairs = [(wi2, r2_, q, i) for wi2, r2_ in enumerate(V.wr) for q in V.sub(r2_) for i in range(len(V.kids(q)) - 1)]
        if pairs and self.rng2.random() < 0.35:
            # variant: TWO neighbouring children are left out of one children / roots assignment; a new task takes the id of
            # the second one, which is then handed back below a member that stayed: the id is taken, the call must be rejected
            wi2, r2_, q, i = self.rng2.choice(pairs)
            kids_q = V.kids(q)
            a, b = kids_q[i], kids_q[i + 1]
            stay2 = [x for x in V.sub(r2_)[1:] if x not in V.sub(a) and x not in V.sub(b)]
            p2 = self.rng2.choice(stay2) if stay2 and self.rng2.random() < 0.6 else r2_
            first2 = ['SetChildren', q, [x for x in kids_q if x not in (a, b)]], dict(how, form='list')
            back2 = (['ChAppend', p2, b], dict(how, facade=None)) if self.rng2.random() < 0.5 or p2 == r2_ else \
                (['SetParent', b, p2], dict(how, v=None))
            self.queue = [(['NewTask', V.tid(b), None, 'r', None], {}), (['ChAppend', r2_, n], dict(how, facade=None)), back2]
            return first2
        stay = [x for x in V.sub(r)[1:] if x not in V.sub(m)]
        p = rng.choice(stay) if stay and rng.random() < 0.6 else r
        first = rng.choice([(['WbsRemove', wi, m], how), (['ChRemove', V.par(m), m], dict(how, facade=None))])
        back = rng.choice([(['ChAppend', p, g], dict(how, facade=None)), (['SetParent', g, None if p == r else p], dict(how, v=None)),
                           (['OpFloordiv', p, [g]], dict(how, form='list', v=None))])
        if back[0][0] == 'SetParent' and p == r:
            back = (['ChAppend', r, g], dict(how, facade=None))
        self.queue = [(['NewTask', V.tid(g), None, 'r', None], {}), (['ChAppend', r, n], dict(how, facade=None)), back]
        return first

    def g_BulkUndoNeighbour(self, V):
        """aims at the undo of a bulk assignment whose SECOND element rewired a neighbour that nothing else names:
        fresh tasks a, x, n, q, bad with x waiting for [a, n] and bad a child of q; then [a, x, bad].predecessors = [q]
        (or the mirror image with successors): accepted for a and x - n loses its link with x - and rejected for bad
        (q is its parent).  Afterwards n and x must be linked as before, on both ends."""
        rng = self.rng
        if getattr(self, 'bulkundo_done', 0) >= 2:
            return None
        self.bulkundo_done = getattr(self, 'bulkundo_done', 0) + 1
        how = {'aim': 'bulk-undo-neighbour'}
        d = rng.random() < 0.5                # True: predecessor lists
        n0 = V.n
        a, x, nb, q, bad = n0, n0 + 1, n0 + 2, n0 + 3, n0 + 4
        ids = [30, 31, 32, 33, 34]
        order = [a, x, bad] if rng.random() < 0.7 else [x, a, bad]
        self.queue = [(['NewTask', ids[1], None, 'x', None], {}), (['NewTask', ids[2], None, 'n', None], {}),
                      (['NewTask', ids[3], None, 'q', None], {}), (['NewTask', ids[4], None, 'z', None], {}),
                      (['SetLinks', d, x, [a, nb]], dict(how, form='list')),
                      (['SetParent', bad, q], dict(how, v=None)),
                      (['LstSetLinks', d, order, [q]], dict(how, src=['raw', order], form=rng.choice(['list', 'single']), v=None))]
        return ['NewTask', ids[0], None, 'a', None], {}

    def g_LongChainCycle(self, V):
        """aims at a dependency cycle that is LONG: a chain of five fresh tasks c1 -> c2 -> ... -> c5, then the last one is
        asked to precede the first (from the predecessor side or from the successor side): the closure behind the cycle check
        has to reach four links deep"""
        rng = self.rng
        if getattr(self, 'longchain_done', False):
            return None
        self.longchain_done = True
        how = {'aim': 'long-chain-cycle'}
        n0 = V.n
        c = [n0 + i for i in range(5)]
        side = rng.random() < 0.5            # True: the links are made (and the cycle is asked for) on predecessor lists
        q = [(['NewTask', 41 + i, None, 'c', None], {}) for i in range(1, 5)]
        for i in range(1, 5):
            q.append((['SetLinks', True, c[i], [c[i - 1]]], dict(how, form='list')) if side else
                     (['SetLinks', False, c[i - 1], [c[i]]], dict(how, form='list')))
        r = rng.random()
        if side:
            close = ['LnAppend', True, c[0], c[4]] if r < 0.4 else ['SetLinks', True, c[0], [c[4]]] if r < 0.7 else ['OpShift', True, c[0], [c[4]]]
        else:
            close = ['LnAppend', False, c[4], c[0]] if r < 0.4 else ['SetLinks', False, c[4], [c[0]]] if r < 0.7 else ['OpShift', False, c[4], [c[0]]]
        q.append((close, dict(how, form='list', v=None) if close[0] != 'LnAppend' else dict(how, facade=None)))
        self.queue = q
        return ['NewTask', 41, None, 'c', None], {}

    def g_AdoptRootRemove(self, V):
        """aims at a ROOT task of a WBS that is adopted by another member of the same WBS through a children assignment
        (=, +=, //) and is then taken out again (WBS.remove, list removal, left out of an assignment): afterwards it must
        be gone from the WBS and report no owner"""
        rng = self.rng
        how = {'aim': 'adopt-root-remove'}
        cands = []
        for wi, r in enumerate(V.wr):
            roots = V.kids(r)
            for b in roots:
                for a in V.sub(r)[1:]:
                    if a != b and a not in V.sub(b) and V.ok_children(a, V.kids(a) + [b]):
                        cands.append((wi, a, b))
        if not cands:
            return None
        wi, a, b = rng.choice(cands)
        r = rng.random()
        if r < 0.4:
            first = ['SetChildren', a, V.kids(a) + [b]], dict(how, form='list')
        elif r < 0.7:
            first = ['OpFloordiv', a, [b]], dict(how, form='list', v='iadd')
        else:
            first = ['OpFloordiv', a, [b]], dict(how, form=rng.choice(['list', 'single']), v=None)
        r = rng.random()
        if r < 0.45:
            second = ['WbsRemove', wi, b], dict(how)
        elif r < 0.75:
            second = ['ChRemove', a, b], dict(how, facade=None)
        else:
            second = ['SetChildren', a, list(V.kids(a))], dict(how, form='list')
        self.queue = [second]
        return first

    def g_Diamond(self, V, side=None):
        """aims at the dependency closure of a DIAMOND: t waits for [a, b, c] where a also waits for b (b is met twice and
        is not the last one); then c is asked to wait for t - a cycle that must be rejected.  Mirrored on the successor
        side in half of the episodes (t releases [a, b, c], a releases b; then c is asked to release t)."""
        rng = self.rng
        users = V.users()
        if side is None:
            side = rng.random() < 0.5            # True: predecessor lists, False: successor lists
        how = {'aim': 'diamond' if side else 'diamond-successors'}
        rel = V.preds if side else V.succs
        for t in rng.sample(users, len(users)):
            ps = rel(t)
            if len(ps) >= 3:
                for a in ps[:-1]:
                    shared = [b for b in rel(a) if b in ps and ps.index(b) < len(ps) - 1]
                    if shared:
                        late = [c for c in ps[ps.index(shared[0]) + 1:] if c != a] or [ps[-1]]
                        c = rng.choice(late)
                        r = rng.random()
                        if r < 0.4:
                            return ['LnAppend', side, c, t], how
                        if r < 0.7:
                            return ['OpShift', not side, t, [c]], how
                        return ['SetLinks', side, c, rel(c) + [t]], how
        # build: three unrelated tasks a, b, c; a waits for b; t waits for a, b, c (in an order that keeps b early)
        free = [x for x in users if not V.preds(x) and not V.succs(x)]
        rng.shuffle(free)
        for t in free:
            cand = [x for x in free if x != t and V.ok_links(side, t, [x])]
            if len(cand) >= 3:
                a, b, c = cand[:3]
                if V.ok_links(side, a, [b]):
                    order = rng.choice([[a, b, c], [b, a, c], [a, b, c]])
                    self.queue = [(['SetLinks', side, t, order], dict(how, form='list')), lambda V2: self.g_Diamond(V2, side)]
                    return ['LnAppend', side, a, b], how
        return None

    def g_DeepUndo(self, V):
        """aims at the undo of a sequence of setter calls whose FIRST call moved a subtree three levels deep from a
        free tree into a WBS: the constructor with children=[deep tree] and a rejected later argument, and the bulk
        parent assignment whose second element is rejected.  The deep tree gets ids of its own (20, 21, 22) so that
        the adoption is not refused for an id clash."""
        rng = self.rng
        users = V.users()
        how = {'aim': 'deep-undo'}
        inw = [p for p in users if any(p in V.sub(r) for r in V.wr)]
        if not inw:
            return None

        def ids_of(xs):
            return set(V.tid(y) for y in xs)
        deep = [x for x in users if V.par(x) is None and any(V.kids(c) for c in V.kids(x))]     # free root, depth >= 2 below it
        pairs = [(a, p) for a in deep for p in inw
                 if not (ids_of(V.sub(a)) & ids_of(V.sub(V.root(p)))) and V.ok_children(p, V.kids(p) + [a])]
        if not pairs:
            if getattr(self, 'deepundo_built', False):
                return None
            self.deepundo_built = True
            n = V.n
            self.queue = [(['NewTask', 21, None, 'b', None], {}), (['NewTask', 22, None, 'c', None], {}),
                          (['SetParent', n + 1, n], dict(how, v=None)), (['SetParent', n + 2, n + 1], dict(how, v=None)),
                          self.g_DeepUndo]
            return ['NewTask', 20, None, 'a', None], {}
        a, p = rng.choice(pairs)
        r = rng.random()
        deepest = [x for c_ in V.kids(a) for x in V.kids(c_)]
        if deepest and self.rng2.random() < 0.6:
            # follow-up (own stream): after the rejected compound call a NEW member takes the id of a task two levels below
            # the tree that was briefly adopted, and that task is then moved into the WBS on the parent path - it owns
            # nothing, so the id check must refuse it (a stale owner left by the undo lets it in: two members, one id)
            g = self.rng2.choice(deepest)
            root_p = V.root(p)
            gid = V.tid(g)

            def then_new(V2, g=g, p=p, root_p=root_p, gid=gid):
                n2 = V2.n
                kind = self.rng2.choice(['SetParent', 'ChAppend', 'ChInsert'])
                back = (['SetParent', g, p], dict(how, v=None)) if kind == 'SetParent' else \
                    (['ChAppend', p, g], dict(how, facade=None)) if kind == 'ChAppend' else (['ChInsert', p, 0, g], dict(how, facade=None))
                self.queue = [(['ChAppend', root_p, n2], dict(how, facade=None)), back]
                return ['NewTask', gid, None, 'twin', None], {}
            self.queue = [then_new]
        if r < 0.6:
            # constructor: parent inside a WBS, children=[a] (adopted with its whole subtree), then a rejected dependency
            i = 23 if 23 not in ids_of(users) else self.unused_id
            bad = rng.choice([[p], [a]] + ([[V.anc(p)[0]]] if V.anc(p) and not V.hid(V.anc(p)[0]) else []))
            if rng.random() < 0.5:
                return ['NewTaskRel', i, 'a', p, [a], [], bad], dict(how, fch='list', fsu='list', fpr='list', pass_empty=False)
            return ['NewTaskRel', i, 'a', p, [a], bad, []], dict(how, fch='list', fsu='list', fpr='list', pass_empty=False)
        # bulk parent: [a, offender].parent = p with p inside a WBS; the offender is rejected after a was adopted
        off = [x for x in users if x != a and x not in V.sub(a) and not V.ok_parent(x, p)] or [p]
        return ['LstSetParent', [a, rng.choice(off)], p], dict(how)

    def g_WbsRemove(self, V):
        rng = self.rng
        if not V.wr:
            return None
        w = rng.randrange(len(V.wr))
        members = V.sub(V.wr[w])[1:]
        r = rng.random()
        if members and r < 0.7:
            t = rng.choice(members)
        elif r < 0.93:
            t = rng.choice(V.users())
        else:
            t = None
        return ['WbsRemove', w, t], {}

    def g_WbsRemoveAll(self, V):
        rng = self.rng
        if not V.wr:
            return None
        w = rng.randrange(len(V.wr))
        members = V.sub(V.wr[w])[1:]
        if not members and rng.random() < 0.8:
            return None
        ids, v = self.ids_arg([V.tid(x) for x in members])
        nested = [(m, g) for m in members for g in V.sub(m)[1:]]
        if nested and rng.random() < 0.45:
            # aimed: the filter matches a task AND one of its own descendants (the descendant leaves with its ancestor;
            # it must still be reported, and nothing else may be touched)
            m, g = rng.choice(nested)
            ids = [V.tid(m), V.tid(g)] if rng.random() < 0.5 else [V.tid(g), V.tid(m)]
            if rng.random() < 0.3:
                ids.append(rng.choice([V.tid(x) for x in members]))
            v = rng.choice([None, None, 'key', 'key+kw'])
        if not getattr(self, 'spread_done', False) and self.rng2.random() < 0.35:
            # aimed episode (own stream): four fresh tasks a, b, x, c join the WBS as roots a, b, c with x below b; then
            # remove_all names a, x and c - two siblings separated, in WBS order, by a match that has another parent (and
            # b, between them, stays).  Every named task must be gone and unowned afterwards.
            self.spread_done = True
            how = {'aim': 'remove-all-spread'}
            r = V.wr[w]
            n0 = V.n
            a, b, x, c = n0, n0 + 1, n0 + 2, n0 + 3
            i0 = 51 + 4 * (len(V.wr) % 3)
            order = [i0, i0 + 2, i0 + 3]
            self.rng2.shuffle(order)
            self.queue = [(['NewTask', i0 + 1, None, 'sb', None], {}), (['NewTask', i0 + 2, None, 'sx', None], {}),
                          (['NewTask', i0 + 3, None, 'sc', None], {}),
                          (['ChAppend', r, a], dict(how, facade=None)), (['ChAppend', r, b], dict(how, facade=None)),
                          (['ChAppend', b, x], dict(how, facade=None)), (['ChAppend', r, c], dict(how, facade=None)),
                          (['WbsRemoveAll', w, order], dict(how, v=self.rng2.choice([None, 'key'])))]
            return ['NewTask', i0, None, 'sa', None], {}
        if len(members) >= 3 and self.rng2.random() < 0.3:
            # aimed (own stream): MANY matches spread over the tree - siblings separated, in WBS order, by a match that has
            # another parent; every match must be gone afterwards, in whatever order or grouping they are taken out
            tids = list(dict.fromkeys(V.tid(x) for x in members if self.rng2.random() < 0.65))
            if len(tids) >= 3:
                ids = tids
                self.rng2.shuffle(ids)
                if v == 'id':            # (the single-id spelling cannot name several tasks)
                    v = None
        if getattr(self, 'raise_filters', False) and ids and self.rng2.random() < 0.7:
            # histories of their own (seeds 'rf-...'): the caller's filter raises after its first match - the call is
            # rejected and nothing may have been removed
            return ['WbsRemoveAll', w, ids], {'v': 'key', 'raise_after': True}
        return ['WbsRemoveAll', w, ids], {'v': v}

    def g_SetEst(self, V):
        return ['SetEst', self.rng.choice(V.users()), self.rng.choice([None, 0, 8, 40, -1, -8])], {}

    def g_SetPrio(self, V):
        return ['SetPrio', self.rng.choice(V.users()), self.rng.randint(0, 5)], {}

    def maybe_keep_facade(self, V):
        """`f = t.children` / `wbs.roots` / `t.predecessors` kept for later use"""
        rng = self.rng
        if not V.users() or rng.random() >= 0.3:
            return
        kind = rng.choice(['ch', 'ch', 'ch', 'pr', 'su'])
        owners = self.owners(V) if kind == 'ch' else V.users()
        if kind == 'ch':
            busy = [x for x in owners if V.kids(x)]
            if busy and rng.random() < 0.7:
                owners = busy
        if len(self.W.facades) >= 8:
            return
        o = rng.choice(owners)
        new_facade(self.W, kind, o)
        return [kind, o]


def gen_history(seed):
    rng = random.Random('graph-history/%s' % seed)
    W = World()
    G = Gen(rng, W)
    G.seed_text = str(seed)
    G.raise_filters = str(seed).startswith('rf-')
    ids = G.ids + [G.unused_id]
    steps = []
    snap = W.snapshot()
    for step in range(G.n_ops):
        G.step = step
        V = View(snap)
        acq = G.maybe_keep_facade(V)
        op, how = G.gen_op(V)
        how = {k: v for k, v in how.items() if v is not None}
        rec = do_call(W, op, how, ids)
        extra = getattr(G, 'extra_acq', None)          # a facade acquired by an aimed episode just before the call
        G.extra_acq = None
        rec['acq'] = [a for a in (acq, extra) if a]
        steps.append(rec)
        snap = rec['post']
        if rec['hung']:
            break                # the implementation no longer answers on this graph: the history ends here
    return {'seed': seed, 'steps': steps, 'anomalies': sorted(set(W.anomalies)),
            'plan': {'ops': G.n_ops, 'tasks': G.n_tasks, 'ids': G.ids, 'wbs': G.n_wbs}}


def run_ops(items):
    """a given history: ops (optionally [op, how]) and ['Facade', kind, owner] acquisitions"""
    W = World()
    steps = []
    for it in items:
        if it and it[0] == 'Facade':
            new_facade(W, it[1], it[2])
            continue
        op, how = (it[0], it[1]) if (len(it) == 2 and isinstance(it[1], dict)) else (it, {})
        ids = sorted(set(plain_id(t.id) for t in W.objs if t.id != taskmod.EMPTY_TASK_ID) | ({op[1]} if op[0] in ('NewTask', 'NewTaskRel') else set()))
        steps.append(do_call(W, op, how, ids + [max(ids + [0]) + 1]))
        if steps[-1]['hung']:
            break
    return {'steps': steps, 'anomalies': sorted(set(W.anomalies))}


def run_pair(case):
    """one call on a constructed state (replay of a single (pre-state, op) pair)"""
    W = World()
    W.build(case['pre'])
    pre = W.snapshot()
    how = {k: v for k, v in (case.get('how') or {}).items() if k != 'facade'}
    if how.get('v') == 'facade_add':
        how.pop('v')
    if 'src' in how:
        try:
            op = case['op']
            if W.nums(src_list(W, how['src'])) != op[TS_INDEX[op[0]]]:
                how.pop('src')
        except BaseException:  # noqa
            how.pop('src')
    ids = sorted(set(r[0] for r in case['pre']['heap'] if not r[6]))
    rec = do_call(W, case['op'], how, ids + [max(ids + [0]) + 1])
    rec['pre'] = pre
    rec['built_exactly'] = pre == case['pre']
    rec['anomalies'] = sorted(set(W.anomalies))
    return rec


def run(payload):
    sys.setrecursionlimit(1000)
    mode = payload['mode']
    if mode == 'gen':
        return [gen_history(s) for s in payload['seeds']]
    if mode == 'ops':
        return [run_ops(h) for h in payload['histories']]
    if mode == 'pair':
        return [run_pair(c) for c in payload['cases']]
    raise ValueError(mode)


if __name__ == '__main__':
    main(run)
