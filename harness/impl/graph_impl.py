"""Runs mutation histories of the task graph on the implementation (C01, C05, C11, C15, C16).

Payload: {'mode': 'gen', 'seeds': [...], 'tier': ...}  - histories are generated here, state-aware
         {'mode': 'ops', 'histories': [[op, ...], ...]} - given operation lists (corpus)
         {'mode': 'pair', 'cases': [{'pre': snapshot, 'op': op}]} - one call on a constructed state
After every call the runner records: the normalised call (objects by number), the outcome class,
a full snapshot by object identity (public getters + raw parent/owner) and the read-only API."""
import random
import sys

from harness.impl.util import exc_code, main

from pjplan import Task, WBS
from pjplan import task as taskmod

NAMES = ['a', 'b', 'c', 'ab', 'ba', 'B']


class World:
    def __init__(self):
        self.objs = []        # object number -> Task (hidden roots included)
        self.num = {}         # id(Task) -> object number
        self.wbss = []        # wid -> WBS
        self.facades = []     # (kind, owner object number, facade)
        self.anomalies = []

    def reg(self, t):
        k = self.num.get(id(t))
        if k is None:
            k = len(self.objs)
            self.objs.append(t)
            self.num[id(t)] = k
        return k

    def o(self, k):
        return None if k is None else self.objs[k]

    def olist(self, ks):
        return [self.o(k) for k in ks]

    def wid_of(self, w):
        for i, x in enumerate(self.wbss):
            if x is w:
                return i
        return None

    def users(self):
        return [k for k, t in enumerate(self.objs) if t.id != taskmod.EMPTY_TASK_ID]

    # ----- observation -----
    def snapshot(self):
        # discover objects that became reachable without being returned (half-built constructor)
        i = 0
        while i < len(self.objs):
            t = self.objs[i]
            rel = list(t.children) + list(t.predecessors) + list(t.successors)
            if t._Task__parent is not None:
                rel.append(t._Task__parent)
            for x in rel:
                self.reg(x)
            i += 1
        heap = []
        for k, t in enumerate(self.objs):
            raw = t._Task__parent
            hid = t.id == taskmod.EMPTY_TASK_ID
            pub = t.parent
            exp = None if raw is None or raw.id == taskmod.EMPTY_TASK_ID else raw
            if pub is not exp:
                self.anomalies.append('public parent of object %d is not the raw parent with the root masked' % k)
            ow = t._Task__wbs
            if t.wbs is not ow:
                self.anomalies.append('Task.wbs of object %d is not the stored owner' % k)
            prio = t.__dict__.get('prio')
            nm = t.name if isinstance(t.name, str) else ''
            heap.append([t.id if not hid else 2 ** 63 - 1, None if raw is None else self.num[id(raw)],
                         [self.num[id(c)] for c in t.children], [self.num[id(c)] for c in t.predecessors],
                         [self.num[id(c)] for c in t.successors], None if ow is None else self.wid_of(ow),
                         hid, prio, [ord(c) for c in nm], t.estimate])
        return {'heap': heap, 'wroots': [self.num[id(w._root())] for w in self.wbss]}

    def reads(self, ids):
        tasks = []
        look = []
        for wi, w in enumerate(self.wbss):
            tasks.append([self.num[id(t)] for t in w.tasks])
            if [self.num[id(t)] for t in w.roots] != [self.num[id(t)] for t in w._root().children]:
                self.anomalies.append('WBS.roots differs from the children of the root')
            for i in ids:
                try:
                    look.append([wi, i, 0, self.num[id(w[i])]])
                except BaseException as e:  # noqa
                    look.append([wi, i, exc_code(e), None])
        return {'tasks': tasks, 'look': look}

    # ----- construction of a given state (replay of a single call) -----
    def build(self, snap):
        heap = snap['heap']
        wr = snap['wroots']
        for k, rec in enumerate(heap):
            if rec[6]:
                w = WBS()
                self.wbss.append(None)
                t = w._root()
                t._wbs_obj = w
            else:
                t = Task(rec[0], name=''.join(chr(c) for c in rec[8]), estimate=rec[9])
                if rec[7] is not None:
                    t.prio = rec[7]
            self.reg(t)
        self.wbss = [self.objs[r]._wbs_obj for r in wr]
        for k, rec in enumerate(heap):
            t = self.objs[k]
            t._Task__parent = self.o(rec[1])
            t._Task__children[:] = self.olist(rec[2])
            t._Task__predecessors[:] = self.olist(rec[3])
            t._Task__successors[:] = self.olist(rec[4])
            t._Task__wbs = None if rec[5] is None else self.wbss[rec[5]]


def owner_task(W, ow):
    return W.wbss[ow[1]]._root() if ow[0] == 'w' else W.objs[ow[1]]


def owner_list(W, ow):
    """the children facade of a task / the roots facade of a WBS, obtained now"""
    return W.wbss[ow[1]].roots if ow[0] == 'w' else W.objs[ow[1]].children


def owner_num(W, ow):
    return W.num[id(owner_task(W, ow))]


def link_list(W, dirn, t):
    return W.objs[t].predecessors if dirn else W.objs[t].successors


def src_list(W, src):
    k = src[0]
    if k == 'children':
        return owner_list(W, src[1])
    if k == 'tasks':
        return W.wbss[src[1]].tasks
    if k == 'all_children':
        return W.objs[src[1]].all_children
    if k == 'filter':
        return owner_list(W, src[1])(id_in_=src[2])
    raise ValueError(k)
