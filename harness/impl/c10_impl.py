"""Runs WBS.clone() / WBS.subtree(selection) cases on the implementation (C10).

Payload: {'mode': 'gen', 'seeds': [...]}   - a state is built here through the public API (state-aware
                                              random history, valid and invalid calls), then one
                                              clone/subtree call, then mutations of copy and source
         {'mode': 'ops', 'cases': [case]}  - replay of recorded cases (corpus, replay files)

A case is {'hist': [op...], 'call': [...], 'after': [[side, op]...]}; objects are numbers in order
of creation (a WBS() call creates its hidden root object).  Every op is executed inside try/except;
its outcome class is recorded.  Reported per case: the snapshot by object identity before and after
the call (public getters + raw parent / owner), the outcome class of the call, the public
attributes of the WBS objects, and for the mutation phase whether the OTHER side changed."""
import random

from harness.impl.util import exc_code, main

from pjplan import Task, WBS
from pjplan import task as taskmod

HID = 2 ** 63 - 1


class World:
    def __init__(self):
        self.objs = []        # object number -> Task (hidden roots included)
        self.num = {}         # id(Task) -> object number
        self.wbss = []        # wid -> WBS
        self.tokens = {}      # canonical text -> token
        self.anomalies = []

    def reg(self, t):
        k = self.num.get(id(t))
        if k is None:
            k = len(self.objs)
            self.objs.append(t)
            self.num[id(t)] = k
        return k

    def add_wbs(self, w):
        self.wbss.append(w)
        self.reg(w._root())
        return len(self.wbss) - 1

    def o(self, k):
        return None if k is None else self.objs[k]

    def wid_of(self, w):
        for i, x in enumerate(self.wbss):
            if x is w:
                return i
        return None

    def token(self, text):
        k = self.tokens.get(text)
        if k is None:
            k = self.tokens[text] = len(self.tokens) + 1
        return k

    def discover(self):
        i = 0
        while i < len(self.objs):
            t = self.objs[i]
            rel = list(t.children) + list(t.predecessors) + list(t.successors)
            if t._Task__parent is not None:
                rel.append(t._Task__parent)
            for x in rel:
                self.reg(x)
            i += 1

    def record(self, t):
        raw = t._Task__parent
        hid = t.id == taskmod.EMPTY_TASK_ID
        pub = t.parent
        exp = None if raw is None or raw.id == taskmod.EMPTY_TASK_ID else raw
        if pub is not exp:
            self.anomalies.append('public parent is not the raw parent with the root masked')
        ow = t._Task__wbs
        if t.wbs is not ow:
            self.anomalies.append('Task.wbs is not the stored owner')
        owid = None
        if ow is not None:
            owid = self.wid_of(ow)
            if owid is None:
                owid = self.add_wbs(ow)      # a WBS nobody returned (must not happen)
                self.anomalies.append('a task is owned by an unknown WBS')
        if hid:
            prio, est, name = None, None, []
        else:
            d = {k: v for k, v in t.__dict__.items() if not k.startswith('_')}
            d['spent'] = t.spent
            # prio is a model field only when it is an int; any other value - None included - stays in the
            # attribute dictionary, so that "present with value None" differs from "absent"
            prio = None
            if 'prio' in d and isinstance(d['prio'], int) and not isinstance(d['prio'], bool):
                prio = d.pop('prio')
            est = t.estimate
            if est is not None and (isinstance(est, bool) or not isinstance(est, int)):
                d['estimate'] = est
                est = None
            name = [self.token(repr(sorted((k, type(v).__name__, repr(v)) for k, v in d.items())))]
        return [t.id if not hid else HID, None if raw is None else self.reg(raw),
                [self.reg(c) for c in t.children], [self.reg(c) for c in t.predecessors],
                [self.reg(c) for c in t.successors], owid, hid, prio, name, est]

    def snapshot(self):
        self.discover()
        heap = []
        k = 0
        while k < len(self.objs):          # record() may register more objects
            heap.append(self.record(self.objs[k]))
            k += 1
        return {'heap': heap, 'wroots': [self.num[id(w._root())] for w in self.wbss]}

    def wattrs(self, w):
        return [self.token(repr((k, type(v).__name__, repr(v)))) for k, v in sorted(w.__dict__.items())
                if not k.startswith('_')]

    def members(self, wi):
        w = self.wbss[wi]
        return [self.num[id(w._root())]] + [self.reg(t) for t in w.tasks]


# ---------- operations ---------------------------------------------------------------------------
def do_op(W, op):
    """Executes one op; returns the outcome class.  Objects by number; None stays None."""
    k = op[0]
    try:
        if k == 'task':            # ['task', id, {attrs}]
            kw = dict(op[2])
            t = Task(op[1], **kw)
            W.reg(t)
        elif k == 'wbs':           # ['wbs', {root kwargs}]
            W.add_wbs(WBS(**dict(op[1])) if op[1] else WBS())
        elif k == 'parent':        # ['parent', t, p]
            W.o(op[1]).parent = W.o(op[2])
        elif k == 'children':      # ['children', p, [ts]]
            W.o(op[1]).children = [W.o(x) for x in op[2]]
        elif k == 'append':        # ['append', p, t]
            W.o(op[1]).children.append(W.o(op[2]))
        elif k == 'floordiv':      # ['floordiv', p, [ts]]
            W.o(op[1]) // [W.o(x) for x in op[2]]
        elif k == 'roots':         # ['roots', w, [ts]]
            W.wbss[op[1]].roots = [W.o(x) for x in op[2]]
        elif k == 'rootadd':       # ['rootadd', w, t]
            W.wbss[op[1]].roots.append(W.o(op[2]))
        elif k == 'preds':         # ['preds', t, [ts]]
            W.o(op[1]).predecessors = [W.o(x) for x in op[2]]
        elif k == 'succs':
            W.o(op[1]).successors = [W.o(x) for x in op[2]]
        elif k == 'predadd':
            W.o(op[1]).predecessors.append(W.o(op[2]))
        elif k == 'succadd':
            W.o(op[1]).successors.append(W.o(op[2]))
        elif k == 'lshift':
            W.o(op[1]) << W.o(op[2])
        elif k == 'rshift':
            W.o(op[1]) >> W.o(op[2])
        elif k == 'predrm':
            W.o(op[1]).predecessors.remove(W.o(op[2]))
        elif k == 'remove':        # ['remove', w, t]
            W.wbss[op[1]].remove(W.o(op[2]))
        elif k == 'chremove':      # ['chremove', p, t]
            W.o(op[1]).children.remove(W.o(op[2]))
        elif k == 'attr':          # ['attr', t, name, value]
            setattr(W.o(op[1]), op[2], op[3])
        elif k == 'delattr':
            delattr(W.o(op[1]), op[2])
        elif k == 'wattr':         # ['wattr', w, name, value]
            setattr(W.wbss[op[1]], op[2], op[3])
        elif k == 'sort':          # ['sort', p, key, reverse]
            W.o(op[1]).children.sort(op[2], reverse=op[3])
        elif k == 'move':          # ['move', p, t, before]
            W.o(op[1]).children.move(W.o(op[2]), before=W.o(op[3]))
        else:
            raise ValueError('unknown op %r' % (op,))
        return 0
    except BaseException as e:  # noqa
        if isinstance(e, ValueError) and 'unknown op' in str(e):
            raise
        return exc_code(e)


def do_call(W, call):
    """['clone', w] or ['subtree', w, form, sel]; returns (code, exception text, new WBS or None)."""
    w = W.wbss[call[1]]
    try:
        if call[0] == 'clone':
            c = w.clone()
        else:
            form, sel = call[2], call[3]
            ts = [W.o(x) for x in sel]
            if form == 'single':
                arg = ts[0]
            elif form == 'tuple':
                arg = tuple(ts)
            elif form == 'gen':
                arg = (t for t in ts)
            elif form == 'none':
                arg = None
            elif form == 'tasklist':
                arg = taskmod._ImmutableTaskList(ts)
            else:
                arg = ts
            c = w.subtree(arg)
        return 0, None, c
    except BaseException as e:  # noqa
        return exc_code(e), type(e).__name__ + ': ' + str(e)[:160], None


# ---------- generation (state-aware) -------------------------------------------------------------
NAMES = ['a', 'b', 'design', 'build', 'Test', '']
ATTRS = ['prio', 'tag', 'resource', 'name', 'estimate', 'spent', 'milestone', 'flag', '_tmp', 'owner', 'blocked_by']


def gen_attrs(rng):
    kw = {}
    if rng.random() < 0.7:
        kw['name'] = rng.choice(NAMES)
    if rng.random() < 0.4:
        kw['estimate'] = rng.choice([0, 1, 2, 4, 8, 16])
    if rng.random() < 0.3:
        kw['prio'] = rng.randint(0, 5)
    if rng.random() < 0.25:
        kw['tag'] = rng.choice(['x', 'y', 'urgent'])
    if rng.random() < 0.15:
        kw['resource'] = rng.choice(['R1', 'R2'])
    if rng.random() < 0.1:
        kw['spent'] = rng.choice([0, 1, 2.5])
    if rng.random() < 0.08:
        kw['milestone'] = True
    if rng.random() < 0.12:
        # a custom attribute that is present with the value None
        kw[rng.choice(['owner', 'blocked_by', 'tag', 'prio'])] = None
    return kw


def gen_attr_value(rng, name):
    if name == 'prio':
        return rng.choice([0, 1, 2, 3, 7, 'high', None])
    if name in ('estimate', 'spent'):
        return rng.choice([0, 1, 2, 3, 8, -1, None, 2.5])
    if name in ('milestone', 'flag'):
        return rng.random() < 0.5
    if name == '_tmp':
        return rng.randint(0, 9)
    if name in ('tag', 'owner', 'blocked_by', 'fresh') and rng.random() < 0.35:
        return None
    return rng.choice(NAMES + ['x', 'R1'])


class Gen:
    def __init__(self, rng):
        self.rng = rng
        self.W = World()
        self.hist = []
        self.raised = 0

    def op(self, op):
        code = do_op(self.W, op)
        self.hist.append(op)
        if code != 0:
            self.raised += 1
        return code

    def users(self):
        return [k for k, t in enumerate(self.W.objs) if t.id != taskmod.EMPTY_TASK_ID]

    def of_wbs(self, wi):
        w = self.W.wbss[wi]
        return [self.W.num[id(t)] for t in w.tasks]

    def root_of(self, wi):
        return self.W.num[id(self.W.wbss[wi]._root())]

    def build(self):
        rng = self.rng
        W = self.W
        # --- the source WBS and its forest ---
        self.op(['wbs', {'name': 'P'} if rng.random() < 0.1 else {}])
        n = rng.choice([0, 1, 2, 3, 4, 4, 5, 5, 6, 6, 7, 8, 10])
        ids = list(range(1, 13))
        rng.shuffle(ids)
        mine = []
        for _ in range(n):
            self.op(['task', ids.pop(), gen_attrs(rng)])
            t = len(W.objs) - 1
            r = rng.random()
            if mine and r < 0.62:
                p = rng.choice(mine)
                self.op(rng.choice([['parent', t, p], ['append', p, t], ['floordiv', p, [t]]]))
            else:
                self.op(rng.choice([['rootadd', 0, t], ['floordiv', self.root_of(0), [t]]]))
            mine.append(t)
        # --- other WBSs and free tasks; some of them carry ids of members ---
        src_ids = [W.objs[k].id for k in mine]
        outside = []
        if rng.random() < 0.6:
            self.op(['wbs', {}])
            wi = len(W.wbss) - 1
            used = set()
            for _ in range(rng.choice([1, 2, 3])):
                i = rng.choice(src_ids) if src_ids and rng.random() < 0.5 else rng.randint(1, 14)
                if i in used:
                    continue
                used.add(i)
                self.op(['task', i, gen_attrs(rng)])
                t = len(W.objs) - 1
                inside = [k for k in outside if W.objs[k].wbs is W.wbss[wi]]
                if inside and rng.random() < 0.4:
                    self.op(['parent', t, rng.choice(inside)])
                else:
                    self.op(['rootadd', wi, t])
                outside.append(t)
        for _ in range(rng.choice([0, 1, 1, 2, 3])):
            i = rng.choice(src_ids) if src_ids and rng.random() < 0.5 else rng.randint(1, 14)
            self.op(['task', i, gen_attrs(rng)])
            t = len(W.objs) - 1
            free = [k for k in outside if W.objs[k].wbs is None and W.objs[k].id != i]
            if free and rng.random() < 0.3:
                self.op(['parent', t, rng.choice(free)])
            outside.append(t)
        # --- links: inside the source, and both ways between source and outside ---
        pool = self.users()
        for _ in range(rng.choice([0, 1, 2, 3, 4, 6, 8])):
            if len(pool) < 2:
                break
            r = rng.random()
            if mine and outside and r < 0.5:
                a, b = rng.choice(mine), rng.choice(outside)
                if rng.random() < 0.5:
                    a, b = b, a
            elif len(mine) >= 2 and r < 0.92:
                a, b = rng.sample(mine, 2)
            else:
                a, b = rng.choice(pool), rng.choice(pool)       # anything, often illegal
            self.op([rng.choice(['predadd', 'succadd', 'lshift', 'rshift']), a, b])
        # --- further mutations, valid and invalid ---
        for _ in range(rng.choice([0, 0, 1, 2, 3, 5])):
            self.random_mutation(pool, [0] + list(range(1, len(W.wbss))))
        # --- attributes of the WBS objects ---
        if rng.random() < 0.5:
            for _ in range(rng.choice([1, 2, 3])):
                self.op(['wattr', rng.randrange(len(W.wbss)), rng.choice(['title', 'owner', 'version', '_cache', 'x']),
                         rng.choice(['Plan', 7, None, 2.5, True])])

    def random_mutation(self, pool, wids):
        rng = self.rng
        W = self.W
        if not pool:
            return self.op(['task', rng.randint(1, 14), gen_attrs(rng)])
        r = rng.random()
        t = rng.choice(pool)
        if r < 0.2:
            return self.op(['parent', t, rng.choice(pool + [None])])
        if r < 0.3:
            return self.op(['remove', rng.choice(wids), t])
        if r < 0.4:
            return self.op(['rootadd', rng.choice(wids), t])
        if r < 0.5:
            ks = [k for k in pool if rng.random() < 0.3]
            return self.op([rng.choice(['children', 'floordiv']), t, ks])
        if r < 0.62:
            ks = [k for k in pool if rng.random() < 0.25]
            return self.op([rng.choice(['preds', 'succs']), t, ks])
        if r < 0.72:
            return self.op([rng.choice(['predadd', 'succadd', 'predrm']), t, rng.choice(pool)])
        if r < 0.9:
            name = rng.choice(ATTRS)
            return self.op(['attr', t, name, gen_attr_value(rng, name)])
        if r < 0.95:
            return self.op(['sort', t, 'id', rng.random() < 0.5])
        kids = [W.num[id(c)] for c in W.objs[t].children]
        if len(kids) >= 2:
            a, b = rng.sample(kids, 2)
            return self.op(['move', t, a, b])
        return self.op(['delattr', t, rng.choice(['tag', 'flag', 'prio', 'owner', 'blocked_by'])])      # custom attributes only

    def gen_call(self):
        rng = self.rng
        mine = self.of_wbs(0)
        if rng.random() < 0.4:
            return ['clone', 0]
        r = rng.random()
        if not mine or r < 0.06:
            return ['subtree', 0, rng.choice(['list', 'none', 'tuple']), []]
        if r < 0.2:
            return ['subtree', 0, 'single', [rng.choice(mine)]]
        k = rng.choice([1, 1, 2, 2, 3, 4])
        sel = [rng.choice(mine) for _ in range(k)]
        if rng.random() < 0.35:
            # add a descendant / an ancestor of a selected task (nested roots), or a repetition
            t = self.W.objs[rng.choice(sel)]
            rel = [self.W.num[id(x)] for x in list(t.all_children) + list(t.all_parents)] + sel
            sel.insert(rng.randrange(len(sel) + 1), rng.choice(rel))
        if rng.random() < 0.1:
            sel.insert(rng.randrange(len(sel) + 1), None)
        return ['subtree', 0, rng.choice(['list', 'list', 'list', 'tuple', 'gen', 'tasklist']), sel]


def gen_after(rng, W, new_wi, n_before):
    """Mutations of the copy, then of the source: ops that name only objects of that side, fresh tasks
    and outside tasks."""
    out = []
    for side, wi, other in (('copy', new_wi, 0), ('source', 0, new_wi)):
        ops = []
        mem = W.members(wi)[1:]
        foreign = set(W.members(other))
        outside = [k for k, t in enumerate(W.objs) if t.id != taskmod.EMPTY_TASK_ID and k not in foreign
                   and k not in mem]
        for _ in range(rng.choice([1, 2, 3, 4])):
            r = rng.random()
            if not mem or r < 0.15:
                ops.append(['newroot', wi, rng.randint(20, 40), gen_attrs(rng)])
                continue
            t = rng.choice(mem)
            if r < 0.35:
                name = rng.choice(ATTRS + ['fresh'])
                ops.append(['attr', t, name, gen_attr_value(rng, name)])
            elif r < 0.45:
                ops.append(['wattr', wi, rng.choice(['title', 'owner', 'later']), rng.choice(['Q', 1, None])])
            elif r < 0.6:
                ops.append(['parent', t, rng.choice(mem + [None])])
            elif r < 0.7:
                ops.append(['remove', wi, t])
            elif r < 0.85:
                ops.append([rng.choice(['preds', 'succs']), t,
                            [k for k in mem + outside if rng.random() < 0.25]])
            elif r < 0.93:
                ops.append([rng.choice(['predadd', 'succadd']), t, rng.choice(mem + outside)])
            else:
                ops.append(['sort', W.members(wi)[0] if rng.random() < 0.5 else t, 'id', rng.random() < 0.5])
        out.append([side, ops])
    return out


def side_view(W, wi):
    """What must not change on a side: its WBS attributes, WBS.tasks, and the records of its objects."""
    w = W.wbss[wi]
    objs = [w._root()] + list(w.tasks)
    return {'wattrs': W.wattrs(w), 'tasks': [W.reg(t) for t in objs], 'recs': [W.record(t) for t in objs]}


def run_after(W, plan, new_wi):
    res = []
    for side, ops in plan:
        other = 0 if side == 'copy' else new_wi
        before = side_view(W, other)
        codes = []
        for op in ops:
            if op[0] == 'newroot':
                try:
                    t = Task(op[2], **dict(op[3]))
                    W.reg(t)
                    W.wbss[op[1]].roots.append(t)
                    codes.append(0)
                except BaseException as e:  # noqa
                    codes.append(exc_code(e))
            else:
                codes.append(do_op(W, op))
        after = side_view(W, other)
        res.append({'side': side, 'codes': codes, 'other_unchanged': before == after,
                    'before': before if before != after else None, 'after': after if before != after else None})
    return res


def run_case(case, rng=None):
    """case: {'hist', 'call', 'after'} - or None: generate with rng."""
    if case is None:
        g = Gen(rng)
        g.build()
        W = g.W
        hist = g.hist
        raised = g.raised
        call = g.gen_call()
        after = None
    else:
        W = World()
        hist = case['hist']
        raised = 0
        for op in hist:
            if do_op(W, op) != 0:
                raised += 1
        call = case['call']
        after = case.get('after')
    pre = W.snapshot()
    wa_pre = [W.wattrs(w) for w in W.wbss]
    n_before = len(W.objs)
    code, exc, c = do_call(W, call)
    out = {'case': {'hist': hist, 'call': call}, 'pre': pre, 'code': code, 'exc': exc, 'wa_pre': wa_pre[call[1]]}
    new_wi = None
    if c is not None:
        new_wi = W.add_wbs(c)
        for t in c.tasks:
            W.reg(t)
    out['post'] = W.snapshot()
    out['wa_src'] = W.wattrs(W.wbss[call[1]])
    out['wa_new'] = W.wattrs(c) if c is not None else []
    out['n_before'] = n_before
    builtin = ('name', 'resource', 'start', 'end', 'milestone', 'min_start')
    out['none_valued_custom'] = sum(1 for t in W.wbss[call[1]].tasks for k, v in t.__dict__.items()
                                    if not k.startswith('_') and k not in builtin and v is None)
    out['none_valued_wattr'] = sum(1 for k, v in W.wbss[call[1]].__dict__.items() if not k.startswith('_') and v is None)
    out['hist_raised'] = raised
    if c is not None:
        out['new_is_wbs'] = type(c) is WBS
        out['roots_eq_children'] = [id(t) for t in c.roots] == [id(t) for t in c._root().children]
        if after is None and rng is not None:
            after = gen_after(rng, W, new_wi, n_before)
        if after:
            out['case']['after'] = after
            out['indep'] = run_after(W, after, new_wi)
    out['anomalies'] = W.anomalies
    return out


def run(payload):
    if payload['mode'] == 'gen':
        res = []
        for seed in payload['seeds']:
            res.append(run_case(None, random.Random(seed)))
        return res
    return [run_case(c) for c in payload['cases']]


if __name__ == '__main__':
    main(run)
