"""Runs scheduler cases on the implementation.  For every case: fixes the clock (the module-level
name `datetime` of pjplan.schedule is replaced by a subclass whose now() returns the case's clock -
no source hook), builds resources / outside tasks / the WBS through the public API, records the
abstract input the scheduler sees (orders taken from a clone()), runs calc (twice on one scheduler
object, once on a fresh one, once with another clock) and records the observation."""
import json
import math
import signal
import time
from fractions import Fraction
from datetime import datetime, timedelta

from harness.impl.util import from_us, to_us, exc_code, main
from harness.impl.c17_impl import build as build_calendar

import pjplan
import pjplan.schedule as S
from pjplan import Task, WBS, Resource, ForwardScheduler, BackwardScheduler

REAL_DATETIME = datetime
DAY_US = 86400_000_000
ALLOWED_CAPS = {0, 4, 8, 16, 32, 64, 128, 256, 8192}      # eighths: 0, .5, 1, 2, 4, 8, 16, 32 units (32: day shares of half seconds), 1024 units (shares of ~10.5 s: DAY = 2^13 * 3^3 * 5^8 us)


def set_clock(now_us):
    now_val = from_us(now_us)

    class FixedClock(REAL_DATETIME):
        @classmethod
        def now(cls, tz=None):
            return now_val

    S.datetime = FixedClock


def num(e, as_float):
    """eighths -> python number"""
    if e is None:
        return None
    if e % 8 == 0 and not as_float:
        return e // 8
    return e / 8.0


def eighths(x):
    """amount as an exact rational (scaled to integers by finalize)"""
    if x is None:
        return None
    return Fraction(x)


def finalize(out, offgrid):
    """Scale every amount/capacity of the output by one power of two K so that all become integers.
    On the dyadic grid K = 8 (eighths) and anything that does not fit is reported as off-grid."""
    fr = []

    def walk(x):
        if isinstance(x, Fraction):
            fr.append(x)
        elif isinstance(x, dict):
            for v in x.values():
                walk(v)
        elif isinstance(x, (list, tuple)):
            for v in x:
                walk(v)
    # the INPUT (abstract WBS, tabulated capacities) decides whether the case is on the dyadic grid; on the grid every
    # float operation of the schedulers is exact, so an OUTPUT that is not a multiple of 1/8 is a deviation of the
    # implementation (e.g. a rounding of the work still to place): the case is kept, scaled by a larger K
    walk({'w': out.get('w'), 'rs': out.get('rs')})
    if not offgrid and any((f * 8).denominator != 1 for f in fr):
        raise OffGrid('amount not a multiple of 1/8')
    del fr[:]
    walk(out)
    K = 8
    for f in fr:
        if f.denominator > K:
            K = f.denominator * (K // math.gcd(K, f.denominator))
    if not offgrid and K != 8:
        out['output_left_grid'] = True
    if K > 2 ** 120:
        raise OffGrid('amounts need a scale above 2^120')

    def conv(x):
        if isinstance(x, Fraction):
            v = x * K
            assert v.denominator == 1
            return int(v)
        if isinstance(x, dict):
            return {k: conv(v) for k, v in x.items()}
        if isinstance(x, (list, tuple)):
            return [conv(v) for v in x]
        return x
    res = conv(out)
    res['K'] = K
    return res


class OffGrid(Exception):
    pass


class Timeout(Exception):
    pass


BUDGET = {'timeouts': 0}     # after two calculations that did not end in 30 s the others of this process get 3 s


def _alarm(signum, frame):
    raise Timeout()


def snapshot(wbs, extra_tasks):
    """Everything observable about the input: used for the purity comparison."""
    def one(t):
        d = dict(t.to_dict())
        return {
            'obj': id(t), 'dict': {k: repr(v) for k, v in d.items()}, 'estimate': repr(t.estimate), 'spent': repr(t.spent),
            'parent': id(t.parent) if t.parent is not None else None,
            'children': [id(c) for c in t.children], 'preds': [id(c) for c in t.predecessors],
            'wbs': id(t.wbs) if t.wbs is not None else None,
        }
    snap = {'tasks': [one(t) for t in wbs.tasks], 'roots': [id(t) for t in wbs.roots],
            'attrs': {k: repr(v) for k, v in wbs.__dict__.items() if not k.startswith('_')}}
    # successors of member tasks (restricted to members: outside tasks are shared with clones by design)
    members = set(id(t) for t in wbs.tasks)
    for t, s in zip(wbs.tasks, snap['tasks']):
        s['succs'] = [id(c) for c in t.successors if id(c) in members]
    snap['extra'] = [{'obj': id(t), 'dict': {k: repr(v) for k, v in t.to_dict().items()},
                      'estimate': repr(t.estimate), 'spent': repr(t.spent)} for t in extra_tasks]
    return snap


def tabulate(res, lo_day, n_days, offgrid=False, notes=None, tod_ok=False):
    """capacity of the resource for days lo..lo+n-1 plus weekly patterns before/after.  The capacity of a
    day is what the resource's CALENDAR answers (None = 0); the resource itself must report the same."""
    def cap(day, tod=0):
        d = from_us(day * DAY_US + tod)
        v = res.get_available_units(d, None)
        cal = getattr(res, 'calendar', None)
        if isinstance(res, Resource) and cal is not None:
            c = cal.get_available_units(d)
            c = 0 if c is None else c
            if c != v or v is None:
                if notes is not None:
                    notes.append('resource %r reports %r for %s, its calendar %r' % (res.name, v, d, c))
                v = c
        e = Fraction(v)
        if not offgrid and (e * 8).denominator != 1 or (not offgrid and int(e * 8) not in ALLOWED_CAPS):
            raise OffGrid('capacity %r outside the dyadic grid' % v)
        return e
    tab = [cap(d) for d in range(lo_day, lo_day + n_days)]
    for d in range(lo_day, lo_day + n_days, 3):
        # (tod_ok: the stream of calendars whose validity bounds carry a time of day - the capacity of a day is then,
        # by the reading of DESIGN.md section 1, the calendar's answer for the day's midnight)
        if not tod_ok and cap(d, 13 * 3600_000_000 + 7) != tab[d - lo_day]:
            raise OffGrid('capacity depends on the time of day')
    pre = [None] * 7
    post = [None] * 7
    for d in range(lo_day - 7, lo_day):
        pre[(d + 3) % 7] = cap(d)
    for d in range(lo_day + n_days, lo_day + n_days + 7):
        post[(d + 3) % 7] = cap(d)
    for d in list(range(lo_day - 40, lo_day - 7)) + [lo_day - 1000, lo_day - 5003, lo_day - 90001]:
        if cap(d) != pre[(d + 3) % 7]:
            raise OffGrid('calendar not periodic before the window')
    for d in list(range(lo_day + n_days + 7, lo_day + n_days + 40)) + [lo_day + 2000, lo_day + 7001, lo_day + 99000]:
        if cap(d) != post[(d + 3) % 7]:
            raise OffGrid('calendar not periodic after the window')
    return {'lo': lo_day, 'tab': tab, 'pre': pre, 'post': post}


def observe_schedule(sch, res_index):
    tasks = list(sch.schedule.tasks)
    tix = {id(t): i for i, t in enumerate(tasks)}
    out = {'ids': [t.id for t in tasks], 'tasks': [], 'rows': []}
    for t in tasks:
        out['tasks'].append([to_us(t.start), to_us(t.end), eighths(t.estimate), eighths(t.spent)])
    report = sch.resource_usage
    rows = report.rows()
    seen = []
    for r in rows:
        if r.date != REAL_DATETIME(r.date.year, r.date.month, r.date.day):
            out['row_not_a_day'] = str(r.date)      # the row is attributed to its day (floor)
        if id(r.task) not in tix or r.resource.name not in res_index:
            out['rows'].append([9999, to_us(r.date) // DAY_US, 9999, eighths(r.units)])
            out['row_unknown_task_or_resource'] = True
            continue
        out['rows'].append([res_index[r.resource.name], to_us(r.date) // DAY_US, tix[id(r.task)], eighths(r.units)])
        key = (r.resource.name, r.date)
        if key not in [(a.name, b) for a, b in seen]:
            seen.append((r.resource, r.date))
    out['reserved'] = [[res_index[ro.name], to_us(d) // DAY_US, eighths(report.reserved(ro, d))] for ro, d in seen]
    # filtered views agree with the rows
    ok = True
    for i, t in enumerate(tasks[:4]):
        sub = report.rows(lambda r, t=t: r.task is t)
        if [(x.resource.name, x.date, x.units) for x in sub] != [(x.resource.name, x.date, x.units) for x in rows if x.task is t]:
            ok = False
    if len(report.rows(lambda r: False)) != 0 or len(report.rows(None)) != len(rows):
        ok = False
    out['filter_ok'] = ok
    out['resources'] = sorted(set(res_index[r.name] for r in sch.resources if r.name in res_index))
    out['wstart'] = to_us(sch.schedule.start)
    out['wend'] = to_us(sch.schedule.end)
    return out


def shape_problems(wbs, result):
    """result has the same ids, hierarchy, sibling order, links and custom attributes; separate objects."""
    probs = []
    a = list(wbs.tasks)
    b = list(result.tasks)
    if [t.id for t in a] != [t.id for t in b]:
        return ['ids/order differ']
    if result is wbs or any(x is y for x, y in zip(a, b)):
        probs.append('result shares objects with the input')
    for x, y in zip(a, b):
        if (x.parent.id if x.parent else None) != (y.parent.id if y.parent else None):
            probs.append('parent of %r' % x.id)
        if [c.id for c in x.children] != [c.id for c in y.children]:
            probs.append('children of %r' % x.id)
        if sorted(map(repr, [c.id for c in x.predecessors])) != sorted(map(repr, [c.id for c in y.predecessors])):
            probs.append('predecessors of %r' % x.id)
        if sorted(map(repr, [c.id for c in x.successors])) != sorted(map(repr, [c.id for c in y.successors])):
            probs.append('successors of %r' % x.id)
        dx = {k: v for k, v in x.to_dict().items() if k not in ('start', 'end', 'estimate', 'spent')}
        dy = {k: v for k, v in y.to_dict().items() if k not in ('start', 'end', 'estimate', 'spent')}
        if dx != dy:
            probs.append('attributes of %r' % x.id)
        if y.wbs is not result:
            probs.append('owner of %r' % x.id)
    if [t.id for t in wbs.roots] != [t.id for t in result.roots]:
        probs.append('roots')
    return probs


def raw(spec, key):
    """an amount of a task spec: 'est_raw'/'spent_raw' = float given as hex (off-grid stream), else eighths"""
    if spec.get(key + '_raw') is not None:
        return float.fromhex(spec[key + '_raw'])
    return num(spec.get(key), spec.get('est_float', False))


def run_case(case):
    out = {}
    t_begin = time.time()
    offgrid = bool(case.get('offgrid'))
    try:
        set_clock(case['now'])
        fwd = case['dir'] == 'fwd'
        supplied = {}
        # Half of the calendar-edit cases edit the calendar IN PLACE (a DirectCalendar operand inside the resource's
        # calendar expression gets set_units between the two calculations) instead of handing the resource another
        # calendar object: whoever remembers a calendar's answers has nothing that tells him to forget them.
        import zlib as _zlib
        import random as _random
        from pjplan import DirectCalendar as _Direct
        edit_names = [n for n, _ in (case.get('edit_calendars') or [])]
        # (decided from the resources and the bound only: the paired runs of C08's independence clause differ in their tasks
        # and must see the same calendars)
        in_place = bool(edit_names) and _zlib.crc32(json.dumps([case['resources'], case['pbound']], sort_keys=True).encode()) % 2 == 0
        holidays = {}
        for r in case['resources']:
            cal = build_calendar(r['cal'])
            if in_place and r['name'] in edit_names:
                # two shapes, both equal to the calendar itself as long as nothing is dated: `dated | cal` (a dated day
                # overrides the calendar: capacity appears or changes) and `cal - dated` (32 units taken off: a day off)
                mode = 'sub' if _zlib.crc32(('%r/%s' % (r['name'], case['pbound'])).encode()) % 3 else 'or'
                holidays[r['name']] = (_Direct({}), mode)
                cal = (holidays[r['name']][0] | cal) if mode == 'or' else (cal - holidays[r['name']][0])
            supplied[r['name']] = Resource(r['name'], cal)
        # tasks outside the scheduled WBS
        other = WBS()
        ext = []
        for x in case['ext']:
            t = Task(x['id'], 'x%d' % x['id'], start=from_us(x['start']), end=from_us(x['end']),
                     estimate=num(x.get('est'), False), resource=x.get('resource'))
            if x.get('in_wbs', True):
                other // t
            ext.append(t)
        wbs = WBS()
        objs = []
        for spec in case['tasks']:
            kw = {}
            if spec.get('min_start') is not None:
                kw['min_start'] = from_us(spec['min_start'])
            for k, v in (spec.get('custom') or {}).items():
                # the value of a custom attribute may be anything, None and other falsy values included (the generator writes
                # strings; which of them become None / 0 / False is decided here, from the string itself)
                import zlib as _z
                sel = _z.crc32(repr(v).encode()) % 4
                kw[k] = None if sel == 0 else 0 if sel == 1 else v
                if sel == 2:
                    kw[k + '_flag'] = False
            tid = spec['id']
            if case.get('mixed_ids') and case.get('outcome_only') and len(objs) % 2:
                tid = 'REQ-%d' % spec['id']          # ids are Union[int, str]: every second task carries a string id
            t = Task(tid, spec.get('name', 't%d' % spec['id']), resource=spec.get('resource'),
                     start=from_us(spec.get('start')), end=from_us(spec.get('end')),
                     milestone=spec.get('milestone', False),
                     estimate=raw(spec, 'est'), spent=raw(spec, 'spent'), **kw)
            if spec.get('parent') is None:
                wbs // t
            else:
                objs[spec['parent']] // t
            objs.append(t)

        def ref(x):
            return objs[x[1]] if x[0] == 't' else ext[x[1]]
        rejected = 0
        for a, b in case['links']:
            try:
                if case.get('link_via_succ') and (len(objs) + a[1]) % 2:
                    ref(a).successors.append(ref(b))
                else:
                    ref(b).predecessors.append(ref(a))
            except RuntimeError:
                rejected += 1
        out['links_rejected'] = rejected

        if case.get('outcome_only'):
            # robustness stream (C14): inputs outside the domain of the model (e.g. calendars whose validity bounds
            # carry a time of day); only the outcome class of calc is observed
            if 'task_aware' in case:
                # a user-defined resource whose capacity depends on the TASK it is asked for (IResource passes the task):
                # no capacity for the listed (task id, day) pairs, the calendar's answer otherwise
                blocked = set((tid, d) for tid, d in case['task_aware'])
                # ... and "overtime": days without calendar capacity that are open for ONE task (asked without a task, or for
                # another one, the resource answers what its calendar says: nothing)
                opened = set((tid, d) for tid, d in case.get('task_aware_open', []))

                class TaskAware(Resource):
                    def get_available_units(self, date, task=None):
                        u = Resource.get_available_units(self, date, task)
                        if task is not None and (task.id, to_us(date) // DAY_US) in blocked:
                            return 0
                        if task is not None and not u and (task.id, to_us(date) // DAY_US) in opened:
                            return 8
                        return u
                for nm in list(supplied):
                    supplied[nm] = TaskAware(nm, supplied[nm].calendar)
            if case.get('unhashable_resources'):
                # a user-defined resource class that defines __eq__ and therefore is not hashable (a plain dataclass
                # does): legal for the schedulers, which compare resources and key them by name
                class Crew(Resource):
                    __hash__ = None

                    def __eq__(self, other):
                        return self is other
                for nm in list(supplied):
                    supplied[nm] = Crew(nm, supplied[nm].calendar)
            kw = {'resources': list(supplied.values()), 'balance_resources': case['balance']}
            if case.get('default_estimate') is not None:
                kw['default_estimate'] = num(case['default_estimate'], False)
            sched0 = ForwardScheduler(start=from_us(case['pbound']), **kw) if fwd else BackwardScheduler(end=from_us(case['pbound']), **kw)
            signal.signal(signal.SIGALRM, _alarm)
            signal.alarm(3 if BUDGET['timeouts'] >= 2 else 30)
            try:
                sch0 = sched0.calc(wbs)
                res = {'outcome_only': True, 'outcome': 0}
                # the literal clauses that need no model: every task has both dates (C06); per task the reserved amounts
                # (C04: they sum to the remaining work of a working leaf, nothing for milestones and summaries)
                rt = list(sch0.schedule.tasks)
                res['all_dated'] = all(t.start is not None and t.end is not None for t in rt)
                booked = {}
                days = {}
                for r in sch0.resource_usage.rows():
                    booked[id(r.task)] = booked.get(id(r.task), Fraction(0)) + Fraction(r.units)
                    days.setdefault(id(r.task), []).append(to_us(r.date))
                src = {t.id: t for t in wbs.tasks}
                work = []
                for t in rt:
                    o = src.get(t.id)
                    work.append({'id': t.id, 'leaf': len(t.children) == 0, 'milestone': bool(t.milestone),
                                 'user_start': o is not None and o.start is not None, 'user_end': o is not None and o.end is not None,
                                 'est': None if o is None or o.estimate is None else str(Fraction(o.estimate)),
                                 'spent': None if o is None or o.spent is None else str(Fraction(o.spent)),
                                 'reserved': str(booked.get(id(t), Fraction(0))),
                                 'row_dates': days.get(id(t), []), 'start': to_us(t.start), 'end': to_us(t.end)})
                res['work'] = work
            except Timeout:
                BUDGET['timeouts'] += 1
                res = {'outcome_only': True, 'outcome': 20}
            except BaseException as ex:  # noqa
                res = {'outcome_only': True, 'outcome': exc_code(ex), 'exc': '%s: %s' % (type(ex).__name__, str(ex)[:200])}
            finally:
                signal.alarm(0)
            res['links_rejected'] = rejected
            return res

        # ---- abstract input, orders as the scheduler's clone has them
        members = list(wbs.tasks)
        clone = wbs.clone()
        cm = list(clone.tasks)
        if [t.id for t in members] != [t.id for t in cm]:
            # The scheduler model needs the clone in the order of the input (that clone() keeps it is C10's business), so
            # the case cannot be compared with the model.  One clause needs no model: the schedule that calc returns has
            # the ids, hierarchy and sibling order of the input (C06) - calc is run for that alone.
            probs = None
            try:
                kw0 = {'resources': list(supplied.values()), 'balance_resources': case['balance']}
                s0 = ForwardScheduler(start=from_us(case['pbound']), **kw0) if fwd else BackwardScheduler(end=from_us(case['pbound']), **kw0)
                signal.signal(signal.SIGALRM, _alarm)
                signal.alarm(20)
                try:
                    probs = shape_problems(wbs, s0.calc(wbs).schedule)
                finally:
                    signal.alarm(0)
            except BaseException:  # noqa
                pass
            return {'offgrid': 'clone order differs', 'shape_only': probs}
        cix = {id(t): i for i, t in enumerate(cm)}
        mix = {id(t): i for i, t in enumerate(members)}
        # The abstract input describes the WBS THAT WAS HANDED TO calc: hierarchy and dependency links are read from
        # the original tasks.  Only the ORDER inside the dependency lists is taken from the scheduler's own copy
        # (clone() re-appends mirror entries and the pass visits prerequisites in that order); a link that the copy
        # has lost, or gained, is therefore still part of (absent from) the input, and the oracles judge the result
        # against the real dependencies.
        exts = []
        for t in members:
            for o in list(t.predecessors) + list(t.successors):
                if id(o) not in mix and id(o) not in [id(e) for e in exts]:
                    exts.append(o)
        eix = {id(o): len(cm) + j for j, o in enumerate(exts)}
        res_names = []
        for t in members:
            if t.resource not in res_names:
                res_names.append(t.resource)
        res_index = {n: i for i, n in enumerate(res_names)}
        w = []
        copy_differs = []
        for t, c in zip(members, cm):
            def oix(o):
                return mix[id(o)] if id(o) in mix else eix[id(o)]

            def cpos(o):
                return cix[id(o)] if id(o) in cix else eix.get(id(o))

            def merged(orig, copy, what):
                orig_ix = [oix(o) for o in orig]
                copy_ix = [cpos(o) for o in copy]
                if sorted(map(str, orig_ix)) != sorted(map(str, copy_ix)):
                    copy_differs.append('%s of task %r: %r in the WBS, %r in its copy' % (what, t.id, orig_ix, copy_ix))
                return [x for x in copy_ix if x in orig_ix] + [x for x in orig_ix if x not in copy_ix]
            w.append({
                'parent': mix[id(t.parent)] if t.parent is not None else None,
                'children': [mix[id(ch)] for ch in t.children],
                'preds': merged(t.predecessors, c.predecessors, 'predecessors'),
                'succs': merged(t.successors, c.successors, 'successors'),
                'ext': False, 'milestone': bool(t.milestone), 'res': res_index[t.resource],
                'est': eighths(t.estimate), 'spent': eighths(t.spent),
                'start': to_us(t.start), 'end': to_us(t.end), 'min_start': to_us(getattr(t, 'min_start', None)),
                'id': t.id,
            })
        if copy_differs:
            out['copy_differs'] = copy_differs[:5]
        for o in exts:
            w.append({'parent': None, 'children': [], 'preds': [], 'succs': [], 'ext': True, 'milestone': bool(o.milestone),
                      'res': 0, 'est': eighths(o.estimate), 'spent': eighths(o.spent),
                      'start': to_us(o.start), 'end': to_us(o.end), 'min_start': None, 'id': o.id})
        # remove the clone's mirror entries from the outside tasks again (clone() shares them by design)
        for o in exts:
            for c in cm:
                if c in o.successors:
                    o.successors.remove(c)
                if c in o.predecessors:
                    o.predecessors.remove(c)
        out['w'] = w
        out['n_members'] = len(members)
        if len(set(repr(t.id) for t in members)) != len(members):
            raise OffGrid('duplicate ids among members')

        if case.get('poke_getters'):
            # what a getter hands out must be a copy: user code that edits the table it got from a calendar (also from
            # the shared default calendar) must not change any calendar
            import pjplan.calendar as _cal
            for c in [_cal.DEFAULT_CALENDAR] + [r.calendar for r in supplied.values()]:
                try:
                    tbl = c.get_week_day_hours()
                    tbl[5] = 8
                    tbl[0] = 0
                except Exception:  # noqa - not a weekly calendar, or an immutable answer
                    pass

        # ---- scheduler
        def make():
            kw = {'resources': list(supplied.values()), 'balance_resources': case['balance']}
            if case.get('default_estimate') is not None:
                kw['default_estimate'] = num(case['default_estimate'], False)
            if fwd:
                return ForwardScheduler(start=from_us(case['pbound']), **kw)
            return BackwardScheduler(end=from_us(case['pbound']), **kw)
        # a first calculation, then the calendars of some resources are edited: the observed calculation
        # must work with the calendars as they are NOW (resources are reused across calculations)
        first = None
        if case.get('edit_calendars'):
            first = make()
            # ... and the WBS itself is not the same either: the first calculation sees larger estimates on the leaves
            # (same Task objects, changed in place and put back), so whatever a scheduler or resource remembers per
            # task from an earlier calculation is stale in the observed one
            bumped = [(t, t.estimate) for t in wbs.tasks if not t.children and t.estimate is not None]
            for t, e in bumped:
                t.estimate = e + 8
            try:
                first.calc(wbs)
            except BaseException:  # noqa
                pass
            for t, e in bumped:
                t.estimate = e
            for name, cal in case['edit_calendars']:
                if name in holidays:
                    direct, mode = holidays[name]
                    lrng = _random.Random('%s/%s' % (name, case['pbound']))
                    # the days the observed calculation will book first: from the later of project start and clock on
                    d0 = (max(case['pbound'], case['now']) // DAY_US) if fwd else (case['pbound'] // DAY_US - 12)
                    more = {}
                    for _ in range(lrng.randint(1, 6)):
                        more[(d0 + lrng.randint(0, 12)) * DAY_US] = 32 if mode == 'sub' else lrng.choice([1, 2, 4, 8, 8, 16, 32])
                    direct.set_units({from_us(k): v for k, v in more.items()})
                    out.setdefault('edited_in_place', []).append([name, mode, [[k, ['i', v]] for k, v in more.items()]])
                elif name in supplied:
                    supplied[name].calendar = build_calendar(cal)
        before = snapshot(wbs, ext)
        # the scheduler object of the first calculation is reused in half of the calendar-edit cases
        sched = first if (first is not None and case.get('edit_same_scheduler')) else make()
        signal.signal(signal.SIGALRM, _alarm)
        signal.alarm(3 if BUDGET['timeouts'] >= 2 else 30)
        try:
            sch = sched.calc(wbs)
            out['outcome'] = 0
        except Timeout:
            sch = None
            out['outcome'] = 20
            BUDGET['timeouts'] += 1
        except BaseException as ex:  # noqa
            sch = None
            out['outcome'] = exc_code(ex)
            out['exc'] = '%s: %s' % (type(ex).__name__, str(ex)[:200])
        finally:
            signal.alarm(0)
        after = snapshot(wbs, ext)
        out['pure'] = before == after
        if not out['pure']:
            out['impure_detail'] = [k for k in before if before[k] != after[k]]

        lo = case['window_lo']
        n_days = case['window_days']
        out['supplied'] = [n in supplied for n in res_names]
        actual = {}
        if sch is not None:
            for r in sch.resources:
                actual[r.name] = r
        notes = []
        out['rs'] = [tabulate(actual.get(n) or supplied.get(n) or Resource(n), lo, n_days, offgrid, notes, bool(case.get('tod_calendars'))) for n in res_names]
        if notes:
            out['resource_differs_from_calendar'] = notes[:3]

        if sch is not None:
            out['shape'] = shape_problems(wbs, sch.schedule)
            again = []
            signal.alarm(3 if BUDGET['timeouts'] >= 2 else 60)
            try:
                again.append(observe_schedule(sched.calc(wbs), res_index))          # same scheduler object again
                again.append(observe_schedule(make().calc(wbs), res_index))         # fresh scheduler
                # a calculation that RAISES in the middle of the pass (a cycle closing through the hierarchy, built from
                # the ids of this WBS) must leave nothing behind that influences a later calculation
                try:
                    ids3 = [t.id for t in members][:3] + [90001, 90002, 90003]
                    pw = WBS()
                    pp = pw // Task(ids3[0], 'p')
                    pa = pp // Task(ids3[1], 'a', estimate=1)
                    pb = pw // Task(ids3[2], 'b', estimate=1)
                    pb.predecessors.append(pa)
                    pp.predecessors.append(pb)
                    make().calc(pw)
                    out['poison_returned'] = True
                except RuntimeError:
                    pass
                again.append(observe_schedule(make().calc(wbs), res_index))         # fresh scheduler after the failed one
                if fwd and case.get('now2') is not None:
                    set_clock(case['now2'])
                    try:
                        again.append(observe_schedule(make().calc(wbs), res_index))  # other clock <= project start
                    except RuntimeError:
                        out['now2_raised'] = True   # e.g. a fixed end between the two clocks
                    set_clock(case['now'])
                # the scheduler object of the observed call is then asked for ANOTHER plan: a resource name it has not met,
                # a task without resource, a task of a known resource (a scheduler is a reusable object)
                ow = WBS()
                ow // Task(77001, 'other-a', estimate=8, resource='zz-not-seen-before')
                ow // Task(77002, 'other-b', estimate=4)
                if res_names:
                    ow // Task(77003, 'other-c', estimate=8, resource=res_names[0])
                try:
                    sched.calc(ow)
                except RuntimeError:
                    pass                 # e.g. a calendar without capacity near the bound
            except Timeout:
                out['again_exc'] = 'Timeout: a repeated calculation did not end'
                BUDGET['timeouts'] += 1
            except BaseException as ex:  # noqa
                out['again_exc'] = '%s: %s' % (type(ex).__name__, str(ex)[:200])
            finally:
                signal.alarm(0)
            out['again'] = again
            out['pure2'] = snapshot(wbs, ext) == before
            # the schedule that the observed call returned is read NOW, after the later calculations: what was handed
            # out must not change behind the caller's back
            out['obs'] = observe_schedule(sch, res_index)
        out = finalize(out, offgrid)
    except OffGrid as ex:
        return {'offgrid': str(ex)}
    out['wall'] = time.time() - t_begin
    return out


if __name__ == '__main__':
    main(lambda payload: [run_case(c) for c in payload])
