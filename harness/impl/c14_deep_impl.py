"""Deep dependency chains (DESIGN.md F16): a chain of n dependent tasks, linked back to front so that the
setters themselves stay shallow, then calc on both schedulers.  Reports the outcome class of each call."""
import sys
from datetime import datetime

from harness.impl.util import exc_code, main

from pjplan import Task, WBS, ForwardScheduler, BackwardScheduler
import pjplan.schedule as S


class _Clock(datetime):
    @classmethod
    def now(cls, tz=None):
        return datetime(2023, 12, 1)


def run(payload):
    S.datetime = _Clock
    res = []
    for n in payload['lengths']:
        w = WBS()
        ts = [Task(i + 1, 't%d' % i, estimate=1) for i in range(n)]
        for t in ts:
            w // t
        build = 0
        try:
            for i in range(n - 1, 0, -1):
                ts[i].predecessors.append(ts[i - 1])
        except BaseException as e:  # noqa
            build = exc_code(e)
        for name, sched in (('fwd', ForwardScheduler(start=datetime(2024, 1, 1))), ('bwd', BackwardScheduler(end=datetime(2034, 1, 1)))):
            try:
                sched.calc(w)
                code, where = 0, None
            except BaseException as e:  # noqa
                code = exc_code(e)
                tb = e.__traceback__
                frames = []
                while tb is not None:
                    frames.append('%s:%d' % (tb.tb_frame.f_code.co_filename.split('/')[-1], tb.tb_lineno))
                    tb = tb.tb_next
                where = frames[:4] + ['... %d frames' % len(frames)]
            res.append({'n': n, 'dir': name, 'build': build, 'outcome': code, 'where': where,
                        'recursion_limit': sys.getrecursionlimit()})
    return res


if __name__ == '__main__':
    main(run)
