"""./check <Cxx> [--tier quick|thorough] [--replay FILE]

Decides one property: (1) regenerates gen/Consts.v from /repo and rebuilds the Coq development,
re-compiles the statement file Props/Props_<Cxx>.v capturing Print Assumptions; (2) runs the
correspondence between the Gallina model and the implementation in /repo on corpus + generated
cases; (3) evaluates the Coq-verified boolean oracle on the implementation's outputs; (4) decides
and writes evidence/<Cxx>.json.  Exit 0 = held, exit 1 + VIOLATION line otherwise."""
import argparse
import importlib
import json
import os
import sys
import traceback

from harness import common


def main():
    ap = argparse.ArgumentParser()
    ap.add_argument('property')
    ap.add_argument('--tier', default=os.environ.get('VERIF_TIER') or 'quick', choices=['quick', 'thorough'])
    ap.add_argument('--replay', default=None)
    ap.add_argument('--seed', type=int, default=None)
    args = ap.parse_args()
    pid = args.property.upper()
    seed = args.seed if args.seed is not None else int(os.environ.get('VERIF_SEED') or 0)
    ctx = common.Ctx(pid, args.tier, seed)
    try:
        mod = importlib.import_module('harness.props.' + pid.lower())
    except ModuleNotFoundError:
        print('no check for property ' + pid)
        sys.exit(2)
    if args.replay:
        with open(args.replay, encoding='utf-8') as f:
            rep = json.load(f)
        ctx.replay = rep
        common.check_proofs(ctx, mod.PROPS_FILE, extra_targets=getattr(mod, 'EXTRA_TARGETS', ()),
                            const_parts=getattr(mod, 'CONST_PARTS', ()))
        try:
            mod.replay(ctx, rep)
        except common.InfraError as e:
            ctx.infra_problem(str(e))
        sys.exit(common.finish(ctx))
    try:
        common.check_proofs(ctx, mod.PROPS_FILE, extra_targets=getattr(mod, 'EXTRA_TARGETS', ()),
                            const_parts=getattr(mod, 'CONST_PARTS', ()))
        mod.run(ctx)
    except common.InfraError as e:
        ctx.infra_problem(str(e))
    except Exception as e:  # a crash of the harness means the tie was not established
        ctx.infra_problem('harness crashed: %r\n%s' % (e, traceback.format_exc()[-3000:]))
    sys.exit(common.finish(ctx))


if __name__ == '__main__':
    main()
