"""Build of the Coq development: regenerate gen/Consts.v from the repository source,
regenerate _CoqProject from the files on disk, run coq_makefile + make (full .vo build).

Every make runs under a file lock so that concurrent checks do not race on .vo files.
"""
import fcntl
import glob
import os
import re
import subprocess
import sys
import time

VERIF = os.path.dirname(os.path.dirname(os.path.abspath(__file__)))
COQ = os.path.join(VERIF, 'coq')
GEN = os.path.join(COQ, 'gen')
LOCK = os.path.join(VERIF, '.build.lock')

STATEMENT_RE = re.compile(
    r'^\s*(?:Local\s+|Global\s+|#\[[^\]]*\]\s*)*(Theorem|Lemma|Corollary|Example|Fact|Remark|Proposition)\s+([A-Za-z_][A-Za-z0-9_\']*)',
    re.M)
FORBIDDEN_RE = re.compile(
    r'\b(Admitted|admit|Axiom|Axioms|Parameter|Parameters|Conjecture|Conjectures|Hypothesis|Hypotheses|Variable|Variables'
    r'|Admit\s+Obligations|bypass_check|native_compute)\b|Unset\s+Guard|Unset\s+Positivity|Unset\s+Universe|type-in-type|impredicative-set')


def repo_path():
    return os.environ.get('PJPLAN_REPO', '/repo')


def write_if_changed(path, text):
    try:
        with open(path, encoding='utf-8') as f:
            if f.read() == text:
                return False
    except FileNotFoundError:
        pass
    os.makedirs(os.path.dirname(path), exist_ok=True)
    import threading
    tmp = path + '.tmp%d_%d' % (os.getpid(), threading.get_ident())
    with open(tmp, 'w', encoding='utf-8') as f:
        f.write(text)
    os.replace(tmp, path)
    return True


def source_files():
    """All .v files of the development (not the generated case files)."""
    res = []
    for p in sorted(glob.glob(os.path.join(COQ, '**', '*.v'), recursive=True)):
        rel = os.path.relpath(p, COQ)
        if rel.startswith('gen' + os.sep) and os.path.basename(rel) not in GEN_FILES:
            continue
        res.append(rel)
    return res


def strip_comments(text):
    """Remove (* ... *) comments (nested) and string literals are kept."""
    out = []
    depth = 0
    i = 0
    n = len(text)
    in_str = False
    while i < n:
        c = text[i]
        if depth == 0 and c == '"':
            in_str = not in_str
            out.append(c)
            i += 1
            continue
        if not in_str and text.startswith('(*', i):
            depth += 1
            i += 2
            continue
        if not in_str and depth > 0 and text.startswith('*)', i):
            depth -= 1
            i += 2
            continue
        if depth == 0:
            out.append(c)
        i += 1
    return ''.join(out)


def forbidden_scan(files=None):
    """Return list of (file, line_no, token) for forbidden constructs outside comments.
    Section-local `Variable`/`Hypothesis` are allowed only between `Section` and `End`."""
    hits = []
    for rel in (files if files is not None else source_files()):
        with open(os.path.join(COQ, rel), encoding='utf-8') as f:
            text = strip_comments(f.read())
        depth = 0
        for ln, line in enumerate(text.split('\n'), 1):
            if re.match(r'^\s*Section\s+\w+', line):
                depth += 1
            if re.match(r'^\s*End\s+\w+\s*\.', line) and depth > 0:
                depth -= 1
                continue
            # remove string literals before scanning
            scan = re.sub(r'"(?:[^"]|"")*"', '""', line)
            for m in FORBIDDEN_RE.finditer(scan):
                tok = m.group(0)
                if tok.split()[0] in ('Variable', 'Variables', 'Hypothesis', 'Hypotheses') and depth > 0:
                    continue
                hits.append((rel, ln, tok))
    return hits


def statements_in(rel):
    with open(os.path.join(COQ, rel), encoding='utf-8') as f:
        text = strip_comments(f.read())
    names = [m.group(2) for m in STATEMENT_RE.finditer(text)]
    qeds = len(re.findall(r'\b(Qed|Defined)\s*\.', text))
    return names, qeds


# files under gen/ that are regenerated from the repository source on every run and belong to the development
# (Consts.v: constants and templates; Src*.v: Gallina definitions translated from the source text, harness/srcgen)
GEN_FILES = ('Consts.v', 'SrcCal.v', 'SrcSched.v', 'SrcFill.v', 'SrcGraph.v', 'SrcPass.v')


def regenerate_consts():
    """Regenerates every file of GEN_FILES from the repository source; returns the list of problems, each prefixed
    by the name of the extractor / translator part it concerns."""
    from harness import consts
    text, problems = consts.generate(repo_path())
    write_if_changed(os.path.join(GEN, 'Consts.v'), text)
    from harness.srcgen import cal as srccal, sched as srcsched, fill as srcfill, graph as srcgraph, passes as srcpass
    for part, mod, fname in (('srccal', srccal, 'SrcCal.v'), ('srcsched', srcsched, 'SrcSched.v'), ('srcfill', srcfill, 'SrcFill.v'),
                             ('srcgraph', srcgraph, 'SrcGraph.v'), ('srcpass', srcpass, 'SrcPass.v')):
        try:
            text, probs = mod.emit(repo_path())
        except Exception as e:   # fail closed
            text, probs = None, ['translator crashed: %r' % (e,)]
        # a source that cannot be translated leaves the previous file in place (the problem is reported and the proof
        # counts as broken); the search for a failing input needs a development that builds
        if text is not None and (not probs or not os.path.exists(os.path.join(GEN, fname))):
            write_if_changed(os.path.join(GEN, fname), text)
        problems += ['%s: %s' % (part, p) for p in probs]
    return problems


def save_good():
    """Remember the generated files of a tree whose extraction and build had no problem."""
    import shutil
    for f in GEN_FILES:
        try:
            shutil.copyfile(os.path.join(GEN, f), os.path.join(GEN, f + '.good'))
        except OSError:
            pass


def restore_good():
    """Put the generated files of the last good build back; returns {file: text that was replaced} or None when
    there is nothing to go back to / nothing differs."""
    replaced = {}
    for f in GEN_FILES:
        cur, good = os.path.join(GEN, f), os.path.join(GEN, f + '.good')
        if not os.path.exists(good):
            continue
        with open(good, encoding='utf-8') as fh:
            gt = fh.read()
        try:
            with open(cur, encoding='utf-8') as fh:
                ct = fh.read()
        except FileNotFoundError:
            ct = None
        if ct != gt:
            replaced[f] = ct
            write_if_changed(cur, gt)
    return replaced or None


def make(jobs=16, timeout=3000, targets=None):
    """Returns (ok, log)."""
    os.makedirs(GEN, exist_ok=True)
    with open(LOCK, 'w') as lock:
        fcntl.flock(lock, fcntl.LOCK_EX)
        files = source_files()
        proj = '-Q . PJ\n-arg -w -arg -notation-overridden,-deprecated-hint-without-locality,-deprecated-instance-without-locality\n' + '\n'.join(files) + '\n'
        changed = write_if_changed(os.path.join(COQ, '_CoqProject'), proj)
        if changed or not os.path.exists(os.path.join(COQ, 'Makefile')):
            r = subprocess.run(['coq_makefile', '-f', '_CoqProject', '-o', 'Makefile'], cwd=COQ,
                               capture_output=True, text=True)
            if r.returncode != 0:
                return False, r.stdout + r.stderr
        cmd = ['timeout', str(timeout), 'make', '-j%d' % jobs]
        if targets:
            cmd += targets
        r = subprocess.run(cmd, cwd=COQ, capture_output=True, text=True)
        return r.returncode == 0, r.stdout[-20000:] + r.stderr[-20000:]


def dep_cone(rel):
    """Transitive project-local dependencies of a .v file (including itself), via coqdep."""
    r = subprocess.run(['coqdep', '-Q', '.', 'PJ'] + source_files(), cwd=COQ, capture_output=True, text=True)
    deps = {}
    for line in r.stdout.split('\n'):
        if ':' not in line:
            continue
        lhs, rhs = line.split(':', 1)
        tgt = [x for x in lhs.split() if x.endswith('.vo')]
        if not tgt:
            continue
        src = tgt[0][:-1]
        ds = [x[:-1] for x in rhs.split() if x.endswith('.vo')]
        deps[os.path.normpath(src)] = [os.path.normpath(d) for d in ds]
    seen = []
    stack = [os.path.normpath(rel)]
    while stack:
        x = stack.pop()
        if x in seen:
            continue
        seen.append(x)
        stack.extend(deps.get(x, []))
    return sorted(seen)


def vo_up_to_date(rel):
    v = os.path.join(COQ, rel)
    vo = v + 'o'
    return os.path.exists(vo) and os.path.getmtime(vo) >= os.path.getmtime(v)


def registered_targets():
    """Statement files and checker files of the checks listed in MANIFEST.json."""
    import importlib
    import json
    with open(os.path.join(VERIF, 'MANIFEST.json'), encoding='utf-8') as f:
        man = json.load(f)
    targets = []
    for c in man.get('checks', []):
        mod = importlib.import_module('harness.props.' + c['property_id'].lower())
        for t in [mod.PROPS_FILE[:-2] + '.vo'] + list(getattr(mod, 'EXTRA_TARGETS', ())):
            if t not in targets:
                targets.append(t)
    return targets


def main():
    import argparse
    ap = argparse.ArgumentParser()
    ap.add_argument('--jobs', type=int, default=16)
    args = ap.parse_args()
    t0 = time.time()
    problems = regenerate_consts()
    for p in problems:
        print('consts: ' + p)
    hits = forbidden_scan()
    for h in hits:
        print('forbidden construct: %s:%d: %s' % h)
    # what the registered checks need must build; files of checks still under construction are
    # built too (so that they are warm) but a failure there does not fail the setup
    targets = registered_targets()
    ok, log = make(args.jobs, targets=targets)
    if not ok:
        print(log)
        print('BUILD FAILED')
        sys.exit(1)
    ok_all, log_all = make(args.jobs, targets=['-k', 'all'])
    if not ok_all:
        errs = [l for l in log_all.split('\n') if l.startswith('File "') or 'Error' in l]
        print('note: files outside the registered checks do not build yet:\n  ' + '\n  '.join(errs[:20]))
    if not problems and 'PJPLAN_REPO' not in os.environ:
        # the constants of a tree whose extraction had no problem: used by the checks to go on searching for a
        # failing input when a later change of the source makes the extraction (or the build with it) fail
        save_good()
    print('build ok: %d files in %.1fs' % (len(source_files()), time.time() - t0))
    sys.exit(1 if hits else 0)


if __name__ == '__main__':
    main()
