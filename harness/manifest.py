"""Writes MANIFEST.json from the table below (kept in one place so that it stays valid)."""
import json
import os

VERIF = os.path.dirname(os.path.dirname(os.path.abspath(__file__)))

ALL = ['C%02d' % i for i in range(1, 21)]

SCHED_TRUST = 'Trusted: Coq kernel, the hand-written scheduler model (exact integer arithmetic; float rounding modelled out; exact model-vs-implementation comparison only on the dyadic grid; off the grid only oracles with a stated tolerance), harness incl. capacity tabulation from the calendars; interpreter recursion depth not modelled.'

GT = 'Trusted: Coq kernel + vm_compute, the hand-written heap model of task.py/wbs.py (guards then writes; list facades = the owner looked up now), harness (state-aware history generator, snapshot by object identity, step-wise comparison). Model-domain restriction: a hidden WBS root is never named as a task argument (pub_args, evaluated on every generated call; Python cannot name it). Interpreter recursion depth not modelled.'

# property -> (technique, level text, level note, design_ref)
CHECKS = {
    'C17': (
        'Coq proof of the calendar/search model for every number type + the method bodies of calendar.py/resource.py translated from the source text on every run and proved equal to the model (gen/SrcCal.v, C17_src_*) + bit-exact differential correspondence (PrimFloat) with the implementation',
        'Theorems (Props_C17.v, closed under the global context) state the meaning of every combinator, leaf calendar, '
        'constructor validation and of the availability search for all expressions, dates, horizons and any number type; '
        'the hand-written model is tied to /repo on every run by evaluating it (vm_compute, IEEE binary64) on generated '
        'expressions and comparing every returned value bit for bit with the implementation; and, for the 11 lookup/search method bodies, '
        'by translating their current source text to Gallina (harness/srcgen) and proving the result equal to the model for all inputs.',
        'Trusted: Coq kernel + vm_compute, the hand-written model, the harness (generator, term printer), the source translator '
        'harness/srcgen/pylite.py with the conventions listed in DESIGN section 5. FuncCalendar and user subclasses are outside the model. '
        'For constructors, operator overloads and set_units the tie is differential testing; the theorems are about the model.',
        '4.17'),
    'C03': (
        'Coq proof of the ledger invariant for both scheduler models (abstract step machine refined by the recursive pass) + verified boolean oracle evaluated on the rows returned by the implementation + the usage ledger and both fill loops of schedule.py translated from the source text on every run and proved equal to the model (gen/SrcSched.v, gen/SrcFill.v; C03_src_*: reserved = used, reserve, fwd/bwd shift, the translated loops keep the ledger within capacity) + the recursive pass (both schedulers) translated from the source text on every run and proved related to the model pass for every input; the property transported to the translated source (gen/SrcPass.v, C03_src_*_pass)',
        'Theorems (Props_C03.v): for every WBS, capacity function >= 0, balance setting, bound and clock, every row of the '
        'forward/backward model schedule is a positive amount on its task\'s resource on a day with capacity and the day\'s '
        'bookings never exceed the capacity; the oracle c03_b is proved equivalent to that statement and is evaluated on what '
        'the implementation returns for generated WBSs/calendars; the model is compared exactly with the implementation on the dyadic grid.',
        'Trusted: Coq kernel, the hand-written scheduler model (exact integer arithmetic; float rounding modelled out; '
        'correspondence exact only on the dyadic grid), harness incl. tabulation of the real resources into the capacity function.',
        '4.3'),
    'C12': (
        'Coq proof that the code\'s activity-on-arc computation equals the longest-chain characterisation + differential correspondence on generated WBSs',
        'Theorems (Props_C12.v): earliest finish / tail are maximal chain lengths, slack of the modelled network computation = '
        'L - (ef + tail - d), critical set exact, non-empty, expansion of summary links exact, unit independence, independence of the topological order (C12_order_independent), a verified topological sort (C12_topo_sound/_complete: acyclic <-> an order exists, C12_wbs_any_order); the model is the '
        'functional specification and is compared with WBS.critical_path() on generated acyclic WBSs (exact rationals).',
        'Trusted: Coq kernel, hand-written model of the repaired calculator, the harness\'s independent expansion to a leaf DAG; '
        'recursion depth and the end_date branch are not modelled.',
        '4.12'),
    'C18': (
        'Coq proof that the query/bulk model returns exactly filter(sat) and that sequential identity-based removal equals declarative pruning + differential correspondence on generated task lists and filter combinations; the suffix table is re-extracted from the source and proved equal to the model table on every run',
        'Theorems (Props_C18.v, closed under the global context): a returning query is filter (key and every keyword filter) in list order; '
        'meaning of each of the 12 filter forms; unambiguity of the suffix parser; absent/None attributes satisfy no comparison or pattern filter; '
        'bulk assignment changes attribute k of exactly the selected tasks; remove_all removes exactly the matching tasks with their subtrees and returns them; '
        'for all lists, attribute populations, filters and any regular-expression oracle. Tie: the model is evaluated on generated cases and compared with the implementation.',
        'Trusted: Coq kernel + vm_compute, hand-written model, harness; Python re is a Section variable (literal patterns = substring search in the correspondence run); '
        'comparisons between unrelated types are modelled as TypeError.',
        '4.18'),
    'C20': (
        'Coq proof about the text-table model (lines, order, indentation, widths, link cells, usage-table day range) + byte-exact differential correspondence with the printed text',
        'Theorems (Props_C20.v): the sheet is header + one line per shown task in depth-first order with 3 spaces per level; all lines have equal visible width and every column fits its longest cell, '
        'for any field list (unknown fields give empty cells) and theme; link cells show linked ids with (external) exactly when owners differ; the usage table has one line per day from first to last reservation. '
        'Tie: the model text is compared with repr()/print output of the implementation on generated WBSs, field lists and themes.',
        'Trusted: Coq kernel + vm_compute, hand-written model of utils.TextTable/_Repr/ResourceUsageReport.__repr__, harness; str() of floats/datetimes is passed in as observed text; '
        'column order of the usage table (iteration order of a Python set) is observed, not modelled.',
        '4.20'),
    'C09': (
        'Coq proof of an invariant of the abstract scheduling machine refined by the backward pass (deadline, dependencies incl. inherited ones, date encoding, late packing) + reflection of the boolean oracle evaluated on the implementation\'s schedules + exact differential correspondence on the dyadic grid + the backward search/fill primitives translated from the source text on every run and proved equal to the model (gen/SrcFill.v, C09_src_*) + the recursive pass (BackwardScheduler.__backward_pass) translated from the source text on every run and proved related to the model pass for every input; the property transported to the translated source (gen/SrcPass.v, C09_src_backward_pass)',
        'Theorems (Props_C09.v, closed under the global context; hypotheses WFin w, cap_nonneg, no user-fixed dates, backward = Ok): no task ends after the project end; '
        'every own or inherited dependency has predecessor end <= successor start (also seen from below a dependant summary); both date formulas for both balance settings, leaves without work included; '
        'with balancing on the days between end and due date and between two work days are fully booked in the final ledger; c09_b is equivalent to the Prop statement and the model\'s output passes it. '
        'Tie: oracle evaluated on every schedule the implementation returns, model compared exactly (dates, rows).',
        'Trusted: Coq kernel, the hand-written scheduler model (exact integer arithmetic; float rounding modelled out; exact correspondence only on the dyadic grid), harness incl. capacity tabulation.',
        '4.9'),
    'C10': (
        'Coq proof about a specification-level model of clone/subtree over the heap model (bijection, source unchanged, disjointness, link selection) + proofs that the result state is well formed and that the two sides are independent under every later public call + verified boolean oracle (sound and complete) and model comparison on snapshots of the implementation',
        'Theorems (Props_C10.v, closed under the global context; hypotheses WF s, sel_ok): C10_faithful (position-wise bijection preserving ids/fields/attributes, owner, parent, sibling order, internal links as sets), '
        'C10_clone (members = WBS.tasks), C10_source (old objects unchanged except outside tasks\' mirror lists which only gain copies), C10_disjoint, C10_subtree (links to non-selected members dropped, outside links kept to the same objects), '
        'C10_oracle_meaning (clone_spec_b <-> CloneSpec), C10_wf (WF and hid_ids of the state after the call; the bare statement without hid_ids is refuted: C10_wf_refuted), C10_wf_reach, C10_indep (a later public call of any kind on one side leaves every member of the other side unchanged, both directions). hid_ids is evaluated on every generated case.',
        'Trusted: Coq kernel, hand-written model of the repaired clone, harness (state builder, snapshot by identity). Dependency lists compare as sets (the code does not keep their order; the property says "same set"). '
        'del of a built-in field before cloning is excluded.',
        '4.10'),
    'C02': (
        'Coq proof of an invariant of the abstract scheduling machine refined by the forward pass (bounds of leaf starts and reservations, milestone placement, roll-up of prerequisite summaries to their leaves) + reflection of the boolean oracle evaluated on the implementation\'s schedules + differential correspondence + the recursive pass (ForwardScheduler.__forward_pass) translated from the source text on every run and proved related to the model pass for every input; the property transported to the translated source (gen/SrcPass.v, C02_src_forward_pass)',
        'Theorems (Props_C02.v, closed under the global context; WFin w, cap_nonneg, forward = Ok): every leaf without user dates starts, and has every reservation, on a day not earlier than project start, clock, min_start and the end of every task below any own or inherited prerequisite; '
        'milestones sit exactly at the latest prerequisite end or the project start; c02_b is equivalent to that statement and the model\'s output passes it. The start clause for leaves with a user-fixed END is refuted (C02_fixed_end_conflict: start <= end of C07 wins), the reservation clause holds for them.',
        SCHED_TRUST, '4.2'),
    'C04': (
        'Coq proof of per-task ledger facts as an invariant of the abstract scheduling machine for both passes (conservation, once per day, window, date/last-day agreement, nothing for milestones/completed/summaries, fixed dates kept) + full reflection of the oracle + exact differential correspondence + the recursive pass (both schedulers) translated from the source text on every run and proved related to the model pass for every input; the property transported to the translated source (gen/SrcPass.v, C04_src_*_pass) + the two fill loops translated from the source text on every run and proved equal to the model (gen/SrcFill.v, C04_src_*)',
        'Theorems (Props_C04.v, closed; WFin w, cap_nonneg, capacities <= 24h-equivalent units [cap_small, shown necessary by C04_cap_small_needed], forward/backward = Ok): C04_conserve_once, C04_window, C04_nothing, C04_fixed, both schedulers; c04_b <-> statement; model output passes the oracle.',
        SCHED_TRUST, '4.4'),
    'C06': (
        'Coq proof that every member gets both dates and that the forward pass does not read the clock when clock <= project start (equal final states for any two such clocks); purity, shape and repeatability are decided by the differential run (stated as such) + the recursive pass (both schedulers) translated from the source text on every run and proved related to the model pass for every input; the property transported to the translated source (gen/SrcPass.v, C06_src_*_pass); calc itself and __prepare_tasks translated and tied to forward / backward (C06_src_*_calc, C06_src_prepare_*)',
        'Theorems (Props_C06.v, closed): C06_dates_forward/backward, C06_forward/backward_reaches_all, C06_clock (whole final state equal for two clocks <= project start when both runs return), C06_clock_pass, C06_clock_outcome. '
        'Input purity, same ids/hierarchy/links/attributes in the result, and equal results of repeated calls are true of any Gallina function by construction: they are checked on the implementation only (snapshots before/after, calc twice on one scheduler, once on a fresh one, once with another clock).',
        SCHED_TRUST, '4.6'),
    'C07': (
        'Coq proof of start <= end and of the roll-ups as invariants of the abstract scheduling machine for both passes, tree induction for WBS.start/end + full reflection of the oracle + differential correspondence + the recursive pass (both schedulers) translated from the source text on every run and proved related to the model pass for every input; the property transported to the translated source (gen/SrcPass.v, C07_src_*_pass)',
        'Theorems (Props_C07.v, closed; WFin w): C07_forward/backward (summary start = min, end = max, estimate/spent = sums of children, user values replaced), C07_order_forward/backward, C07_wbs (min/max over roots = min/max over all members), c07_b <-> statement, model output passes the oracle.',
        SCHED_TRUST, '4.7'),
    'C13': (
        'Coq proof of the CSV codec, field codecs, flatten/rebuild and the composed round trip, fixpoint, BOM and hand-written-file theorems + byte-exact differential correspondence (file bytes = model text, re-read WBS = model) with constants extracted from the source on every run',
        'Theorems (Props_C13.v, closed under the global context): C13_codec (any text incl. delimiter, quotes, CR, LF), C13_fields (ids, dates 1969-2068 by exhaustive sweep, booleans, predecessor lists, floats under the Section hypothesis parse (repr x) = Some x), '
        'C13_rebuild (assemble (flatten w) = Ok w), C13_roundtrip, C13_fix, C13_bom, C13_handwritten, C13_columns_any_order, C13_missing_optional_column / _required_column, C13_rows_any_order, C13_any_layout (column order, omitted optional columns and row order at once); domain wbs_ok evaluated on every generated case.',
        'Trusted: Coq kernel + vm_compute, hand-written model of csv (excel dialect, ;), strptime/strftime on the canonical form, float repr/float() as a Section hypothesis exercised by the harness; harness.',
        '4.13'),
    'C19': (
        'Coq proof that reference extractors applied to the model\'s output of the three renderers return exactly one entry per task / dependency, that names cannot alter other entries, and that the notebook form is the escaped document + byte-exact differential correspondence with templates and encoders extracted from the source on every run',
        'Theorems (Props_C19.v, closed): C19_gantt, C19_net (+count), C19_json (parses to expected entries, unique link ids, progress in 0..1, no "<"), C19_inject, C19_repr, C19_mermaid_div, C19_dhtmlx_script, C19_source_literals/templates, C19_refuted_* for the unrepaired shapes; '
        'C19_gantt_each_task_once (the layout, grouped by section or not, is a permutation of the tasks), C19_gantt_line_count, C19_gantt_no_task_twice.',
        'Trusted: Coq kernel + vm_compute, hand-written model, harness; ASSUMPTIONS: the Mermaid line grammar and entity codes (#NN;), "an HTML element ends at its first closing tag", JSON as json.dumps writes it - no JavaScript engine offline to validate them.',
        '4.19'),
    'C08': (
        'Coq proof of tightness, date encoding, WBS order and removal-independence for the forward pass (machine invariants; order by induction on the recursive pass; independence by a simulation between two runs) + two-way reflection of the oracle + exact differential correspondence (dates, row order) and a direct with/without-task comparison on the implementation + the forward search/fill primitives translated from the source text on every run and proved equal to the model (gen/SrcFill.v, C08_src_*) + the recursive pass (ForwardScheduler.__forward_pass) translated from the source text on every run and proved related to the model pass for every input; the property transported to the translated source (gen/SrcPass.v, C08_src_forward_pass)',
        'Theorems (Props_C08.v, closed): C08_tight / C08_tight_leaves (balancing on: resource fully booked from the release day up to the last work day, in the FINAL ledger), C08_encode (both date formulas, any clock), C08_order (unlinked leaves served in WBS order), '
        'C08_indep / C08_indep_set (balancing off: deleting - or blanking - any unrelated set of tasks, closed under hierarchy and links: isolated leaves, linked clusters, whole subtrees - leaves every other task\'s dates unchanged; the second run need not be assumed), c08_task_b (incl. leaves without work) / c08_order_b <-> statements, model output passes the oracle.',
        SCHED_TRUST + ' Leaves with user-fixed start or end are outside the C08 theorems (free_leaf).', '4.8'),
    'C14': (
        'Coq proof that both scheduler models answer Ok or Err and never Crash under WFin (fuel suffices, no None arithmetic, no empty max/min, divisors positive), that each unschedulable class answers Err and that Err has no other cause (completeness) + outcome-class correspondence incl. an extra stream of unschedulable inputs; recursion depth probed on the implementation (known finding) + the four day-by-day loops translated from the source text on every run: proved to end within their fuel and to raise nothing but RuntimeError (gen/SrcFill.v, C14_src_*_outcome) + the recursive pass (both schedulers) translated from the source text on every run and proved related to the model pass for every input; the property transported to the translated source (gen/SrcPass.v, C14_src_*_pass_total / _outcome: never an exception other than RuntimeError, never out of fuel; calc and its two pre-checks translated too: C14_src_*_calc_outcome, C14_src_validate_graph_isolation, C14_src_check_no_end_dates_in_future)',
        'Theorems (Props_C14.v, closed): C14_total_forward/backward, C14_compute_no_crash, C14_divisors_positive, C14_err_isolated / _future_end / _no_capacity / _cycle / _hierarchy_cycle, C14_reentry, C14_err_causes_*, C14_complete_* (Err only from the four causes, read as: no reachable machine state is stuck). '
        'Known finding F16 (chains deeper than the interpreter recursion limit raise RecursionError) is probed on every run and reported as KNOWN-FINDING; the model has no interpreter stack.',
        SCHED_TRUST, '4.14'),
    'C01': (
        'Coq proof that every public mutator preserves the invariant WF (9 conjuncts: finiteness, parent/children mirror, acyclic hierarchy, symmetric duplicate-free links, no dependency cycle, no link between ancestor and descendant, id uniqueness per tree, hidden roots, ownership), by induction over histories + reflection wf_b <-> WF evaluated on the implementation\'s snapshot after every call (also raising ones) + step-wise model comparison + the four relation setters of Task, the closure walks and the guards translated from the source text on every run and proved equal to the model in every well-formed state, hence WF-preserving as the source reads today; likewise the list facades append / remove / insert / move / reorder and the link facades (gen/SrcGraph.v, C01_src_*)',
        'Theorems (Props_C01.v, closed under the global context): C01_step (WF s -> pub_args s o -> WF (fst (step s o)) for all 24 operation kinds, whatever the outcome), C01_run/C01_reach/C01_prefixes (every state reachable from init by public histories, at every prefix), C01_meaning (WF in the property\'s words over the public view), C01_oracle (wf_b s = true <-> WF s); C01_src_set_parent / _set_predecessors / _set_successors / _set_children (translated setter = model setter under WF) with _keeps_WF and _no_crash, C01_src_parent / _all_parents / _all_predecessors / _all_successors / _check_no_links_with / _unique_tasks.',
        GT, '4.1'),
    'C05': (
        'Coq proof of id uniqueness (projection of WF preserved by every step), exact rejection by the id-clash guard, exact lookup and depth-first enumeration + oracle wf_ids_b and the reads wbs[id] / WBS.tasks compared on every state of generated histories + _find_root, _collect_subtree, the children closure and the id-clash guard _has_id_intersection translated from the source text on every run and proved equal to the model (gen/SrcGraph.v, C05_src_*)',
        'Theorems (Props_C05.v, closed): C05_unique, C05_reject / C05_reject_set_parent / C05_reject_set_children (a write that would join equal ids returns (s, Err)), C05_id_clash_spec, C05_guards_no_crash, C05_lookup (wbs[i] = the member with that id, Err iff none, never a crash), C05_tasks (NoDup, membership, preorder equation), C05_reach.',
        GT, '4.5'),
    'C11': (
        'Coq proof that Task.wbs agrees with reachability from the WBS roots in every reachable state (I_own within WF), that attach/move/remove change the owner of exactly the moved subtree, and that every removal path releases the task + oracle wf_own_b/wf_hid_b on every snapshot + Task._attach / _detach (the recursive change of owner) translated from the source text on every run and proved to give the whole subtree the new owner (set_own_all over subtree, the function of the model) (gen/SrcGraph.v, C11_src_attach / _detach)',
        'Theorems (Props_C11.v, closed): C11_truth (own t = Some w <-> t in wbs_tasks w), C11_reach, C11_whole_subtree / C11_subtree / C11_subtree_children, C11_removed_list / _wbs / _assignment / _list_all / _wbs_all (removed task: no owner, no parent [except a match below another match], in no WBS, ownership guard can no longer reject it).',
        GT, '4.11'),
    'C15': (
        'Coq proof that a non-OK outcome leaves the state unchanged for all 24 operation kinds (every setter validates before it writes; sequences of setter calls - constructor, list-level << / >>, bulk parent - are undone as a whole; remove_all loops never raise on WF states), refutation witnesses for the three sequences without the undo (the code before fix 0693848) + full-snapshot comparison before/after every raising call of generated histories + the four relation setters and nine list-facade methods translated from the source text a second time with raise as a value and proved to hand back the heap they were given whenever they raise - setters, move, insert, reorder on every heap (gen/SrcGraph.v _x definitions, Graph/SrcGraphAtomic.v, C15_src_*)',
        'Theorems (Props_C15.v, closed): C15_atomic / C15_atomic_core (21 kinds, all states), C15_atomic_every_op (all 24 kinds under WF), C15_atomic_reach (every state reached by a public history), C15_remove_all_never_raises, C15_all_or_nothing; C15_refuted_lst_shift, C15_refuted_lst_set_parent, C15_refuted_new_task_rel refute the bare sequences (finding F10, repaired in /repo by 0693848).',
        GT, '4.15'),
    'C16': (
        'Coq proof of the documented effect of every accepted mutator (exact new lists for assignment, append, insert, move, stable sort, reorder, removals; effect of the three setters incl. owner propagation and mirror lists) and of per-setter frame theorems + full-state comparison of model and implementation after every accepted call + the four relation setters translated from the source text on every run and proved to produce the heap and the rejections of the model in every well-formed state, likewise the list facades move / insert / reorder / append / remove (move and reorder in every state) (gen/SrcGraph.v, C16_src_set_*, C16_src_ch_*)',
        'Theorems (Props_C16.v, closed): C16_move, C16_insert, C16_sort (permutation, sorted, stable, reverse), C16_reorder, C16_append, C16_remove, C16_remove_all, C16_floordiv, C16_wbs_remove, C16_set_parent, C16_set_children(+own), C16_set_links, C16_mirror, C16_frame_set_parent/_children/_links/_derived, C16_frame_only_kids.',
        GT + ' Sort keys restricted to id / integer attribute / name / estimate (None values raise TypeError); the frame is stated per setter.', '4.16'),
}

NOT_YET = 'check not built yet in this round (planned, see DESIGN.md section 4)'


def main():
    checks = []
    for pid in ALL:
        if pid not in CHECKS:
            continue
        tech, text, note, ref = CHECKS[pid]
        checks.append({
            'property_id': pid,
            'quick_cmd': './check %s --tier quick' % pid,
            'thorough_cmd': './check %s --tier thorough' % pid,
            'evidence_file': '/verif/evidence/%s.json' % pid,
            'replay_cmd_template': './check %s --replay {path}' % pid,
            'engine': 'coq-model+correspondence',
            'level_claimed': {'category': 'proof', 'text': text, 'design_ref': 'DESIGN.md ' + ref},
            'level_note': note,
            'technique': tech,
        })
    man = {
        'version': 1,
        'setup_cmd': './setup.sh',
        'hooks': {
            'guard': 'PJPLAN_VERIF',
            'enable': 'no source hooks are needed: checks import /repo/src as it is (the clock is replaced from outside)',
            'baseline_off_cmd': 'cd /repo && /venv/bin/python -m pytest -ra -q -p no:cacheprovider --timeout=900 --continue-on-collection-errors',
            'source_commits': [],
            'add_only': True,
        },
        'engines': [{
            'name': 'coq-model+correspondence',
            'path': '/verif/check',
            'serves_properties': sorted(CHECKS),
            'kind_free_text': 'Coq 8.16.1 development (coq/) with one statement file per property; Python harness that rebuilds it, '
                              'regenerates gen/Consts.v from /repo, runs model (vm_compute) and implementation on the same cases',
        }],
        'checks': checks,
        'not_applicable': [{'property_id': p, 'reason': NOT_YET} for p in ALL if p not in CHECKS],
        'notes': 'See DESIGN.md. Fix commits in /repo are listed in known_findings.json (status fixed).',
    }
    with open(os.path.join(VERIF, 'MANIFEST.json'), 'w') as f:
        json.dump(man, f, indent=1)
        f.write('\n')


if __name__ == '__main__':
    main()
