"""Writes MANIFEST.json from the table below (kept in one place so that it stays valid)."""
import json
import os

VERIF = os.path.dirname(os.path.dirname(os.path.abspath(__file__)))

ALL = ['C%02d' % i for i in range(1, 21)]

# property -> (technique, level text, level note, design_ref)
CHECKS = {
    'C17': (
        'Coq proof of the calendar/search model for every number type + bit-exact differential correspondence (PrimFloat) with the implementation',
        'Theorems (Props_C17.v, closed under the global context) state the meaning of every combinator, leaf calendar, '
        'constructor validation and of the availability search for all expressions, dates, horizons and any number type; '
        'the hand-written model is tied to /repo on every run by evaluating it (vm_compute, IEEE binary64) on generated '
        'expressions and comparing every returned value bit for bit with the implementation.',
        'Trusted: Coq kernel + vm_compute, the hand-written model, the harness (generator, term printer). FuncCalendar '
        'and user subclasses are outside the model. The tie is differential testing, the theorems are about the model.',
        '4.17'),
    'C03': (
        'Coq proof of the ledger invariant for both scheduler models (abstract step machine refined by the recursive pass) + verified boolean oracle evaluated on the rows returned by the implementation',
        'Theorems (Props_C03.v): for every WBS, capacity function >= 0, balance setting, bound and clock, every row of the '
        'forward/backward model schedule is a positive amount on its task\'s resource on a day with capacity and the day\'s '
        'bookings never exceed the capacity; the oracle c03_b is proved equivalent to that statement and is evaluated on what '
        'the implementation returns for generated WBSs/calendars; the model is compared exactly with the implementation on the dyadic grid.',
        'Trusted: Coq kernel, the hand-written scheduler model (exact integer arithmetic; float rounding modelled out; '
        'correspondence exact only on the dyadic grid), harness incl. tabulation of the real resources into the capacity function.',
        '4.3'),
    'C12': (
        'Coq proof that the code\'s activity-on-arc computation equals the longest-chain characterisation + differential correspondence on generated WBSs',
        'Theorems (Props_C12.v): earliest finish / tail are maximal chain lengths, slack of the modelled network computation = '
        'L - (ef + tail - d), critical set exact, non-empty, expansion of summary links exact, unit independence; the model is the '
        'functional specification and is compared with WBS.critical_path() on generated acyclic WBSs (exact rationals).',
        'Trusted: Coq kernel, hand-written model of the repaired calculator, the harness\'s independent expansion to a leaf DAG; '
        'recursion depth and the end_date branch are not modelled.',
        '4.12'),
    'C18': (
        'Coq proof that the query/bulk model returns exactly filter(sat) and that sequential identity-based removal equals declarative pruning + differential correspondence on generated task lists and filter combinations; the suffix table is re-extracted from the source and proved equal to the model table on every run',
        'Theorems (Props_C18.v, closed under the global context): a returning query is filter (key and every keyword filter) in list order; '
        'meaning of each of the 12 filter forms; unambiguity of the suffix parser; absent/None attributes satisfy no comparison or pattern filter; '
        'bulk assignment changes attribute k of exactly the selected tasks; remove_all removes exactly the matching tasks with their subtrees and returns them; '
        'for all lists, attribute populations, filters and any regular-expression oracle. Tie: the model is evaluated on generated cases and compared with the implementation.',
        'Trusted: Coq kernel + vm_compute, hand-written model, harness; Python re is a Section variable (literal patterns = substring search in the correspondence run); '
        'comparisons between unrelated types are modelled as TypeError.',
        '4.18'),
    'C20': (
        'Coq proof about the text-table model (lines, order, indentation, widths, link cells, usage-table day range) + byte-exact differential correspondence with the printed text',
        'Theorems (Props_C20.v): the sheet is header + one line per shown task in depth-first order with 3 spaces per level; all lines have equal visible width and every column fits its longest cell, '
        'for any field list (unknown fields give empty cells) and theme; link cells show linked ids with (external) exactly when owners differ; the usage table has one line per day from first to last reservation. '
        'Tie: the model text is compared with repr()/print output of the implementation on generated WBSs, field lists and themes.',
        'Trusted: Coq kernel + vm_compute, hand-written model of utils.TextTable/_Repr/ResourceUsageReport.__repr__, harness; str() of floats/datetimes is passed in as observed text; '
        'column order of the usage table (iteration order of a Python set) is observed, not modelled.',
        '4.20'),
    'C09': (
        'Coq proof of an invariant of the abstract scheduling machine refined by the backward pass (deadline, dependencies incl. inherited ones, date encoding, late packing) + reflection of the boolean oracle evaluated on the implementation\'s schedules + exact differential correspondence on the dyadic grid',
        'Theorems (Props_C09.v, closed under the global context; hypotheses WFin w, cap_nonneg, no user-fixed dates, backward = Ok): no task ends after the project end; '
        'every own or inherited dependency has predecessor end <= successor start (also seen from below a dependant summary); both date formulas for both balance settings; '
        'with balancing on the days between end and due date and between two work days are fully booked in the final ledger; c09_b is equivalent to the Prop statement and the model\'s output passes it. '
        'Tie: oracle evaluated on every schedule the implementation returns, model compared exactly (dates, rows).',
        'Trusted: Coq kernel, the hand-written scheduler model (exact integer arithmetic; float rounding modelled out; exact correspondence only on the dyadic grid), harness incl. capacity tabulation.',
        '4.9'),
    'C10': (
        'Coq proof about a specification-level model of clone/subtree over the heap model (bijection, source unchanged, disjointness, link selection) + verified boolean oracle and model comparison on snapshots of the implementation; WF of the result and independence under later mutation are decided by the differential run only',
        'Theorems (Props_C10.v, closed under the global context; hypotheses WF s, sel_ok): C10_faithful (position-wise bijection preserving ids/fields/attributes, owner, parent, sibling order, internal links as sets), '
        'C10_clone (members = WBS.tasks), C10_source (old objects unchanged except outside tasks\' mirror lists which only gain copies), C10_disjoint, C10_subtree (links to non-selected members dropped, outside links kept to the same objects), '
        'C10_oracle_sound. C10_wf_statement and C10_indep_statement are stated, not proved: wf_b is evaluated on every implementation post-state and both sides are mutated and compared on every case.',
        'Trusted: Coq kernel, hand-written model of the repaired clone, harness (state builder, snapshot by identity). Dependency lists compare as sets (the code does not keep their order; the property says "same set"). '
        'del of a built-in field before cloning is excluded.',
        '4.10'),
}

NOT_YET = 'check not built yet in this round (planned, see DESIGN.md section 4)'


def main():
    checks = []
    for pid in ALL:
        if pid not in CHECKS:
            continue
        tech, text, note, ref = CHECKS[pid]
        checks.append({
            'property_id': pid,
            'quick_cmd': './check %s --tier quick' % pid,
            'thorough_cmd': './check %s --tier thorough' % pid,
            'evidence_file': '/verif/evidence/%s.json' % pid,
            'replay_cmd_template': './check %s --replay {path}' % pid,
            'engine': 'coq-model+correspondence',
            'level_claimed': {'category': 'proof', 'text': text, 'design_ref': 'DESIGN.md ' + ref},
            'level_note': note,
            'technique': tech,
        })
    man = {
        'version': 1,
        'setup_cmd': './setup.sh',
        'hooks': {
            'guard': 'PJPLAN_VERIF',
            'enable': 'no source hooks are needed: checks import /repo/src as it is (the clock is replaced from outside)',
            'baseline_off_cmd': 'cd /repo && /venv/bin/python -m pytest -ra -q -p no:cacheprovider --timeout=900 --continue-on-collection-errors',
            'source_commits': [],
            'add_only': True,
        },
        'engines': [{
            'name': 'coq-model+correspondence',
            'path': '/verif/check',
            'serves_properties': sorted(CHECKS),
            'kind_free_text': 'Coq 8.16.1 development (coq/) with one statement file per property; Python harness that rebuilds it, '
                              'regenerates gen/Consts.v from /repo, runs model (vm_compute) and implementation on the same cases',
        }],
        'checks': checks,
        'not_applicable': [{'property_id': p, 'reason': NOT_YET} for p in ALL if p not in CHECKS],
        'notes': 'See DESIGN.md. Fix commits in /repo are listed in known_findings.json (status fixed).',
    }
    with open(os.path.join(VERIF, 'MANIFEST.json'), 'w') as f:
        json.dump(man, f, indent=1)
        f.write('\n')


if __name__ == '__main__':
    main()
