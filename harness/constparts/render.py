"""Fixed text of the three renderers (pjplan.viz), read from the repository on every run:
format strings of the builders (with `ast`, fail-closed) and the `$placeholder` structure of the
three HTML templates (with string.Template's own pattern), and the pieces of the F22 repairs (entity
encoders of the two Mermaid builders, the replacement applied to the JSON text, html.escape around the
Mermaid source).  Lands in gen/Consts.v with the prefix c19_; Render/RProofsDoc.v proves that the model's
literals are these and that each placeholder sits inside the element the theorems talk about.  A piece
that is not found in the source is reported as a problem and not emitted (RProofsDoc.v then does not
compile: the theorems are about the repaired builders)."""
import ast
import os
from string import Template

GANTT = 'src/pjplan/viz/mermaid/gantt.py'
NETWORK = 'src/pjplan/viz/mermaid/network.py'
DHTMLX = 'src/pjplan/viz/dhtmlx/gantt.py'
TEMPLATES = {
    'mgantt': 'src/pjplan/viz/mermaid/templates/gantt.html',
    'mnet': 'src/pjplan/viz/mermaid/templates/network.html',
    'dhtmlx': 'src/pjplan/viz/dhtmlx/templates/gantt.html',
}


def cps(s):
    return '[' + '; '.join(str(ord(c)) for c in s) + ']%N'


def split_template(text):
    """[literal, name, literal, name, ..., literal] as Template.substitute sees the text ($$ -> $);
    raises ValueError on an invalid placeholder."""
    parts = ['']
    pos = 0
    for m in Template.pattern.finditer(text):
        parts[-1] += text[pos:m.start()]
        pos = m.end()
        if m.group('escaped') is not None:
            parts[-1] += '$'
        elif m.group('invalid') is not None:
            raise ValueError('invalid placeholder at offset %d' % m.start())
        else:
            parts.append(m.group('named') or m.group('braced'))
            parts.append('')
    parts[-1] += text[pos:]
    return parts


def read_templates(repo):
    res = {}
    for key, rel in TEMPLATES.items():
        with open(os.path.join(repo, rel), encoding='utf-8') as f:
            res[key] = split_template(f.read())
    return res


def _method(tree, cls, suffix):
    for node in ast.walk(tree):
        if isinstance(node, ast.ClassDef) and node.name == cls:
            for f in node.body:
                if isinstance(f, ast.FunctionDef) and f.name.endswith(suffix):
                    return f
    return None


def _str_constants(fn):
    """all str constants of a function body, in source order, f-string pieces included"""
    out = []
    for node in ast.walk(fn):
        if isinstance(node, ast.Constant) and isinstance(node.value, str):
            out.append((node.lineno, node.col_offset, node.value))
    return [v for _, _, v in sorted(out)]


def _strftime_formats(fn):
    res = []
    for node in ast.walk(fn):
        if (isinstance(node, ast.Call) and isinstance(node.func, ast.Attribute) and node.func.attr == 'strftime'
                and len(node.args) == 1 and isinstance(node.args[0], ast.Constant)):
            res.append((node.lineno, node.col_offset, node.args[0].value))
    return [v for _, _, v in sorted(res)]


def _iframe_wrapper(fn):
    """the literal that _repr_html_ formats (implicit concatenation of str constants)"""
    for node in ast.walk(fn):
        if (isinstance(node, ast.Call) and isinstance(node.func, ast.Attribute) and node.func.attr == 'format'
                and isinstance(node.func.value, ast.Constant) and isinstance(node.func.value.value, str)):
            kw = {k.arg: k.value for k in node.keywords}
            esc = kw.get('html')
            escaped = (isinstance(esc, ast.Call) and isinstance(esc.func, ast.Name) and esc.func.id == 'escape')
            return node.func.value.value, escaped
    return None, False


def _flatten_add(node):
    if isinstance(node, ast.BinOp) and isinstance(node.op, ast.Add):
        return _flatten_add(node.left) + _flatten_add(node.right)
    return [node]


def _entity_encoder(fn):
    """(prefix, special characters, suffix) of a method whose only statement besides a docstring is
         return PREFIX + ''.join(f'#{ord(c)};' if c in SPECIALS else c for c in <arg>) + SUFFIX
    None when the method has any other shape."""
    body = [st for st in fn.body if not (isinstance(st, ast.Expr) and isinstance(st.value, ast.Constant))]
    if len(body) != 1 or not isinstance(body[0], ast.Return) or len(fn.args.args) != 1:
        return None
    arg = fn.args.args[0].arg
    parts = _flatten_add(body[0].value)
    calls = [i for i, x in enumerate(parts) if isinstance(x, ast.Call)]
    if len(calls) != 1 or not all(isinstance(x, ast.Constant) and isinstance(x.value, str)
                                  for i, x in enumerate(parts) if i != calls[0]):
        return None
    call = parts[calls[0]]
    if not (isinstance(call.func, ast.Attribute) and call.func.attr == 'join' and isinstance(call.func.value, ast.Constant)
            and call.func.value.value == '' and len(call.args) == 1 and not call.keywords
            and isinstance(call.args[0], ast.GeneratorExp)):
        return None
    gen = call.args[0]
    if len(gen.generators) != 1:
        return None
    comp = gen.generators[0]
    if not (isinstance(comp.target, ast.Name) and isinstance(comp.iter, ast.Name) and comp.iter.id == arg
            and not comp.ifs and not comp.is_async):
        return None
    c = comp.target.id
    e = gen.elt
    if not (isinstance(e, ast.IfExp) and isinstance(e.orelse, ast.Name) and e.orelse.id == c
            and isinstance(e.test, ast.Compare) and isinstance(e.test.left, ast.Name) and e.test.left.id == c
            and len(e.test.ops) == 1 and isinstance(e.test.ops[0], ast.In)
            and isinstance(e.test.comparators[0], ast.Constant) and isinstance(e.test.comparators[0].value, str)
            and isinstance(e.body, ast.JoinedStr) and len(e.body.values) == 3):
        return None
    a, f, b = e.body.values
    if not (isinstance(a, ast.Constant) and a.value == '#' and isinstance(b, ast.Constant) and b.value == ';'
            and isinstance(f, ast.FormattedValue) and f.conversion == -1 and f.format_spec is None
            and isinstance(f.value, ast.Call) and isinstance(f.value.func, ast.Name) and f.value.func.id == 'ord'
            and len(f.value.args) == 1 and isinstance(f.value.args[0], ast.Name) and f.value.args[0].id == c):
        return None
    return (''.join(x.value for x in parts[:calls[0]]), e.test.comparators[0].value,
            ''.join(x.value for x in parts[calls[0] + 1:]))


def _calls_private(fn, suffix):
    """number of calls self.<...suffix>(...) inside a function"""
    return sum(1 for node in ast.walk(fn) if isinstance(node, ast.Call) and isinstance(node.func, ast.Attribute)
               and node.func.attr.endswith(suffix) and isinstance(node.func.value, ast.Name) and node.func.value.id == 'self')


def _src_escaped(fn):
    """True when to_html substitutes src=escape(self.__src())"""
    for node in ast.walk(fn):
        if isinstance(node, ast.Call) and isinstance(node.func, ast.Attribute) and node.func.attr == 'substitute':
            for k in node.keywords:
                if k.arg == 'src':
                    v = k.value
                    return (isinstance(v, ast.Call) and isinstance(v.func, ast.Name) and v.func.id == 'escape'
                            and len(v.args) == 1 and not v.keywords and isinstance(v.args[0], ast.Call)
                            and isinstance(v.args[0].func, ast.Attribute) and v.args[0].func.attr.endswith('__src'))
    return False


def _json_replacement(fn):
    """(old, new) when the only return of __data is json.dumps(...).replace(old, new)"""
    rets = [n for n in ast.walk(fn) if isinstance(n, ast.Return)]
    if len(rets) != 1:
        return None
    v = rets[0].value
    if not (isinstance(v, ast.Call) and isinstance(v.func, ast.Attribute) and v.func.attr == 'replace' and len(v.args) == 2
            and not v.keywords and all(isinstance(a, ast.Constant) and isinstance(a.value, str) for a in v.args)):
        return None
    inner = v.func.value
    if not (isinstance(inner, ast.Call) and isinstance(inner.func, ast.Attribute) and inner.func.attr == 'dumps'):
        return None
    return v.args[0].value, v.args[1].value


def extract(repo):
    """dict of the constants, list of problems"""
    problems = []
    vals = {}

    def parse(rel):
        with open(os.path.join(repo, rel), encoding='utf-8') as f:
            return ast.parse(f.read())

    g = parse(GANTT)
    n = parse(NETWORK)
    d = parse(DHTMLX)

    f = _method(g, 'MermaidGantt', '__mermaid_task')
    if f is None:
        problems.append('MermaidGantt.__mermaid_task not found')
    else:
        fmts = _strftime_formats(f)
        if len(fmts) != 2:
            problems.append('MermaidGantt.__mermaid_task: expected two strftime formats')
        else:
            vals['gantt_start_format'], vals['gantt_end_format'] = fmts
        lines = [s for s in _str_constants(f) if '{}' in s]
        if len(lines) != 1:
            problems.append('MermaidGantt.__mermaid_task: line format not found')
        else:
            vals['gantt_line_format'] = lines[0]
    f = _method(g, 'MermaidGantt', '__src')
    if f is None:
        problems.append('MermaidGantt.__src not found')
    else:
        consts = _str_constants(f)
        head = [s for s in consts if s.endswith('\n') and (s.startswith('gantt') or s.lstrip().startswith('dateFormat'))]
        if len(head) != 2:
            problems.append('MermaidGantt.__src: header lines not found')
        else:
            vals['gantt_header'] = head[0] + head[1]
    f = _method(d, 'DhtmlxGantt', '__data')
    if f is None:
        problems.append('DhtmlxGantt.__data not found')
    else:
        fmts = _strftime_formats(f)
        if len(fmts) != 2:
            problems.append('DhtmlxGantt.__data: expected two strftime formats')
        else:
            vals['dhtmlx_start_format'], vals['dhtmlx_end_format'] = fmts
    f = _method(n, 'MermaidNetwork', '__src')
    if f is None:
        problems.append('MermaidNetwork.__src not found')
    else:
        consts = _str_constants(f)
        head = [s for s in consts if s.startswith('flowchart')]
        if len(head) != 1:
            problems.append('MermaidNetwork.__src: header not found')
        else:
            vals['net_header'] = head[0]
    # ---- the repairs of F22 ----
    f = _method(g, 'MermaidGantt', '__text')
    enc = _entity_encoder(f) if f is not None else None
    if enc is None:
        problems.append('MermaidGantt.__text: entity encoder of task and section texts not found')
    else:
        vals['gantt_text_prefix'], vals['gantt_text_specials'], vals['gantt_text_suffix'] = enc
        ft, fs = _method(g, 'MermaidGantt', '__mermaid_task'), _method(g, 'MermaidGantt', '__src')
        if ft is None or fs is None or _calls_private(ft, '__text') != 1 or _calls_private(fs, '__text') != 1:
            problems.append('MermaidGantt: __text is not applied once to the task name and once to the section name')
    f = _method(n, 'MermaidNetwork', '__label')
    enc = _entity_encoder(f) if f is not None else None
    if enc is None:
        problems.append('MermaidNetwork.__label: entity encoder of node labels not found')
    else:
        vals['net_label_prefix'], vals['net_label_specials'], vals['net_label_suffix'] = enc
        fs = _method(n, 'MermaidNetwork', '__src')
        if fs is None or _calls_private(fs, '__label') != 2:
            problems.append('MermaidNetwork.__src: __label is not applied to the two names of an edge')
    for key, tree, cls in (('mgantt', g, 'MermaidGantt'), ('mnet', n, 'MermaidNetwork')):
        f = _method(tree, cls, 'to_html')
        if f is None or not _src_escaped(f):
            problems.append('%s.to_html: the Mermaid source is not substituted as escape(self.__src())' % cls)
        else:
            vals['src_escaped_' + key] = True
    f = _method(d, 'DhtmlxGantt', '__data')
    rep = _json_replacement(f) if f is not None else None
    if rep is None:
        problems.append('DhtmlxGantt.__data: json.dumps(...).replace(old, new) not found')
    else:
        vals['json_replace_old'], vals['json_replace_new'] = rep
    for key, tree, cls in (('mgantt', g, 'MermaidGantt'), ('mnet', n, 'MermaidNetwork'), ('dhtmlx', d, 'DhtmlxGantt')):
        f = _method(tree, cls, '_repr_html_')
        w, escaped = _iframe_wrapper(f) if f is not None else (None, False)
        if w is None:
            problems.append('%s._repr_html_: wrapper literal not found' % cls)
        else:
            vals['wrapper_' + key] = w
            vals['wrapper_escaped_' + key] = escaped
    try:
        tpl = read_templates(repo)
    except (OSError, ValueError) as e:
        problems.append('templates: %r' % (e,))
        tpl = {}
    return vals, tpl, problems


def emit(repo):
    vals, tpl, problems = extract(repo)
    out = ['Definition c19_text := list N.']
    for k in ('gantt_start_format', 'gantt_end_format', 'gantt_line_format', 'gantt_header',
              'dhtmlx_start_format', 'dhtmlx_end_format', 'net_header',
              'gantt_text_prefix', 'gantt_text_specials', 'gantt_text_suffix',
              'net_label_prefix', 'net_label_specials', 'net_label_suffix', 'json_replace_old', 'json_replace_new'):
        if k in vals:
            out.append('Definition c19_%s : list N := %s.' % (k, cps(vals[k])))
    for key in ('mgantt', 'mnet'):
        if vals.get('src_escaped_' + key):
            out.append('Definition c19_src_escaped_%s : bool := true.' % key)
    for key in ('mgantt', 'mnet', 'dhtmlx'):
        if 'wrapper_' + key in vals:
            w = vals['wrapper_' + key]
            # text of the wrapper before the document: up to the {html} field
            i = w.find('{html}')
            if i < 0:
                problems.append('wrapper of %s has no {html} field' % key)
            else:
                out.append('Definition c19_wrapper_pre_%s : list N := %s.' % (key, cps(w[:i])))
                out.append('Definition c19_wrapper_post_%s : list N := %s.' % (key, cps(w[i + 6:])))
                out.append('Definition c19_wrapper_escaped_%s : bool := %s.'
                           % (key, 'true' if vals['wrapper_escaped_' + key] else 'false'))
    want = {'mgantt': 'src', 'mnet': 'src', 'dhtmlx': 'gantt_data'}
    for key, parts in tpl.items():
        names = parts[1::2]
        lits = parts[0::2]
        ph = want[key]
        if names.count(ph) != 1:
            problems.append('template %s: placeholder $%s must occur exactly once' % (key, ph))
            continue
        i = names.index(ph)
        out.append('(* template %s: placeholders %s *)' % (key, ' '.join('$' + x for x in names)))
        # the literal text right before and right after the placeholder of the source / data;
        # the proofs need: the element is open before it and the literal after it closes it first.
        out.append('Definition c19_tpl_%s_before : list N := %s.' % (key, cps(lits[i])))
        out.append('Definition c19_tpl_%s_after : list N := %s.' % (key, cps(lits[i + 1])))
    return '\n'.join(out) + '\n', problems
