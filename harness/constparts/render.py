"""Fixed text of the three renderers (pjplan.viz), read from the repository on every run:
format strings of the builders (with `ast`, fail-closed) and the `$placeholder` structure of the
three HTML templates (with string.Template's own pattern).  Lands in gen/Consts.v with the prefix
c19_; Render/RProofsDoc.v proves that the model's literals are these and that each placeholder sits
inside the element the theorems talk about."""
import ast
import os
from string import Template

GANTT = 'src/pjplan/viz/mermaid/gantt.py'
NETWORK = 'src/pjplan/viz/mermaid/network.py'
DHTMLX = 'src/pjplan/viz/dhtmlx/gantt.py'
TEMPLATES = {
    'mgantt': 'src/pjplan/viz/mermaid/templates/gantt.html',
    'mnet': 'src/pjplan/viz/mermaid/templates/network.html',
    'dhtmlx': 'src/pjplan/viz/dhtmlx/templates/gantt.html',
}


def cps(s):
    return '[' + '; '.join(str(ord(c)) for c in s) + ']%N'


def split_template(text):
    """[literal, name, literal, name, ..., literal] as Template.substitute sees the text ($$ -> $);
    raises ValueError on an invalid placeholder."""
    parts = ['']
    pos = 0
    for m in Template.pattern.finditer(text):
        parts[-1] += text[pos:m.start()]
        pos = m.end()
        if m.group('escaped') is not None:
            parts[-1] += '$'
        elif m.group('invalid') is not None:
            raise ValueError('invalid placeholder at offset %d' % m.start())
        else:
            parts.append(m.group('named') or m.group('braced'))
            parts.append('')
    parts[-1] += text[pos:]
    return parts


def read_templates(repo):
    res = {}
    for key, rel in TEMPLATES.items():
        with open(os.path.join(repo, rel), encoding='utf-8') as f:
            res[key] = split_template(f.read())
    return res


def _method(tree, cls, suffix):
    for node in ast.walk(tree):
        if isinstance(node, ast.ClassDef) and node.name == cls:
            for f in node.body:
                if isinstance(f, ast.FunctionDef) and f.name.endswith(suffix):
                    return f
    return None


def _str_constants(fn):
    """all str constants of a function body, in source order, f-string pieces included"""
    out = []
    for node in ast.walk(fn):
        if isinstance(node, ast.Constant) and isinstance(node.value, str):
            out.append((node.lineno, node.col_offset, node.value))
    return [v for _, _, v in sorted(out)]


def _strftime_formats(fn):
    res = []
    for node in ast.walk(fn):
        if (isinstance(node, ast.Call) and isinstance(node.func, ast.Attribute) and node.func.attr == 'strftime'
                and len(node.args) == 1 and isinstance(node.args[0], ast.Constant)):
            res.append((node.lineno, node.col_offset, node.args[0].value))
    return [v for _, _, v in sorted(res)]


def _iframe_wrapper(fn):
    """the literal that _repr_html_ formats (implicit concatenation of str constants)"""
    for node in ast.walk(fn):
        if (isinstance(node, ast.Call) and isinstance(node.func, ast.Attribute) and node.func.attr == 'format'
                and isinstance(node.func.value, ast.Constant) and isinstance(node.func.value.value, str)):
            kw = {k.arg: k.value for k in node.keywords}
            esc = kw.get('html')
            escaped = (isinstance(esc, ast.Call) and isinstance(esc.func, ast.Name) and esc.func.id == 'escape')
            return node.func.value.value, escaped
    return None, False


def extract(repo):
    """dict of the constants, list of problems"""
    problems = []
    vals = {}

    def parse(rel):
        with open(os.path.join(repo, rel), encoding='utf-8') as f:
            return ast.parse(f.read())

    g = parse(GANTT)
    n = parse(NETWORK)
    d = parse(DHTMLX)

    f = _method(g, 'MermaidGantt', '__mermaid_task')
    if f is None:
        problems.append('MermaidGantt.__mermaid_task not found')
    else:
        fmts = _strftime_formats(f)
        if len(fmts) != 2:
            problems.append('MermaidGantt.__mermaid_task: expected two strftime formats')
        else:
            vals['gantt_start_format'], vals['gantt_end_format'] = fmts
        lines = [s for s in _str_constants(f) if '{}' in s]
        if len(lines) != 1:
            problems.append('MermaidGantt.__mermaid_task: line format not found')
        else:
            vals['gantt_line_format'] = lines[0]
    f = _method(g, 'MermaidGantt', '__src')
    if f is None:
        problems.append('MermaidGantt.__src not found')
    else:
        consts = _str_constants(f)
        head = [s for s in consts if s.endswith('\n') and (s.startswith('gantt') or s.lstrip().startswith('dateFormat'))]
        if len(head) != 2:
            problems.append('MermaidGantt.__src: header lines not found')
        else:
            vals['gantt_header'] = head[0] + head[1]
    f = _method(d, 'DhtmlxGantt', '__data')
    if f is None:
        problems.append('DhtmlxGantt.__data not found')
    else:
        fmts = _strftime_formats(f)
        if len(fmts) != 2:
            problems.append('DhtmlxGantt.__data: expected two strftime formats')
        else:
            vals['dhtmlx_start_format'], vals['dhtmlx_end_format'] = fmts
    f = _method(n, 'MermaidNetwork', '__src')
    if f is None:
        problems.append('MermaidNetwork.__src not found')
    else:
        consts = _str_constants(f)
        head = [s for s in consts if s.startswith('flowchart')]
        if len(head) != 1:
            problems.append('MermaidNetwork.__src: header not found')
        else:
            vals['net_header'] = head[0]
    for key, tree, cls in (('mgantt', g, 'MermaidGantt'), ('mnet', n, 'MermaidNetwork'), ('dhtmlx', d, 'DhtmlxGantt')):
        f = _method(tree, cls, '_repr_html_')
        w, escaped = _iframe_wrapper(f) if f is not None else (None, False)
        if w is None:
            problems.append('%s._repr_html_: wrapper literal not found' % cls)
        else:
            vals['wrapper_' + key] = w
            vals['wrapper_escaped_' + key] = escaped
    try:
        tpl = read_templates(repo)
    except (OSError, ValueError) as e:
        problems.append('templates: %r' % (e,))
        tpl = {}
    return vals, tpl, problems


def emit(repo):
    vals, tpl, problems = extract(repo)
    out = ['Definition c19_text := list N.']
    for k in ('gantt_start_format', 'gantt_end_format', 'gantt_line_format', 'gantt_header',
              'dhtmlx_start_format', 'dhtmlx_end_format', 'net_header'):
        if k in vals:
            out.append('Definition c19_%s : list N := %s.' % (k, cps(vals[k])))
    for key in ('mgantt', 'mnet', 'dhtmlx'):
        if 'wrapper_' + key in vals:
            w = vals['wrapper_' + key]
            # text of the wrapper before the document: up to the {html} field
            i = w.find('{html}')
            if i < 0:
                problems.append('wrapper of %s has no {html} field' % key)
            else:
                out.append('Definition c19_wrapper_pre_%s : list N := %s.' % (key, cps(w[:i])))
                out.append('Definition c19_wrapper_post_%s : list N := %s.' % (key, cps(w[i + 6:])))
                out.append('Definition c19_wrapper_escaped_%s : bool := %s.'
                           % (key, 'true' if vals['wrapper_escaped_' + key] else 'false'))
    want = {'mgantt': 'src', 'mnet': 'src', 'dhtmlx': 'gantt_data'}
    for key, parts in tpl.items():
        names = parts[1::2]
        lits = parts[0::2]
        ph = want[key]
        if names.count(ph) != 1:
            problems.append('template %s: placeholder $%s must occur exactly once' % (key, ph))
            continue
        i = names.index(ph)
        out.append('(* template %s: placeholders %s *)' % (key, ' '.join('$' + x for x in names)))
        # the literal text right before and right after the placeholder of the source / data;
        # the proofs need: the element is open before it and the literal after it closes it first.
        out.append('Definition c19_tpl_%s_before : list N := %s.' % (key, cps(lits[i])))
        out.append('Definition c19_tpl_%s_after : list N := %s.' % (key, cps(lits[i + 1])))
    return '\n'.join(out) + '\n', problems
