"""Constants of the text sheets (C20): colour codes and escape sequences (utils.py), the field names
`_Repr` treats specially, the indentation unit, the external marker, default field list and default
theme (task.py), labels and colours of the resource-usage table (schedule.py).  Read with `ast`,
fail-closed: a shape the model does not know is reported as a problem, never guessed."""
import ast
import os
import sys


def _cp(s):
    return '[' + '; '.join(str(ord(c)) for c in s) + ']%N'


def _parse(repo, rel):
    with open(os.path.join(repo, rel), encoding='utf-8') as f:
        return ast.parse(f.read())


def _class(tree, name):
    for n in ast.walk(tree):
        if isinstance(n, ast.ClassDef) and n.name == name:
            return n
    return None


def _func(scope, name):
    if scope is None:
        return None
    for n in scope.body:
        if isinstance(n, ast.FunctionDef) and n.name == name:
            return n
    return None


def _str_consts(fn):
    """string constants of a function body in source order (docstring excluded)"""
    body = list(fn.body)
    if body and isinstance(body[0], ast.Expr) and isinstance(body[0].value, ast.Constant) and isinstance(body[0].value.value, str):
        body = body[1:]
    found = []
    for st in body:
        for n in ast.walk(st):
            if isinstance(n, ast.Constant) and isinstance(n.value, str):
                found.append((n.lineno, n.col_offset, n.value))
    return [v for _, _, v in sorted(found)]


def emit(repo):
    problems = []
    out = []

    def need(cond, msg):
        if not cond:
            problems.append(msg)
        return cond

    def define(name, typ, val):
        out.append('Definition %s : %s := %s.' % (name, typ, val))

    # ---------------- utils.py --------------------------------------------------------------
    utils = _parse(repo, 'src/pjplan/utils.py')
    colors = {}
    for st in utils.body:
        if (isinstance(st, ast.Assign) and len(st.targets) == 1 and isinstance(st.targets[0], ast.Name)
                and isinstance(st.value, ast.Constant) and isinstance(st.value.value, str)):
            colors[st.targets[0].id] = st.value.value

    def color_of(node, where):
        if isinstance(node, ast.Name) and node.id in colors:
            return colors[node.id]
        if isinstance(node, ast.Constant) and (node.value is None or isinstance(node.value, str)):
            return node.value
        problems.append('%s: colour is neither a colour name of utils.py nor a literal' % where)
        return None

    def opt(c):
        return 'None' if c is None else '(Some %s)' % _cp(c)

    ct = _func(utils, 'colored_text')
    if need(ct is not None, 'utils.colored_text not found'):
        cs = _str_consts(ct)
        if need(len(cs) == 5 and cs[0] == '' and cs[1] == ':' and cs[2] == ' ',
                'utils.colored_text: unexpected string constants %r' % (cs,)):
            define('tt_esc_prefix', 'list N', _cp(cs[3]))
            define('tt_esc_suffix', 'list N', _cp(cs[4]))
    row = _func(_class(utils, '_TextTableRow'), 'repr')
    if need(row is not None, 'utils._TextTableRow.repr not found'):
        cs = _str_consts(row)
        need(cs == ['', '|', ' ', ' ', '  ', '|'], 'utils._TextTableRow.repr: unexpected string constants %r' % (cs,))
    tr = _func(_class(utils, 'TextTable'), 'text_repr')
    if need(tr is not None, 'utils.TextTable.text_repr not found'):
        cs = _str_consts(tr)
        need(cs == ['', '\n'], 'utils.TextTable.text_repr: unexpected string constants %r' % (cs,))

    # ---------------- task.py: _Repr --------------------------------------------------------
    task = _parse(repo, 'src/pjplan/task.py')
    ok_empty = False
    for st in task.body:
        if (isinstance(st, ast.Assign) and isinstance(st.targets[0], ast.Name) and st.targets[0].id == 'EMPTY_TASK_ID'
                and isinstance(st.value, ast.Attribute) and st.value.attr == 'maxsize'
                and isinstance(st.value.value, ast.Name) and st.value.value.id == 'sys'):
            ok_empty = True
    if need(ok_empty, 'task.EMPTY_TASK_ID is not sys.maxsize'):
        define('sheet_empty_task_id', 'Z', '%d' % sys.maxsize)

    rp = _class(task, '_Repr')
    need(rp is not None, 'task._Repr not found')

    theme = None
    if rp is not None:
        for st in rp.body:
            if (isinstance(st, ast.Assign) and isinstance(st.targets[0], ast.Name)
                    and st.targets[0].id == '__DEFAULT_THEME' and isinstance(st.value, ast.Dict)):
                theme = {}
                for k, v in zip(st.value.keys, st.value.values):
                    if isinstance(k, ast.Constant):
                        theme[k.value] = v
    if need(theme is not None and set(theme) == {'header_color', 'level_colors'}
            and isinstance(theme.get('level_colors'), (ast.List, ast.Tuple)),
            'task._Repr.__DEFAULT_THEME: unexpected shape'):
        define('sheet_default_header', 'option (list N)', opt(color_of(theme['header_color'], 'default header_color')))
        define('sheet_default_levels', 'list (option (list N))',
               '[' + '; '.join(opt(color_of(e, 'default level colour')) for e in theme['level_colors'].elts) + ']')

    f1 = _func(rp, '__get_linked_task_id')
    if need(f1 is not None, '_Repr.__get_linked_task_id not found'):
        cs = _str_consts(f1)
        if need(len(cs) == 3 and cs[0] == '' and cs[2] == '', '_Repr.__get_linked_task_id: unexpected string constants %r' % (cs,)):
            define('sheet_external', 'list N', _cp(cs[1]))
    f2 = _func(rp, '__get_linked_tasks_id')
    if need(f2 is not None, '_Repr.__get_linked_tasks_id not found'):
        cs = _str_consts(f2)
        if need(len(cs) == 1, '_Repr.__get_linked_tasks_id: unexpected string constants %r' % (cs,)):
            define('sheet_link_sep', 'list N', _cp(cs[0]))
    f3 = _func(rp, '__get_field_value')
    if need(f3 is not None, '_Repr.__get_field_value not found'):
        cs = _str_consts(f3)
        shape = (len(cs) == 15 and cs[1] == cs[4] and cs[2] == cs[5] and cs[9] == cs[11] == cs[14]
                 and cs[13] == '%d.%m.%Y %H:%M' and cs[12] == '')
        if need(shape, '_Repr.__get_field_value: unexpected string constants %r' % (cs,)):
            for nm, v in (('predecessors', cs[0]), ('successors', cs[3]), ('parent', cs[6]), ('id', cs[7]),
                          ('estimate', cs[8]), ('spent', cs[10])):
                define('sheet_fld_' + nm, 'list N', _cp(v))
            define('sheet_lbracket', 'list N', _cp(cs[1]))
            define('sheet_rbracket', 'list N', _cp(cs[2]))
            define('sheet_dash', 'list N', _cp(cs[9]))
    f4 = _func(rp, '__print_task_subtree')
    if need(f4 is not None, '_Repr.__print_task_subtree not found'):
        name_fld = indent = pcol = None
        fallback = []
        for n in ast.walk(f4):
            if (isinstance(n, ast.Compare) and len(n.ops) == 1 and isinstance(n.ops[0], ast.Eq)
                    and isinstance(n.left, ast.Name) and n.left.id == 'f' and isinstance(n.comparators[0], ast.Constant)):
                name_fld = n.comparators[0].value
            if (isinstance(n, ast.BinOp) and isinstance(n.op, ast.Mult) and isinstance(n.left, ast.Constant)
                    and isinstance(n.left.value, str) and isinstance(n.right, ast.Name) and n.right.id == 'level'):
                indent = n.left.value
            if (isinstance(n, ast.Compare) and len(n.ops) == 1 and isinstance(n.ops[0], ast.In)
                    and isinstance(n.left, ast.Constant) and isinstance(n.comparators[0], ast.Attribute)
                    and n.comparators[0].attr == '__dict__'):
                pcol = n.left.value
            if isinstance(n, ast.IfExp) and isinstance(n.orelse, ast.Name) and n.orelse.id in colors:
                fallback.append(colors[n.orelse.id])
        if need(isinstance(name_fld, str), '_Repr.__print_task_subtree: name field comparison not found'):
            define('sheet_fld_name', 'list N', _cp(name_fld))
        if need(isinstance(indent, str), '_Repr.__print_task_subtree: indentation unit not found'):
            define('sheet_indent', 'list N', _cp(indent))
        if need(isinstance(pcol, str), '_Repr.__print_task_subtree: print_color lookup not found'):
            define('sheet_fld_print_color', 'list N', _cp(pcol))
        if need(len(fallback) == 1, '_Repr.__print_task_subtree: fallback level colour not found'):
            define('sheet_level_fallback', 'list N', _cp(fallback[0]))
    f5 = _func(rp, 'repr')
    if need(f5 is not None, '_Repr.repr not found'):
        dflt = None
        hdr_fallback = None
        for n in ast.walk(f5):
            if (isinstance(n, ast.Assign) and isinstance(n.targets[0], ast.Name) and n.targets[0].id == 'fields'
                    and isinstance(n.value, ast.List)
                    and all(isinstance(e, ast.Constant) and isinstance(e.value, str) for e in n.value.elts)):
                dflt = [e.value for e in n.value.elts]
            if (isinstance(n, ast.Assign) and isinstance(n.targets[0], ast.Name) and n.targets[0].id == 'header_color'
                    and isinstance(n.value, ast.IfExp) and isinstance(n.value.orelse, ast.Name)
                    and n.value.orelse.id in colors):
                hdr_fallback = colors[n.value.orelse.id]
        if need(dflt is not None, '_Repr.repr: default field list not found'):
            define('sheet_default_fields', 'list (list N)', '[' + '; '.join(_cp(s) for s in dflt) + ']')
        if need(hdr_fallback is not None, '_Repr.repr: fallback header colour not found'):
            define('sheet_header_fallback', 'list N', _cp(hdr_fallback))

    # ---------------- schedule.py: usage table ----------------------------------------------
    sched = _parse(repo, 'src/pjplan/schedule.py')
    ur = _func(_class(sched, 'ResourceUsageReport'), '__repr__')
    if need(ur is not None, 'schedule.ResourceUsageReport.__repr__ not found'):
        cs = _str_consts(ur)
        if need(len(cs) == 5 and cs[3] == '%y-%m-%d' and cs[4] == '.1f',
                'ResourceUsageReport.__repr__: unexpected string constants %r' % (cs,)):
            define('usage_empty', 'list N', _cp(cs[0]))
            define('usage_date_header', 'list N', _cp(cs[1]))
            define('usage_none_name', 'list N', _cp(cs[2]))
        hdr_cols = []
        cell_cols = []
        border = None
        for n in ast.walk(ur):
            if (isinstance(n, ast.Call) and isinstance(n.func, ast.Attribute) and n.func.attr == 'new_cell'
                    and len(n.args) == 2 and isinstance(n.args[1], ast.Name) and n.args[1].id in colors):
                hdr_cols.append((n.lineno, colors[n.args[1].id]))
            if (isinstance(n, ast.Assign) and isinstance(n.targets[0], ast.Name) and n.targets[0].id == 'color'
                    and isinstance(n.value, ast.Name) and n.value.id in colors):
                cell_cols.append((n.lineno, colors[n.value.id]))
            if (isinstance(n, ast.Call) and isinstance(n.func, ast.Attribute) and n.func.attr == 'text_repr'
                    and len(n.args) == 1 and isinstance(n.args[0], ast.Constant)):
                border = n.args[0].value
        hdr_cols = [c for _, c in sorted(hdr_cols)]
        cell_cols = [c for _, c in sorted(cell_cols)]
        if need(len(hdr_cols) == 2 and hdr_cols[0] == hdr_cols[1], 'ResourceUsageReport.__repr__: header colours not found'):
            define('usage_header_color', 'list N', _cp(hdr_cols[0]))
        if need(len(cell_cols) == 3, 'ResourceUsageReport.__repr__: the three cell colours not found'):
            define('usage_zero_color', 'list N', _cp(cell_cols[0]))
            define('usage_full_color', 'list N', _cp(cell_cols[1]))
            define('usage_part_color', 'list N', _cp(cell_cols[2]))
        need(border is True, 'ResourceUsageReport.__repr__: text_repr(True) not found')

    return '\n'.join(out) + '\n', problems
