"""Constants of the CSV layer (pjplan/io/csv_io.py, names reserved by class Task), read with `ast`.

Emitted as code point lists (list N).  Fail closed: every constant that cannot be located is a
problem; a definition is still emitted (empty) so that the development keeps compiling and the
lemmas that depend on the constant fail instead.  Besides the constants, the shape of the calls that
fix the dialect is checked: csv.reader/csv.writer take only `delimiter=delimiter`, both files are
opened with newline='\\n', every strftime/strptime uses __DATE_FORMAT."""
import ast
import os


def cps(s):
    return '[' + '; '.join(str(ord(c)) for c in s) + ']%N'


def show(s):
    """printable rendering for the comment (no quotes, no comment terminators)"""
    return ''.join(c if (32 <= ord(c) < 127 and c not in '"*()') else '<U+%04X>' % ord(c) for c in s)


def _func(tree, name):
    for node in tree.body:
        if isinstance(node, ast.FunctionDef) and node.name == name:
            return node
    return None


def _module_const(tree, name):
    for node in tree.body:
        if isinstance(node, ast.Assign) and len(node.targets) == 1 and isinstance(node.targets[0], ast.Name) \
                and node.targets[0].id == name:
            return node.value
    return None


def _str(node):
    return node.value if isinstance(node, ast.Constant) and isinstance(node.value, str) else None


def _default(fn, arg):
    args = fn.args
    pos = args.posonlyargs + args.args
    for a, d in zip(pos[len(pos) - len(args.defaults):], args.defaults):
        if a.arg == arg:
            return d
    for a, d in zip(args.kwonlyargs, args.kw_defaults):
        if a.arg == arg:
            return d
    return None


def _method_calls(fn, attr):
    """all calls `<expr>.<attr>(...)` inside fn"""
    return [n for n in ast.walk(fn) if isinstance(n, ast.Call) and isinstance(n.func, ast.Attribute) and n.func.attr == attr]


def _name_calls(fn, name):
    return [n for n in ast.walk(fn) if isinstance(n, ast.Call) and isinstance(n.func, ast.Name) and n.func.id == name]


def values(repo):
    """(dict of the extracted constants, problems): fields, date_format, delimiter_write, delimiter_read, pred_sep_write,
    pred_sep_read, header_strip, bool_true, task_reserved - None for what could not be located.  Used by emit() for
    gen/Consts.v and by harness/props/c13.py for the files it derives (the same extraction, on every run)."""
    problems = []
    with open(os.path.join(repo, 'src/pjplan/io/csv_io.py'), encoding='utf-8') as f:
        tree = ast.parse(f.read())
    with open(os.path.join(repo, 'src/pjplan/task.py'), encoding='utf-8') as f:
        task_tree = ast.parse(f.read())

    vals = {}

    # header
    node = _module_const(tree, '__DEFAULT_FIELDS')
    fields = None
    if isinstance(node, ast.List) and all(_str(e) is not None for e in node.elts):
        fields = [_str(e) for e in node.elts]
    else:
        problems.append('__DEFAULT_FIELDS is not a list of string literals')
    # date format
    fmt = _str(_module_const(tree, '__DATE_FORMAT'))
    if fmt is None:
        problems.append('__DATE_FORMAT is not a string literal')

    rd = _func(tree, 'read_csv')
    wr = _func(tree, 'write_csv')
    if rd is None or wr is None:
        problems.append('read_csv / write_csv not found')
    delim_r = delim_w = None
    if rd is not None and wr is not None:
        delim_r = _str(_default(rd, 'delimiter'))
        delim_w = _str(_default(wr, 'delimiter'))
        if delim_r is None or delim_w is None:
            problems.append('default delimiter of read_csv/write_csv is not a string literal')
        enc_r, enc_w = _str(_default(rd, 'encoding')), _str(_default(wr, 'encoding'))
        if enc_r is None or enc_r != enc_w or enc_r.lower().replace('_', '-') != 'utf-8':
            problems.append('default encodings of read_csv/write_csv are not both utf-8: %r %r' % (enc_r, enc_w))
        # dialect: csv.reader(f, delimiter=delimiter) / csv.writer(f, delimiter=delimiter) and nothing else
        for fn, attr in ((rd, 'reader'), (wr, 'writer')):
            calls = [c for c in _method_calls(fn, attr) if isinstance(c.func.value, ast.Name) and c.func.value.id == 'csv']
            if len(calls) != 1:
                problems.append('%s: expected exactly one csv.%s call' % (fn.name, attr))
                continue
            c = calls[0]
            kws = {k.arg: k.value for k in c.keywords}
            if len(c.args) != 1 or set(kws) != {'delimiter'} or not (isinstance(kws['delimiter'], ast.Name) and kws['delimiter'].id == 'delimiter'):
                problems.append('%s: csv.%s is not called as csv.%s(file, delimiter=delimiter): the dialect differs from the model'
                                % (fn.name, attr, attr))
        # files opened with newline='\n'
        for fn, mode in ((rd, 'r'), (wr, 'w')):
            calls = _name_calls(fn, 'open')
            if len(calls) != 1:
                problems.append('%s: expected exactly one open() call' % fn.name)
                continue
            kws = {k.arg: k.value for k in calls[0].keywords}
            if _str(kws.get('newline')) != '\n':
                problems.append("%s: file is not opened with newline='\\n'" % fn.name)
            if _str(kws.get('mode')) != mode:
                problems.append('%s: file is not opened with mode=%r' % (fn.name, mode))
            if not (isinstance(kws.get('encoding'), ast.Name) and kws['encoding'].id == 'encoding'):
                problems.append('%s: file is not opened with encoding=encoding' % fn.name)

    # every strftime / strptime uses __DATE_FORMAT
    for node in ast.walk(tree):
        if isinstance(node, ast.Call) and isinstance(node.func, ast.Attribute) and node.func.attr in ('strftime', 'strptime'):
            a = node.args[-1] if node.args else None
            if not (isinstance(a, ast.Name) and a.id == '__DATE_FORMAT'):
                problems.append('line %d: %s is not called with __DATE_FORMAT' % (node.lineno, node.func.attr))

    # predecessor separator on both sides
    join_w = split_r = None
    if wr is not None:
        js = [c for c in _method_calls(wr, 'join') if _str(c.func.value) is not None]
        if len(js) == 1:
            join_w = _str(js[0].func.value)
        else:
            problems.append('write_csv: expected exactly one "<literal>".join(...)')
    pp = _func(tree, '__parse_predecessors')
    if pp is not None:
        ss = [c for c in _method_calls(pp, 'split') if len(c.args) == 1 and _str(c.args[0]) is not None]
        if len(ss) == 1:
            split_r = _str(ss[0].args[0])
        else:
            problems.append('__parse_predecessors: expected exactly one .split(<literal>)')
    else:
        problems.append('__parse_predecessors not found')

    # characters removed from header cells
    strip = None
    ph = _func(tree, '__parse_header')
    if ph is not None:
        rs = [c for c in _method_calls(ph, 'replace') if len(c.args) == 2 and _str(c.args[0]) is not None and _str(c.args[1]) == '']
        if len(rs) == 1 and len(_str(rs[0].args[0])) == 1:
            strip = _str(rs[0].args[0])
        else:
            problems.append("__parse_header: expected exactly one .replace(<one character>, '')")
    else:
        problems.append('__parse_header not found')

    # boolean literal compared on read
    true_r = None
    pb = _func(tree, '__parse_bool')
    if pb is not None:
        cmps = [n for n in ast.walk(pb) if isinstance(n, ast.Compare) and len(n.ops) == 1 and isinstance(n.ops[0], ast.Eq)
                and _str(n.comparators[0]) is not None]
        if len(cmps) == 1:
            true_r = _str(cmps[0].comparators[0])
        else:
            problems.append('__parse_bool: expected exactly one comparison with a string literal')
    else:
        problems.append('__parse_bool not found')

    # names an instance of Task already has (raws_to_wbs copies a column only if its name is not in dir(task)):
    # methods and properties of the class, public attributes assigned in __init__
    reserved = None
    for node in task_tree.body:
        if isinstance(node, ast.ClassDef) and node.name == 'Task':
            names = []
            has_min_start = False
            for f in node.body:
                if isinstance(f, ast.FunctionDef):
                    if not f.name.startswith('_') and f.name not in names:
                        names.append(f.name)
                    if f.name == '__init__':
                        has_min_start = any(a.arg == 'min_start' for a in f.args.args + f.args.kwonlyargs)
                        for n in ast.walk(f):
                            if isinstance(n, ast.Attribute) and isinstance(n.ctx, ast.Store) and isinstance(n.value, ast.Name) \
                                    and n.value.id == 'self' and not n.attr.startswith('_') and n.attr not in names:
                                names.append(n.attr)
            reserved = sorted(names)
            if not has_min_start:
                problems.append('Task.__init__ has no min_start parameter')
    if reserved is None:
        problems.append('class Task not found')

    vals.update(fields=fields, date_format=fmt, delimiter_write=delim_w, delimiter_read=delim_r, pred_sep_write=join_w,
                pred_sep_read=split_r, header_strip=strip, bool_true=true_r, task_reserved=reserved)
    return vals, problems


def emit(repo):
    vals, problems = values(repo)
    fields, fmt, delim_w, delim_r = vals['fields'], vals['date_format'], vals['delimiter_write'], vals['delimiter_read']
    join_w, split_r, strip, true_r, reserved = (vals['pred_sep_write'], vals['pred_sep_read'], vals['header_strip'],
                                                vals['bool_true'], vals['task_reserved'])

    def text_def(name, s, what):
        return '(* %s: %s *)\nDefinition %s : list N := %s.\n' % (what, show(s or ''), name, cps(s or ''))

    def list_def(name, ss, what):
        ss = ss or []
        return '(* %s: %s *)\nDefinition %s : list (list N) :=\n  [ %s ].\n' % (
            what, ' '.join(show(s) for s in ss), name, ';\n    '.join(cps(s) for s in ss)) if ss else \
            '(* %s *)\nDefinition %s : list (list N) := [].\n' % (what, name)

    out = [
        list_def('csv_default_fields', fields, 'csv_io.__DEFAULT_FIELDS'),
        text_def('csv_date_format', fmt, 'csv_io.__DATE_FORMAT'),
        text_def('csv_delimiter_write', delim_w, 'default delimiter of write_csv'),
        text_def('csv_delimiter_read', delim_r, 'default delimiter of read_csv'),
        text_def('csv_pred_sep_write', join_w, 'separator of predecessor ids, write side'),
        text_def('csv_pred_sep_read', split_r, 'separator of predecessor ids, read side'),
        text_def('csv_header_strip', strip, 'character removed from header cells'),
        text_def('csv_bool_true', true_r, 'the text read as True'),
        list_def('csv_task_reserved', reserved, 'public names an instance of Task has (dir)'),
    ]
    return '\n'.join(out), problems
