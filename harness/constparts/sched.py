"""Search horizons of the schedulers and of the availability search, read with `ast`."""
import ast
import os


def _defaults(fn):
    """name -> default value node for the keyword/positional defaults of a FunctionDef."""
    args = fn.args
    res = {}
    pos = args.posonlyargs + args.args
    for a, d in zip(pos[len(pos) - len(args.defaults):], args.defaults):
        res[a.arg] = d
    for a, d in zip(args.kwonlyargs, args.kw_defaults):
        if d is not None:
            res[a.arg] = d
    return res


def _find_method(tree, cls, name_suffix):
    for node in ast.walk(tree):
        if isinstance(node, ast.ClassDef) and node.name == cls:
            for f in node.body:
                if isinstance(f, ast.FunctionDef) and f.name.endswith(name_suffix):
                    return f
    return None


def _int_default(tree, cls, meth, arg, problems):
    f = _find_method(tree, cls, meth)
    if f is None:
        problems.append('method %s.%s not found' % (cls, meth))
        return None
    d = _defaults(f).get(arg)
    if not (isinstance(d, ast.Constant) and isinstance(d.value, int) and not isinstance(d.value, bool)):
        problems.append('default of %s.%s(%s) is not an int literal' % (cls, meth, arg))
        return None
    return d.value


def emit(repo):
    problems = []
    with open(os.path.join(repo, 'src/pjplan/schedule.py'), encoding='utf-8') as f:
        sched = ast.parse(f.read())
    with open(os.path.join(repo, 'src/pjplan/resource.py'), encoding='utf-8') as f:
        res = ast.parse(f.read())
    vals = {
        'fwd_nearest_steps': _int_default(sched, 'ForwardScheduler', '__get_resource_nearest_available_date', 'max_steps', problems),
        'fwd_fill_steps': _int_default(sched, 'ForwardScheduler', '__shift_by_resource_usage_and_calendar', 'max_steps', problems),
        'bwd_nearest_steps': _int_default(sched, 'BackwardScheduler', '__get_resource_nearest_available_date', 'max_steps', problems),
        'bwd_fill_steps': _int_default(sched, 'BackwardScheduler', '__shift_by_resource_usage_and_calendar', 'max_steps', problems),
        'search_max_days': _int_default(res, 'IResource', 'get_nearest_availability_date', 'max_days', problems),
    }
    out = []
    for k, v in vals.items():
        if v is not None:
            out.append('Definition %s : Z := %d.' % (k, v))
    return '\n'.join(out) + '\n', problems
