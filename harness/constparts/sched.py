"""Search horizons of the schedulers and of the availability search, and the default calendar of a resource
that was not supplied (C03: `Resource(name)` -> `DEFAULT_CALENDAR`), read with `ast`."""
import ast
import os


def _defaults(fn):
    """name -> default value node for the keyword/positional defaults of a FunctionDef."""
    args = fn.args
    res = {}
    pos = args.posonlyargs + args.args
    for a, d in zip(pos[len(pos) - len(args.defaults):], args.defaults):
        res[a.arg] = d
    for a, d in zip(args.kwonlyargs, args.kw_defaults):
        if d is not None:
            res[a.arg] = d
    return res


def _find_method(tree, cls, name_suffix):
    for node in ast.walk(tree):
        if isinstance(node, ast.ClassDef) and node.name == cls:
            for f in node.body:
                if isinstance(f, ast.FunctionDef) and f.name.endswith(name_suffix):
                    return f
    return None


def _int_default(tree, cls, meth, arg, problems):
    f = _find_method(tree, cls, meth)
    if f is None:
        problems.append('method %s.%s not found' % (cls, meth))
        return None
    d = _defaults(f).get(arg)
    if not (isinstance(d, ast.Constant) and isinstance(d.value, int) and not isinstance(d.value, bool)):
        problems.append('default of %s.%s(%s) is not an int literal' % (cls, meth, arg))
        return None
    return d.value


# ---------- C03: the calendar of a resource that was not supplied ------------------------------------
def _is_int(node):
    return isinstance(node, ast.Constant) and isinstance(node.value, int) and not isinstance(node.value, bool)


def _module_bindings(tree, name):
    """every statement of the module (at any depth) that can bind or change `name`"""
    hits = []
    for node in ast.walk(tree):
        targets = []
        if isinstance(node, ast.Assign):
            targets = node.targets
        elif isinstance(node, (ast.AugAssign, ast.AnnAssign)):
            targets = [node.target]
        elif isinstance(node, (ast.Import, ast.ImportFrom)):
            if any((a.asname or a.name.split('.')[0]) == name for a in node.names):
                hits.append(node)
            continue
        elif isinstance(node, (ast.FunctionDef, ast.ClassDef)) and node.name == name:
            hits.append(node)
            continue
        elif isinstance(node, (ast.Global, ast.Nonlocal)) and name in node.names:
            hits.append(node)
            continue
        elif isinstance(node, ast.Delete):
            targets = node.targets
        elif isinstance(node, (ast.For, ast.AsyncFor)):
            targets = [node.target]
        elif isinstance(node, (ast.With, ast.AsyncWith)):
            targets = [i.optional_vars for i in node.items if i.optional_vars is not None]
        elif isinstance(node, ast.NamedExpr):
            targets = [node.target]
        for t in targets:
            for n in ast.walk(t):
                if isinstance(n, ast.Name) and n.id == name:
                    hits.append(node)
                # DEFAULT_CALENDAR.x = ... / setattr-like mutation through an attribute or subscript target
                if isinstance(n, (ast.Attribute, ast.Subscript)) and isinstance(n.value, ast.Name) and n.value.id == name:
                    hits.append(node)
    return hits


def _default_calendar(repo, sched, res, problems):
    """`default_weekdays : list Z`, `default_units : Z`: the arguments of
    `DEFAULT_CALENDAR = WeeklyCalendar(days=[...], units_per_day=n)` in calendar.py, provided that this is the calendar
    a `Resource(name)` gets and that the schedulers create missing resources exactly so.  Every deviation from the
    expected shape of the source is a problem and the constants are NOT emitted (the build of Props_C03 then fails)."""
    n0 = len(problems)
    with open(os.path.join(repo, 'src/pjplan/calendar.py'), encoding='utf-8') as f:
        cal = ast.parse(f.read())
    with open(os.path.join(repo, 'src/pjplan/__init__.py'), encoding='utf-8') as f:
        init = ast.parse(f.read())

    # 1. calendar.py: exactly one binding of DEFAULT_CALENDAR, at module level, of the expected shape
    days = units = None
    binds = _module_bindings(cal, 'DEFAULT_CALENDAR')
    top = [n for n in cal.body if isinstance(n, ast.Assign) and len(n.targets) == 1
           and isinstance(n.targets[0], ast.Name) and n.targets[0].id == 'DEFAULT_CALENDAR']
    if len(binds) != 1 or len(top) != 1 or binds[0] is not top[0]:
        problems.append('calendar.py: DEFAULT_CALENDAR is not bound exactly once, by a plain module-level assignment')
    else:
        call = top[0].value
        if not (isinstance(call, ast.Call) and isinstance(call.func, ast.Name) and call.func.id == 'WeeklyCalendar'
                and not call.args):
            problems.append('calendar.py: DEFAULT_CALENDAR is not a WeeklyCalendar(...) call with keyword arguments only')
        else:
            kws = {}
            for k in call.keywords:
                if k.arg is None or k.arg in kws:
                    problems.append('calendar.py: DEFAULT_CALENDAR has a ** or repeated keyword argument')
                kws[k.arg] = k.value
            for k, v in kws.items():
                if k in ('start', 'end'):
                    if not (isinstance(v, ast.Constant) and v.value is None):
                        problems.append('calendar.py: DEFAULT_CALENDAR has a validity bound (%s)' % k)
                elif k not in ('days', 'units_per_day'):
                    problems.append('calendar.py: DEFAULT_CALENDAR has an unexpected argument %r' % k)
            d = kws.get('days')
            if not (isinstance(d, ast.List) and all(_is_int(e) and 0 <= e.value <= 6 for e in d.elts)):
                problems.append('calendar.py: days of DEFAULT_CALENDAR is not a list of int literals 0..6')
            else:
                days = [e.value for e in d.elts]
            u = kws.get('units_per_day')
            if not (_is_int(u) and u.value >= 0):
                problems.append('calendar.py: units_per_day of DEFAULT_CALENDAR is not a non-negative int literal')
            else:
                units = u.value
    # the class the call names is the one defined in calendar.py (defined once, never rebound)
    wk = _module_bindings(cal, 'WeeklyCalendar')
    if not (len(wk) == 1 and isinstance(wk[0], ast.ClassDef) and wk[0] in cal.body):
        problems.append('calendar.py: WeeklyCalendar is not defined exactly once as a module-level class')

    # 2. pjplan/__init__.py re-exports it from pjplan.calendar, resource.py takes it from pjplan
    def imported_from(tree, modules, name, where):
        b = _module_bindings(tree, name)
        ok = (len(b) == 1 and isinstance(b[0], ast.ImportFrom) and b[0] in tree.body
              and (('.' * b[0].level) + (b[0].module or '')) in modules
              and any(a.name == name and a.asname in (None, name) for a in b[0].names))
        if not ok:
            problems.append('%s: %s is not bound exactly once by `from %s import %s`' % (where, name, modules[0], name))
    imported_from(init, ('pjplan.calendar', '.calendar'), 'DEFAULT_CALENDAR', 'pjplan/__init__.py')
    imported_from(res, ('pjplan', 'pjplan.calendar', '.calendar'), 'DEFAULT_CALENDAR', 'resource.py')

    # 3. Resource.__init__(self, name, calendar=DEFAULT_CALENDAR) stores the calendar as it is
    f = _find_method(res, 'Resource', '__init__')
    if f is None or f.name != '__init__':
        problems.append('resource.py: Resource.__init__ not found')
    else:
        names = [a.arg for a in f.args.posonlyargs + f.args.args]
        d = _defaults(f).get('calendar')
        if names[:3] != ['self', 'name', 'calendar'] or not (isinstance(d, ast.Name) and d.id == 'DEFAULT_CALENDAR'):
            problems.append('resource.py: Resource.__init__ is not (self, name, calendar=DEFAULT_CALENDAR)')
        stores = [n for n in ast.walk(f) if isinstance(n, ast.Assign) and len(n.targets) == 1
                  and isinstance(n.targets[0], ast.Attribute) and isinstance(n.targets[0].value, ast.Name)
                  and n.targets[0].value.id == 'self' and n.targets[0].attr == 'calendar']
        if not (len(stores) == 1 and isinstance(stores[0].value, ast.Name) and stores[0].value.id == 'calendar'):
            problems.append('resource.py: Resource.__init__ does not store its calendar argument as self.calendar')

    # 4. both schedulers create a missing resource as Resource(<task>.resource): one positional argument, no calendar
    for cls in ('ForwardScheduler', 'BackwardScheduler'):
        node = next((n for n in ast.walk(sched) if isinstance(n, ast.ClassDef) and n.name == cls), None)
        calls = [] if node is None else [c for c in ast.walk(node) if isinstance(c, ast.Call)
                                          and isinstance(c.func, ast.Name) and c.func.id == 'Resource']
        if not calls:
            problems.append('schedule.py: %s creates no Resource(...)' % cls)
        for c in calls:
            if len(c.args) != 1 or c.keywords:
                problems.append('schedule.py: %s creates a resource with other arguments than its name (line %d)' % (cls, c.lineno))
    b = _module_bindings(sched, 'Resource')
    if not (len(b) == 1 and isinstance(b[0], ast.ImportFrom) and (b[0].module or '') in ('pjplan', 'pjplan.resource')):
        problems.append('schedule.py: Resource is not bound exactly once by an import from pjplan')

    if len(problems) > n0 or days is None or units is None:
        return []
    return ['(* calendar.DEFAULT_CALENDAR = WeeklyCalendar(days=%r, units_per_day=%r): the calendar of Resource(name) *)' % (days, units),
            'Definition default_weekdays : list Z := [%s].' % '; '.join(str(d) for d in days),
            'Definition default_units : Z := %d.' % units]


def emit(repo):
    problems = []
    with open(os.path.join(repo, 'src/pjplan/schedule.py'), encoding='utf-8') as f:
        sched = ast.parse(f.read())
    with open(os.path.join(repo, 'src/pjplan/resource.py'), encoding='utf-8') as f:
        res = ast.parse(f.read())
    vals = {
        'fwd_nearest_steps': _int_default(sched, 'ForwardScheduler', '__get_resource_nearest_available_date', 'max_steps', problems),
        'fwd_fill_steps': _int_default(sched, 'ForwardScheduler', '__shift_by_resource_usage_and_calendar', 'max_steps', problems),
        'bwd_nearest_steps': _int_default(sched, 'BackwardScheduler', '__get_resource_nearest_available_date', 'max_steps', problems),
        'bwd_fill_steps': _int_default(sched, 'BackwardScheduler', '__shift_by_resource_usage_and_calendar', 'max_steps', problems),
        'search_max_days': _int_default(res, 'IResource', 'get_nearest_availability_date', 'max_days', problems),
    }
    out = []
    for k, v in vals.items():
        if v is not None:
            out.append('Definition %s : Z := %d.' % (k, v))
    out += _default_calendar(repo, sched, res, problems)
    return '\n'.join(out) + '\n', problems
