"""The keyword-suffix chain of _ImmutableTaskList.__call__ (order of the elif tests and how many
characters each branch strips) and the attribute names __get_task_attribute treats specially,
read from pjplan/task.py with `ast`.  Query/QueryProofs.v proves that the model's table equals them."""
import ast
import os


def _codepoints(s):
    return '[' + '; '.join(str(ord(c)) for c in s) + ']%N'


def _method(cls, suffix):
    for f in cls.body:
        if isinstance(f, ast.FunctionDef) and f.name.endswith(suffix):
            return f
    return None


def _endswith_literal(test, var):
    """`<var>.endswith("lit")` -> lit"""
    if (isinstance(test, ast.Call) and isinstance(test.func, ast.Attribute) and test.func.attr == 'endswith'
            and isinstance(test.func.value, ast.Name) and test.func.value.id == var and len(test.args) == 1
            and isinstance(test.args[0], ast.Constant) and isinstance(test.args[0].value, str)):
        return test.args[0].value
    return None


def _strip_len(stmt, var):
    """`<var> = <var>[0:-n]` -> n"""
    if not (isinstance(stmt, ast.Assign) and len(stmt.targets) == 1 and isinstance(stmt.targets[0], ast.Name)
            and stmt.targets[0].id == var and isinstance(stmt.value, ast.Subscript)
            and isinstance(stmt.value.value, ast.Name) and stmt.value.value.id == var):
        return None
    sl = stmt.value.slice
    if not isinstance(sl, ast.Slice) or sl.step is not None:
        return None
    lo, hi = sl.lower, sl.upper
    if lo is not None and not (isinstance(lo, ast.Constant) and lo.value == 0):
        return None
    if isinstance(hi, ast.UnaryOp) and isinstance(hi.op, ast.USub) and isinstance(hi.operand, ast.Constant) \
            and isinstance(hi.operand.value, int):
        return hi.operand.value
    return None


def emit(repo):
    problems = []
    out = []
    with open(os.path.join(repo, 'src/pjplan/task.py'), encoding='utf-8') as f:
        tree = ast.parse(f.read())
    cls = next((n for n in ast.walk(tree) if isinstance(n, ast.ClassDef) and n.name == '_ImmutableTaskList'), None)
    if cls is None:
        return '', ['class _ImmutableTaskList not found']

    # ---- suffix chain ----
    call = _method(cls, '__call__')
    search = None
    if call is not None:
        search = next((n for n in ast.walk(call) if isinstance(n, ast.FunctionDef) and n.name == 'search'), None)
    chain = None
    if search is None:
        problems.append('_ImmutableTaskList.__call__.search not found')
    else:
        loop = next((n for n in search.body if isinstance(n, ast.For)), None)
        if loop is None or not (isinstance(loop.target, ast.Tuple) and len(loop.target.elts) == 2
                                and isinstance(loop.target.elts[0], ast.Name)):
            problems.append('search(): the loop over the keywords was not found')
        elif len(loop.body) != 1 or not isinstance(loop.body[0], ast.If):
            problems.append('search(): the loop body is not a single if/elif chain')
        else:
            var = loop.target.elts[0].id
            chain = []
            node = loop.body[0]
            while True:
                lit = _endswith_literal(node.test, var)
                if lit is None:
                    break          # the final branch: plain equality
                n = _strip_len(node.body[0], var) if node.body else None
                if n is None:
                    problems.append('search(): branch %r does not start with `%s = %s[0:-n]`' % (lit, var, var))
                    chain = None
                    break
                chain.append((lit, n))
                if len(node.orelse) == 1 and isinstance(node.orelse[0], ast.If):
                    node = node.orelse[0]
                else:
                    problems.append('search(): the chain does not end with a plain-equality branch')
                    chain = None
                    break
            if chain is not None and node.orelse:
                problems.append('search(): unexpected else after the plain-equality branch')
                chain = None
    if chain is not None:
        out.append('Definition query_suffix_chain : list (list N * nat) :=\n  [ '
                   + '\n  ; '.join('(%s, %d%%nat)  (* %s *)' % (_codepoints(s), n, s) for s, n in chain) + '\n  ].')

    # ---- attribute names with a lookup of their own ----
    ga = _method(cls, '__get_task_attribute')
    if ga is None:
        problems.append('_ImmutableTaskList.__get_task_attribute not found')
    else:
        arg = ga.args.args[-1].arg
        names = []
        ok = True
        for st in ga.body:
            if isinstance(st, ast.If) and isinstance(st.test, ast.Compare) and len(st.test.ops) == 1 \
                    and isinstance(st.test.left, ast.Name) and st.test.left.id == arg:
                c = st.test.comparators[0]
                if isinstance(st.test.ops[0], ast.Eq) and isinstance(c, ast.Constant) and isinstance(c.value, str):
                    names.append(c.value)
                elif isinstance(st.test.ops[0], ast.In) and isinstance(c, (ast.Tuple, ast.List, ast.Set)) \
                        and all(isinstance(e, ast.Constant) and isinstance(e.value, str) for e in c.elts):
                    names += [e.value for e in c.elts]
                else:
                    ok = False
            elif isinstance(st, ast.Return):
                pass
            elif isinstance(st, ast.Expr) and isinstance(st.value, ast.Constant):
                pass   # docstring
            else:
                ok = False
        if not ok:
            problems.append('__get_task_attribute has a shape the extractor does not know')
        else:
            out.append('Definition query_special_attrs : list (list N) :=\n  [ '
                       + '\n  ; '.join('%s  (* %s *)' % (_codepoints(s), s) for s in names) + '\n  ].')
    return '\n'.join(out) + '\n', problems
