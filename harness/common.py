"""Shared machinery of every check: context object, Coq evaluation of generated case files,
running the implementation in a fresh subprocess, evidence and replay files, decision."""
import concurrent.futures
import json
import os
import random
import re
import subprocess
import sys
import time

from harness import build

VERIF = build.VERIF
COQ = build.COQ
GEN = build.GEN
OUT = os.path.join(VERIF, 'out')
EVIDENCE = os.path.join(VERIF, 'evidence')
KNOWN = os.path.join(VERIF, 'known_findings.json')
PY = '/venv/bin/python'

ALLOWED_AXIOMS = {
    # axioms declared by the Coq standard library that the development is allowed to use;
    # every one that actually shows up is copied into the evidence file.
    'functional_extensionality_dep', 'proof_irrelevance', 'classic', 'JMeq_eq', 'Eqdep.Eq_rect_eq.eq_rect_eq',
    'eq_rect_eq', 'propositional_extensionality', 'ClassicalDedekindReals.sig_forall_dec',
    'ClassicalDedekindReals.sig_not_dec', 'constructive_indefinite_description', 'excluded_middle_informative',
}

TRUSTED_BASE = [
    'Coq 8.16.1 kernel (coqc), vm_compute; no native_compute',
    'hand-written Gallina model of the anchored code (tie = differential correspondence on this run, see coverage)',
    'harness: case generators, implementation runner, Python->Gallina term printer, constants extractor (gen/Consts.v)',
    'source translator harness/srcgen/pylite.py (+ specs cal.py, sched.py, fill.py, graph.py): where the cone of the statement file '
    'contains a gen/Src*.v file, the theorems named *_src_* are about Gallina text translated from the current source on this run; '
    'the translator and its conventions (DESIGN section 5) are trusted',
    'CPython 3.12 and its stdlib (datetime, csv, json, html, re) are modelled, not verified',
]


class InfraError(Exception):
    pass


def z(n):
    n = int(n)
    return '(%d)' % n if n < 0 else '%d' % n


def zopt(n):
    return 'None' if n is None else '(Some %s)' % z(n)


def coq_bool(b):
    return 'true' if b else 'false'


def coq_list(items):
    return '[' + '; '.join(items) + ']'


def coq_opt(x, f=lambda s: s):
    return 'None' if x is None else '(Some %s)' % f(x)


def coq_string(s):
    """Coq string literal for ASCII printable text (others must go through code point lists)."""
    assert all(32 <= ord(c) < 127 for c in s), s
    return '"' + s.replace('"', '""') + '"'


def codepoints(s):
    """A text as list of code points (list N)."""
    return '[' + '; '.join(str(ord(c)) for c in s) + ']%N'


class Ctx:
    def __init__(self, pid, tier, seed):
        self.pid = pid
        self.tier = tier
        self.seed = seed
        self.repo = build.repo_path()
        self.rng = random.Random('%s/%d' % (pid, seed))
        self.t0 = time.time()
        self.coverage = {}
        self.assumptions = []
        self.mismatches = []     # correspondence disagreements without a property failure
        self.failures = []       # concrete inputs on which the property fails on the implementation
        self.known_hits = []
        self.infra = []          # things that prevented the check from establishing the tie / proof
        self.proof = {'ok': False, 'obligations': 0, 'discharged': 0, 'axioms': [], 'theorems': [], 'files': []}
        self.known = load_known(pid)
        os.makedirs(GEN, exist_ok=True)
        os.makedirs(OUT, exist_ok=True)

    # ---------- implementation side -------------------------------------------------------
    def impl_run(self, module, payload, timeout=900):
        """Run harness.impl.<module> in a fresh interpreter with the repository on PYTHONPATH.
        The payload goes in as JSON on stdin, the result comes back as JSON on stdout."""
        env = dict(os.environ)
        env['PYTHONPATH'] = os.path.join(self.repo, 'src') + os.pathsep + VERIF
        env['PYTHONHASHSEED'] = '0'
        env['PYTHONDONTWRITEBYTECODE'] = '1'
        env.setdefault('PJPLAN_VERIF', '1')
        r = subprocess.run([PY, '-m', 'harness.impl.' + module], input=json.dumps(payload), text=True,
                           capture_output=True, env=env, timeout=timeout, cwd=VERIF)
        if r.returncode != 0:
            raise InfraError('implementation runner %s failed (exit %d): %s' % (module, r.returncode, r.stderr[-3000:]))
        try:
            return json.loads(r.stdout)
        except json.JSONDecodeError as e:
            raise InfraError('implementation runner %s wrote no JSON: %r / %s' % (module, e, r.stdout[-500:] + r.stderr[-2000:]))

    def impl_run_many(self, module, payloads, jobs=8, timeout=900):
        if not payloads:
            return []
        with concurrent.futures.ThreadPoolExecutor(max_workers=jobs) as ex:
            return list(ex.map(lambda p: self.impl_run(module, p, timeout), payloads))

    # ---------- model side ---------------------------------------------------------------------
    def coq_run(self, stem, text, timeout=900):
        """Compile gen/<stem>.v; returns (ok, output)."""
        stem = '%s_p%d' % (stem, os.getpid())      # concurrent checks of one property must not share files
        path = os.path.join(GEN, stem + '.v')
        with open(path, 'w', encoding='utf-8') as f:
            f.write(text)
        r = subprocess.run('ulimit -s unlimited 2>/dev/null; exec timeout %d coqc -w none -Q . PJ gen/%s.v' % (timeout, stem),
                           shell=True, cwd=COQ, capture_output=True, text=True)
        for ext in ('.vo', '.vok', '.vos', '.glob'):
            try:
                os.remove(os.path.join(GEN, stem + ext))
            except FileNotFoundError:
                pass
        try:
            os.remove(os.path.join(GEN, '.' + stem + '.aux'))
        except FileNotFoundError:
            pass
        if r.returncode == 0:
            # the generated case file is kept only when Coq rejected it (for the post-mortem); a replay writes it again
            try:
                os.remove(path)
            except FileNotFoundError:
                pass
        return r.returncode == 0, r.stdout + r.stderr

    def coq_codes(self, stem, header, case_type, case_terms, checker, shard=300, jobs=12, timeout=900):
        """Evaluate `map checker cases` with vm_compute over shards; returns the list of nat codes."""
        if not case_terms:
            return []
        shards = [case_terms[i:i + shard] for i in range(0, len(case_terms), shard)]

        def one(ix):
            body = (header + '\nDefinition cases : list (%s) :=\n [ ' % case_type
                    + '\n ; '.join(shards[ix]) + '\n ].\n'
                    + 'Eval vm_compute in (List.map (%s) cases).\n' % checker)
            ok, out = self.coq_run('%s_%s_%d' % (stem, self.pid, ix), body, timeout)
            for _ in range(3):
                if ok or 'inconsistent assumptions' not in out:
                    break
                # another check rebuilt a library in between (concurrent runs): rebuild our targets, retry
                build.regenerate_consts()
                build.make(8, targets=getattr(self, 'targets', None))
                ok, out = self.coq_run('%s_%s_%d' % (stem, self.pid, ix), body, timeout)
            if not ok:
                raise InfraError('coqc failed on generated cases %s shard %d: %s' % (stem, ix, out[-3000:]))
            return parse_nat_list(out)

        with concurrent.futures.ThreadPoolExecutor(max_workers=jobs) as ex:
            res = list(ex.map(one, range(len(shards))))
        codes = [c for r in res for c in r]
        if len(codes) != len(case_terms):
            raise InfraError('coq returned %d codes for %d cases' % (len(codes), len(case_terms)))
        return codes

    def coq_show(self, stem, header, expr, timeout=300):
        """Evaluate one expression and return Coq's printed answer (for replay files)."""
        ok, out = self.coq_run('%s_%s_show' % (stem, self.pid), header + '\nEval vm_compute in (%s).\n' % expr, timeout)
        return out.strip()

    # ---------- results -----------------------------------------------------------------------
    def failure(self, signature, what, case):
        """A concrete input on which the property fails on the implementation."""
        entry = {'signature': signature, 'what': what, 'case': case}
        for k in self.known:
            if k.get('status') == 'known' and k.get('signature') == signature:
                self.known_hits.append((k, entry))
                return
        self.failures.append(entry)

    def mismatch(self, what, case):
        """Model and implementation disagree (no property failure shown for this case)."""
        self.mismatches.append({'what': what, 'case': case})

    def infra_problem(self, what):
        self.infra.append(what)


def parse_nat_list(out):
    m = re.search(r'=\s*\[(.*?)\]\s*:\s*list\s+nat', out, re.S)
    if not m:
        if re.search(r'=\s*nil\s*:\s*list\s+nat', out):
            return []
        raise InfraError('cannot parse coq output: ' + out[-2000:])
    body = m.group(1).strip()
    if not body:
        return []
    return [int(x.replace('%nat', '')) for x in re.split(r'\s*;\s*', body)]


def load_known(pid):
    try:
        with open(KNOWN, encoding='utf-8') as f:
            data = json.load(f)
    except FileNotFoundError:
        return []
    return [k for k in data.get('findings', []) if k.get('property') == pid]


# ---------- proof side ---------------------------------------------------------------------------

def check_proofs(ctx, props_rel, jobs=16, extra_targets=(), const_parts=None):
    """Regenerate Consts.v, build, re-compile the statement file to capture Print Assumptions,
    count obligations in the dependency cone.  Fills ctx.proof."""
    problems = build.regenerate_consts()
    for p in problems:
        # only the constants this property's theorems/checker depend on matter to it
        if const_parts is None or p.split(':')[0] in const_parts:
            ctx.infra_problem('constants extractor: ' + p)
    ctx.targets = [props_rel + 'o'] + list(extra_targets)
    ok, log = build.make(jobs, targets=ctx.targets)
    relevant = [p for p in problems if const_parts is None or p.split(':')[0] in const_parts]
    if ok and not problems and 'PJPLAN_REPO' not in os.environ:
        # remembered for the day the constants / translated definitions can no longer be produced (see below)
        build.save_good()
    fallback_log = None
    if not ok or relevant:
        # The constants could not be extracted from the source as it is now, the source could not be translated, or
        # the development does not build with what was generated: the proof obligation is BROKEN (reported below).
        # The search for a concrete failing input goes on with the model built from the generated files of the last
        # run that had no such problem.
        replaced = build.restore_good()
        if replaced:
            ok2, log2 = build.make(jobs, targets=ctx.targets)
            ctx.fallback_consts = ok2
            fallback_log = log
            if not ok2:
                for f, text in replaced.items():
                    if text is not None:
                        build.write_if_changed(os.path.join(GEN, f), text)
    cone = build.dep_cone(props_rel)
    hits = build.forbidden_scan(cone)
    names = []
    obligations = 0
    discharged = 0
    open_files = []
    for rel in cone:
        ns, qeds = build.statements_in(rel)
        if len(ns) != qeds:
            ctx.infra_problem('%s: %d statements but %d Qed/Defined' % (rel, len(ns), qeds))
        obligations += len(ns)
        if build.vo_up_to_date(rel):
            discharged += min(len(ns), qeds)
        else:
            open_files.append(rel)
        if rel == os.path.normpath(props_rel):
            names = ns
    ctx.proof.update(obligations=obligations, discharged=discharged, theorems=names, files=cone)
    if not ok:
        m = re.findall(r'File "\./([^"]+)", line (\d+)[^\n]*\n(?:[^\n]*\n){0,6}', log)
        ctx.proof['ok'] = False
        ctx.proof['error'] = 'make failed: ' + (log[-1500:])
        if getattr(ctx, 'fallback_consts', False):
            ctx.proof['error'] += '\n(the search for a failing input continues with the constants of the last good build)'
        ctx.proof['broken_files'] = sorted(set(x[0] for x in m)) or open_files
        return
    if getattr(ctx, 'fallback_consts', False):
        ctx.proof['ok'] = False
        ctx.proof['error'] = ('constants could not be extracted from the source / the source could not be translated / the '
                              'generated definitions do not fit the proofs: %s; the search for a failing input continues with '
                              'the generated files of the last good build' % ('; '.join(relevant or problems) or log[-1500:]))
        ctx.proof['broken_files'] = ['gen/' + f for f in build.GEN_FILES]
        return
    if hits:
        ctx.proof['ok'] = False
        ctx.proof['error'] = 'forbidden constructs: ' + '; '.join('%s:%d:%s' % h for h in hits)
        return
    # fresh compile of the statement file to capture Print Assumptions
    tmpd = os.path.join(GEN, 'pa_%s_p%d' % (ctx.pid, os.getpid()))
    os.makedirs(tmpd, exist_ok=True)
    r = subprocess.run(['timeout', '600', 'coqc', '-w', 'none', '-Q', '.', 'PJ', '-o',
                        os.path.join(tmpd, os.path.basename(props_rel) + 'o'), props_rel],
                       cwd=COQ, capture_output=True, text=True)
    import shutil
    shutil.rmtree(tmpd, ignore_errors=True)
    if r.returncode != 0:
        ctx.proof['ok'] = False
        ctx.proof['error'] = 'coqc %s failed: %s' % (props_rel, (r.stdout + r.stderr)[-1500:])
        ctx.proof['broken_files'] = [props_rel]
        return
    out = r.stdout
    axioms = set()
    closed = len(re.findall(r'Closed under the global context', out))
    for m in re.finditer(r'^Axioms:\n((?:.+\n?)+?)(?=^\S|\Z)', out, re.M):
        pass
    # every line of the form "name : type" after an "Axioms:" header
    in_ax = False
    for line in out.split('\n'):
        if line.startswith('Axioms:'):
            in_ax = True
            continue
        if in_ax:
            m = re.match(r'^([A-Za-z_][\w\.\']*)\s*:', line)
            if m:
                axioms.add(m.group(1))
            elif line.strip() == '' or not line.startswith(' '):
                if line.startswith('Closed under'):
                    in_ax = False
    n_pa = closed + len(re.findall(r'^Axioms:', out, re.M))
    ctx.proof['axioms'] = sorted(axioms)
    ctx.proof['print_assumptions'] = {'closed': closed, 'with_axioms': n_pa - closed}
    bad = [a for a in axioms if a.split('.')[-1] not in {x.split('.')[-1] for x in ALLOWED_AXIOMS}
           and not re.match(r'^(PrimFloat|Uint63|PrimInt63|PrimArray|PArray|Sint63)\b', a)]
    if bad:
        ctx.proof['ok'] = False
        ctx.proof['error'] = 'unexpected axioms: ' + ', '.join(bad)
        return
    if n_pa < len(names):
        ctx.proof['ok'] = False
        ctx.proof['error'] = 'statement file has %d theorems but %d Print Assumptions' % (len(names), n_pa)
        return
    ctx.proof['ok'] = obligations > 0 and discharged == obligations and not relevant
    if relevant:
        ctx.proof['error'] = ('the generated files could not be produced from the source as it is now (%s): the theorems that '
                              'depend on them are not re-checked against this code' % '; '.join(relevant))
        ctx.proof['broken_files'] = ['gen/' + f for f in build.GEN_FILES]


# ---------- decision -----------------------------------------------------------------------------

def finish(ctx, level_text=None):
    wall = time.time() - ctx.t0
    cov = dict(ctx.coverage)
    cov.setdefault('evaluations', 0)
    cov.setdefault('distinct_nontrivial', 0)
    cov.setdefault('rule', '')
    cov.setdefault('samples', [])
    cov['obligations'] = ctx.proof['obligations']
    cov['discharged'] = ctx.proof['discharged']
    cov['checker_cmd'] = 'cd /verif/coq && make (coqc 8.16.1, full .vo build) && coqc Props/Props_%s.v (Print Assumptions)' % ctx.pid
    cov['trusted_base'] = TRUSTED_BASE + ctx.assumptions
    cov['theorems'] = ctx.proof['theorems']
    cov['axioms_reported_by_Print_Assumptions'] = ctx.proof['axioms']
    cov['print_assumptions'] = ctx.proof.get('print_assumptions')
    cov['proof_files'] = ctx.proof['files']
    cov['source_text_tie'] = {
        'generated_from_source_on_this_run': [f for f in ctx.proof['files'] if f.startswith('gen/Src')],
        'theorems_about_translated_source': [t for t in ctx.proof['theorems'] if '_src_' in t],
    }
    if not ctx.proof['ok']:
        cov['proof_error'] = ctx.proof.get('error')
    cov['correspondence_mismatches'] = len(ctx.mismatches)
    cov['known_findings_hit'] = len(ctx.known_hits)
    cov['infra_problems'] = ctx.infra

    lines = []
    violations = 0
    seen_known = set()
    for k, entry in ctx.known_hits:
        if k['signature'] not in seen_known:
            seen_known.add(k['signature'])
            lines.append('KNOWN-FINDING: property=%s %s' % (ctx.pid, k.get('what', k['signature'])))
    replay_dir = os.path.join(OUT, 'replays')
    os.makedirs(replay_dir, exist_ok=True)
    if ctx.failures:
        violations = len(ctx.failures)
        f = ctx.failures[0]
        path = os.path.join(replay_dir, '%s-seed%d-failing-input.json' % (ctx.pid, ctx.seed))
        with open(path, 'w', encoding='utf-8') as fh:
            json.dump({'property': ctx.pid, 'seed': ctx.seed, 'tier': ctx.tier, 'kind': 'failing-input',
                       'what': f['what'], 'signature': f['signature'], 'case': f['case'],
                       'other_failures': [x['what'] for x in ctx.failures[1:20]],
                       'replay_cmd': './check %s --replay %s' % (ctx.pid, path)}, fh, indent=1, default=str)
        lines.append('VIOLATION property=%s replay=%s' % (ctx.pid, path))
    elif (not ctx.proof['ok']) or ctx.mismatches or ctx.infra:
        violations = 1
        path = os.path.join(replay_dir, '%s-seed%d-unchecked.json' % (ctx.pid, ctx.seed))
        broken = []
        if not ctx.proof['ok']:
            broken.append({'theorems_no_longer_checked': ctx.proof['theorems'],
                           'files': ctx.proof.get('broken_files'), 'error': ctx.proof.get('error')})
        if ctx.mismatches:
            broken.append({'correspondence_no_longer_checks': [m['what'] for m in ctx.mismatches[:20]],
                           'first_case': ctx.mismatches[0]['case']})
        if ctx.infra:
            broken.append({'tie_could_not_be_established': ctx.infra[:10]})
        with open(path, 'w', encoding='utf-8') as fh:
            json.dump({'property': ctx.pid, 'seed': ctx.seed, 'tier': ctx.tier, 'kind': 'no-failing-input-found',
                       'broken': broken,
                       'note': 'model/proof/correspondence no longer checks; the search over corpus and generated '
                               'cases found no input on which the property itself fails'}, fh, indent=1, default=str)
        lines.append('VIOLATION property=%s replay=%s no-failing-input-found' % (ctx.pid, path))

    ev = {
        'property_id': ctx.pid,
        'tier': ctx.tier,
        'seed': ctx.seed,
        'level': 'proof',
        'coverage': cov,
        'assumptions': ctx.assumptions,
        'wall_s': round(wall, 2),
        'violations': violations,
    }
    os.makedirs(EVIDENCE, exist_ok=True)
    with open(os.path.join(EVIDENCE, ctx.pid + '.json'), 'w', encoding='utf-8') as fh:
        json.dump(ev, fh, indent=1, default=str)
        fh.write('\n')
    for ln in lines:
        print(ln)
    print('%s %s seed=%d: proof %s (%d/%d obligations), %d cases, %d distinct non-trivial, %d mismatches, %d failures, %.1fs'
          % (ctx.pid, ctx.tier, ctx.seed, 'ok' if ctx.proof['ok'] else 'BROKEN', ctx.proof['discharged'],
             ctx.proof['obligations'], cov['evaluations'], cov['distinct_nontrivial'], len(ctx.mismatches),
             len(ctx.failures), wall))
    sys.stdout.flush()
    return 1 if violations else 0
