"""gen/SrcFill.v: the usage ledger and the four day-by-day primitives of the schedulers of src/pjplan/schedule.py
(`_ResourceUsage.__get_key/.reserve/.reserved`, `ForwardScheduler.__get_resource_nearest_available_date`,
`ForwardScheduler.__shift_by_resource_usage_and_calendar` and their BackwardScheduler twins), translated on every run from
the source text (harness/srcgen/pylite.py) over exact rational amounts (Coq's Q).  coq/Sched/SrcFillEquiv.v proves the
translated functions equal to fwd_nearest / fwd_shift / bwd_nearest / bwd_shift of Sched/Model.v for all inputs."""
import ast
import os

from harness.srcgen import pylite

OPS = {'add': 'Qplus', 'sub': 'Qminus', 'mul': 'Qmult', 'zero': '0%Q', 'ltb': 'qltb', 'is0': 'qis0', 'divide': 'qdivide',
       'min': 'qmin', 'of_int': 'inject_Z', 'hours_us': 'hours_us'}

HEADER = '''(* GENERATED on every run by harness/srcgen (pylite.py, fill.py) from the source text of
   src/pjplan/schedule.py - do not edit.  Amounts are exact rationals; datetimes integer microseconds; a usage row is the
   record the code appends (resource and task are object identities - numbers here).
   Conventions of the translator (trusted, DESIGN section 5): `a / b` raises ZeroDivisionError when b == 0;
   `min(a, b)` is b when b < a, else a; `timedelta(hours=h)` is the whole number of microseconds in h hours
   (floor; Python rounds to the nearest microsecond - the equivalence theorems are used where the value is a whole
   number anyway, see DESIGN 3.1); `resource.reserve(...)` of the base class does nothing. *)
From Coq Require Import QArith Qround.
From PJ Require Import Base.Prelude.
Open Scope Z_scope.

Notation num := Q (only parsing).
Definition qltb (a b : Q) : bool := match Qcompare a b with Lt => true | _ => false end.
Definition qis0 (a : Q) : bool := Qeq_bool a 0.
Definition qdivide (a b : Q) : res Q := if qis0 b then Crash ZeroDivisionError else Ok (Qdiv a b).
Definition qmin (a b : Q) : Q := if qltb b a then b else a.
Definition hours_us (h : Q) : Z := Qfloor (Qmult h (inject_Z 3600000000)).

Record qrow := { q_res : nat; q_date : Z; q_task : nat; q_units : Q }.

'''

ROW = ('rec', 'qrow')
ROWS = ('list', ROW)
NEAREST = ('fun', ['Z', 'Z'], 'Z', True)        # resource.get_nearest_availability_date(start, direction)
GAU = ('fun', ['Z', ('option', 'nat')], 'num', True)     # resource.get_available_units(date, task): both arguments are passed on


def reserved_call(tr, e, env, k):
    """resource_usage.reserved(resource, date[, task]) -> src_qreserved rows resource date None / (Some task)"""
    if e.keywords or len(e.args) not in (2, 3):
        raise pylite.Unsupported('reserved(...) with %d arguments' % len(e.args))
    rows = env['resource_usage'][0]
    types = ['nat', 'Z'] + (['nat'] if len(e.args) == 3 else [])

    def done(atoms):
        opt = 'None' if len(atoms) == 2 else '(Some %s)' % atoms[2]
        v = tr.fresh('r')
        return '(do %s <- src_qreserved %s %s %s %s; %s)' % (v, rows, atoms[0], atoms[1], opt, k(v, 'num'))
    return tr.args(list(e.args), types, env, done)


def primitive(cls, func, coq, fwd):
    sp = dict(file='schedule.py', cls=cls, func=func, coq_name=coq,
              fields={'self._%s__balance_resources' % cls: ('balance', 'bool'), 'self.__balance_resources': ('balance', 'bool')},
              params={'resource': ('resource', 'nat'), 'resource_usage': ('resource_usage', ROWS), 'start_date': ('start_date', 'Z'),
                      'task': ('task', 'nat'), 'max_steps': ('max_steps', 'Z')},
              signature=[('balance', 'bool'), ('nearest', NEAREST), ('gau', GAU), ('resource', 'nat'),
                         ('resource_usage', ROWS), ('start_date', 'Z'), ('task', 'nat')],
              calls={'resource.get_nearest_availability_date': ('apply', 'nearest', NEAREST, [0, 1]),
                     'resource.get_available_units': ('apply', 'gau', GAU, [0, 1]),
                     'resource_usage.reserved': ('custom', reserved_call)},
              locals={'d': 'Z', 'date': 'Z', 'days': 'Z', 'left_hours': 'num', 'date_available_units': 'num',
                      'reserved': 'num', 'available': 'num', 'max_available': 'num', 'percent': 'num', 'resource_usage': ROWS})
    return sp


def nearest_spec(cls, coq, max_steps):
    sp = primitive(cls, '__get_resource_nearest_available_date', coq, cls.startswith('F'))
    sp['signature'] = sp['signature'] + [('max_steps', 'Z')]
    sp['ret'] = 'Z'
    return sp


def shift_spec(cls, coq):
    sp = primitive(cls, '__shift_by_resource_usage_and_calendar', coq, cls.startswith('F'))
    sp['params']['left_hours'] = ('left_hours', 'num')
    sp['signature'] = sp['signature'] + [('left_hours', 'num'), ('max_steps', 'Z')]
    sp['ret'] = 'Z'
    sp['state'] = 'resource_usage'
    sp['mutators'] = {'resource_usage.reserve': ('resource_usage', 'src_qreserve', ['nat', 'Z', 'nat', 'num'], 'num')}
    # `while left_hours > 0` ends by itself or by the raise after max_steps + 1 rounds
    sp['while_fuel'] = '(S (S (Z.to_nat max_steps)))'
    return sp


SPECS = [
    dict(file='schedule.py', cls='_ResourceUsage', func='__get_key', coq_name='src_qkey',
         params={'date': ('date', 'Z')}, signature=[('date', 'Z')], ret='Z'),
    dict(file='schedule.py', cls='_ResourceUsage', func='reserve', coq_name='src_qreserve',
         state='rows', state_fields={'self.rows': ('rows', 'rows', ROWS)},
         params={'resource': ('resource', 'nat'), 'date': ('date', 'Z'), 'task': ('task', 'nat'), 'units': ('units', 'num')},
         signature=[('rows', ROWS), ('resource', 'nat'), ('date', 'Z'), ('task', 'nat'), ('units', 'num')], ret='num',
         appends={'self.rows.append': ('rows', ROW)}, ignored_calls=('resource.reserve',),
         calls={'self.__get_key': ('apply', 'src_qkey', ('fun', ['Z'], 'Z', True), [0]),
                'ResourceUsageRow': ('apply', 'Build_qrow', ('fun', ['nat', 'Z', 'nat', 'num'], ROW, False), [0, 1, 2, 3])}),
    dict(file='schedule.py', cls='_ResourceUsage', func='reserved', coq_name='src_qreserved',
         fields={'self.rows': ('rows', ROWS)},
         params={'resource': ('resource', 'nat'), 'date': ('date', 'Z'), 'task': ('task', ('option', 'nat'))},
         defaults={'task': 'None'},
         signature=[('rows', ROWS), ('resource', 'nat'), ('date', 'Z'), ('task', ('option', 'nat'))],
         ret='num', locals={'units': ('list', 'num')},
         attrs={'units': ('q_units', ROW, 'num'), 'resource': ('q_res', ROW, 'nat'), 'date': ('q_date', ROW, 'Z'),
                'task': ('q_task', ROW, 'nat')},
         calls={'self.__get_key': ('apply', 'src_qkey_pure', ('fun', ['Z'], 'Z', False), [0])}),
    nearest_spec('ForwardScheduler', 'src_fwd_nearest', '100000'),
    shift_spec('ForwardScheduler', 'src_fwd_shift'),
    nearest_spec('BackwardScheduler', 'src_bwd_nearest', '1000'),
    shift_spec('BackwardScheduler', 'src_bwd_shift'),
]

MIDDLE = '''
Definition src_qkey_pure (date : Z) : Z := match src_qkey date with Ok k => k | _ => 0 end.

'''


def emit(repo):
    texts = [HEADER]
    problems = []
    path = os.path.join(repo, 'src', 'pjplan', 'schedule.py')
    try:
        with open(path, encoding='utf-8') as f:
            src = f.read()
    except OSError as e:
        return '', ['schedule.py: %s' % e]
    for i, sp in enumerate(SPECS):
        try:
            texts.append('(* schedule.py: %s.%s *)\n' % (sp['cls'], sp['func']))
            texts.append(pylite.translate(src, sp, OPS) + '\n')
            if i == 0:
                texts.append(MIDDLE)
        except (pylite.Unsupported, SyntaxError) as e:
            problems.append('schedule.py %s.%s: %s' % (sp.get('cls'), sp['func'], e))
    return ''.join(texts), problems


if __name__ == '__main__':
    import sys
    t, p = emit(sys.argv[1] if len(sys.argv) > 1 else '/repo')
    print(t)
    print(p, file=sys.stderr)
