"""gen/SrcGraph.v: the read-only walks of the task graph in src/pjplan/task.py (`_find_root`, `_collect_subtree`,
`_unique_tasks`, `Task.__get_all_children`, `Task.__get_all_predecessors`, `Task.__get_all_successors` with their nested
generators), translated on every run from the source text (harness/srcgen/pylite.py) over the heap of Graph/Model.v.
coq/Graph/SrcGraphEquiv.v proves them equal to the walks of the hand-written model (`rootof`, `pref`, `closf`, `dedup`)."""
import os

from harness.srcgen import pylite

OPS = {'zero': '0', 'fold': 'src_fold_res', 'list_get': 'src_list_get', 'list_index': 'src_list_index',
       'list_insert': 'src_list_insert'}

HEADER = '''(* GENERATED on every run by harness/srcgen (pylite.py, graph.py) from the source text of src/pjplan/task.py - do not
   edit.  A Task object is its number in the heap of Graph/Model.v; `t.__children`, `t.children`, `t.predecessors`,
   `t.successors`, `t._Task__parent` read the heap ([kids], [preds], [succs], [par]); `id(t)` is the number itself; a
   `set()` of object identities is a list; a generator is the list of what it yields; a function that calls itself
   recurses on explicit fuel and raises RecursionError when the fuel is used up (conventions: DESIGN section 5). *)
From PJ Require Import Base.Prelude Graph.Model.

Definition EMPTY_ID : Z := 9223372036854775807.     (* sys.maxsize: the id of the hidden root task of a WBS *)

Fixpoint src_fold_res {S A : Type} (f : S -> A -> res S) (l : list A) (s : S) : res S :=
  match l with
  | [] => Ok s
  | a :: r => do s' <- f s a; src_fold_res f r s'
  end.

(* Python's list operations used by the list facades: lst[i] (negative from the end, IndexError outside),
   lst.index(x) (ValueError when absent), lst.insert(i, x) (the position is clipped to the list) *)
Definition src_list_get {A : Type} (l : list A) (i : Z) : res A :=
  let n := Z.of_nat (length l) in
  let j := if i <? 0 then n + i else i in
  if (0 <=? j) && (j <? n) then match nth_error l (Z.to_nat j) with Some x => Ok x | None => Crash IndexError end
  else Crash IndexError.

Fixpoint src_index_from (l : list obj) (x : obj) (k : Z) : res Z :=
  match l with
  | [] => Crash ValueError
  | y :: r => if Nat.eqb y x then Ok k else src_index_from r x (k + 1)
  end.
Definition src_list_index (l : list obj) (x : obj) : res Z := src_index_from l x 0.

(* outcome of a function translated with `raise` as a value (the _x definitions): what it returned, or that it raised
   RuntimeError / another exception through an explicit raise statement - the heap beside it is the heap at that moment *)
Inductive xout (A : Type) := XRet (a : A) | XErr | XRaise (k : crash_kind).
Arguments XRet {A} a.
Arguments XErr {A}.
Arguments XRaise {A} k.

Definition src_list_insert (i : Z) (x : obj) (l : list obj) : list obj :=
  let n := Z.of_nat (length l) in
  let j := if i <? 0 then Z.max 0 (n + i) else Z.min i n in
  firstn (Z.to_nat j) l ++ x :: skipn (Z.to_nat j) l.

'''

OBJS = ('list', 'obj')
ATTRS = {'_Task__parent': ('par', ('option', 'obj')), '__parent': ('par', ('option', 'obj')),
         '__children': ('kids', OBJS), 'children': ('kids', OBJS),
         '__predecessors': ('preds', OBJS), 'predecessors': ('preds', OBJS),
         '__successors': ('succs', OBJS), 'successors': ('succs', OBJS)}


def walker(outer, inner, coq):
    """the nested generator `inner(t)` of Task.`outer`: yields each neighbour followed by its own walk"""
    return dict(file='task.py', cls='Task', func=inner, nested_in=outer, coq_name=coq, heap='h', obj_attrs=ATTRS,
                params={'t': ('t', 'obj')}, signature=[('h', 'heap'), ('t', 'obj')], ret=OBJS,
                generator=True, recursive=True, loops='fold', self_calls=(inner,),
                self_type=('fun', ['obj'], OBJS, True))


def closure(outer, inner, coq_inner, coq, unique):
    calls = {inner: ('apply', '%s fuel h' % coq_inner, ('fun', ['obj'], OBJS, True), [0])}
    if unique:
        calls['_unique_tasks'] = ('apply', 'src_unique_tasks', ('fun', [OBJS], OBJS, True), [0])
    return dict(file='task.py', cls='Task', func=outer, coq_name=coq, heap='h', obj_attrs=ATTRS, nested_defs=(inner,),
                params={'self': ('self', 'obj')}, signature=[('fuel', 'nat'), ('h', 'heap'), ('self', 'obj')], ret=OBJS,
                calls=calls)


SPECS = [
    dict(file='task.py', cls=None, func='_find_root', coq_name='src_find_root', heap='h', obj_attrs=ATTRS,
         params={'task': ('task', 'obj')}, signature=[('h', 'heap'), ('task', 'obj')], ret='obj',
         locals={'task': 'obj'}, while_fuel='(S (length h))'),
    dict(file='task.py', cls=None, func='_collect_subtree', coq_name='src_collect_subtree', heap='h', obj_attrs=ATTRS,
         params={'task': ('task', 'obj')}, signature=[('h', 'heap'), ('task', 'obj')], ret=OBJS,
         locals={'res': OBJS}, recursive=True, loops='fold', self_calls=('_collect_subtree',),
         self_type=('fun', ['obj'], OBJS, True)),
    dict(file='task.py', cls=None, func='_unique_tasks', coq_name='src_unique_tasks', heap='h', obj_attrs=ATTRS,
         params={'tasks': ('tasks', OBJS)}, signature=[('tasks', OBJS)], ret=OBJS,
         locals={'m': OBJS, 'res': OBJS}),
    walker('__get_all_children', 'get_children', 'src_get_children'),
    closure('__get_all_children', 'get_children', 'src_get_children', 'src_all_children', False),
    walker('__get_all_predecessors', 'get_predecessor', 'src_get_predecessor'),
    closure('__get_all_predecessors', 'get_predecessor', 'src_get_predecessor', 'src_all_predecessors', True),
    walker('__get_all_successors', 'get_successor', 'src_get_successor'),
    closure('__get_all_successors', 'get_successor', 'src_get_successor', 'src_all_successors', True),
]


NAMES = {'EMPTY_TASK_ID': ('EMPTY_ID', 'Z')}
ATTRS_ID = dict(ATTRS, id=('tid', 'Z'))
PARENT_PROP = {'parent': ('src_parent h', ('option', 'obj'), True)}

SPECS += [
    # Task.parent (the getter): the raw parent with the hidden WBS root masked
    dict(file='task.py', cls='Task', func='parent', decorator='property', coq_name='src_parent', heap='h', obj_attrs=ATTRS_ID,
         names=NAMES, params={'self': ('self', 'obj')}, signature=[('h', 'heap'), ('self', 'obj')], ret=('option', 'obj')),
    # Task.__get_all_parents: the public parents, nearest first
    dict(file='task.py', cls='Task', func='get_parent', nested_in='__get_all_parents', coq_name='src_get_parent', heap='h',
         obj_attrs=ATTRS_ID, obj_props=PARENT_PROP, names=NAMES,
         params={'t': ('t', ('option', 'obj'))}, signature=[('h', 'heap'), ('t', ('option', 'obj'))], ret=OBJS,
         generator=True, recursive=True, loops='fold', self_calls=('get_parent',),
         self_type=('fun', [('option', 'obj')], OBJS, True)),
    dict(file='task.py', cls='Task', func='__get_all_parents', coq_name='src_all_parents', heap='h', obj_attrs=ATTRS_ID,
         nested_defs=('get_parent',), params={'self': ('self', 'obj')},
         signature=[('fuel', 'nat'), ('h', 'heap'), ('self', 'obj')], ret=OBJS,
         calls={'get_parent': ('apply', 'src_get_parent fuel h', ('fun', [('option', 'obj')], OBJS, True), [0])}),
    # Task.__check_no_links_with(new_parent): no task of the subtree is linked with the future parent chain
    dict(file='task.py', cls='Task', func='__check_no_links_with', coq_name='src_check_no_links_with', heap='h', obj_attrs=ATTRS_ID,
         obj_props={'all_parents': ('src_all_parents fuel h', OBJS, True)},
         params={'self': ('self', 'obj'), 'new_parent': ('new_parent', 'obj')},
         signature=[('fuel', 'nat'), ('h', 'heap'), ('self', 'obj'), ('new_parent', 'obj')], ret='unit',
         locals={'parents_object_ids': OBJS}, loops='fold',
         calls={'self.__get_all_children': ('apply', 'src_all_children fuel h self', ('fun', [], OBJS, True), [])}),
    # _has_id_intersection(parent, children): ids of the incoming subtrees against the receiving tree and each other
    dict(file='task.py', cls=None, func='_has_id_intersection', coq_name='src_has_id_intersection', heap='h', obj_attrs=ATTRS_ID,
         params={'parent': ('parent', 'obj'), 'children': ('children', OBJS)},
         signature=[('fuel', 'nat'), ('h', 'heap'), ('parent', 'obj'), ('children', OBJS)], ret='bool',
         locals={'all_children_tasks': OBJS, 'new_tasks': OBJS, 'new_tasks_object_ids': OBJS},
         calls={'_find_root': ('apply', 'src_find_root h', ('fun', ['obj'], 'obj', True), [0]),
                '_collect_subtree': ('apply', 'src_collect_subtree fuel h', ('fun', ['obj'], OBJS, True), [0])}),
]


# ---- third tranche: functions that WRITE the heap --------------------------------------------------------------
WID = ('option', 'wid')
ATTRS_W = dict(ATTRS_ID)
ATTRS_W['__wbs'] = ('own', WID)
WRITES = {'__parent': 'with_par', '__wbs': 'with_own', '__children': 'with_kids'}
# which heap fields a translated method writes (checked against its own translation: spec key `writes`); a caller that
# loops over a heap list needs it to know that the list it walks stays as it is (pylite.live_iteration_guard)
OWNER_ONLY = {'_attach': ['__wbs'], '_detach': ['__wbs']}

SPECS += [
    # Task._attach(wbs) / Task._detach(): the owner of a whole subtree
    dict(file='task.py', cls='Task', func='_attach', coq_name='src_attach', heap='h', state='h', obj_attrs=ATTRS_W,
         obj_writes=WRITES, params={'self': ('self', 'obj'), 'wbs': ('wbs', WID), 'h': ('h', 'heap')},
         signature=[('h', 'heap'), ('self', 'obj'), ('wbs', WID)], ret='unit',
         recursive=True, loops='fold', method_mutators={'_attach': ('src_attach $F', [WID])},
         writes=['__wbs'], mutator_writes=OWNER_ONLY),
    dict(file='task.py', cls='Task', func='_detach', coq_name='src_detach', heap='h', state='h', obj_attrs=ATTRS_W,
         obj_writes=WRITES, params={'self': ('self', 'obj'), 'h': ('h', 'heap')},
         signature=[('h', 'heap'), ('self', 'obj')], ret='unit',
         recursive=True, loops='fold', method_mutators={'_detach': ('src_detach $F', [])},
         writes=['__wbs'], mutator_writes=OWNER_ONLY),
    # the setter of Task.parent: guards, then the writes on both ends of the hierarchy edge
    dict(file='task.py', cls='Task', func='parent', decorator='parent.setter', coq_name='src_set_parent', heap='h', state='h',
         joins=True, obj_attrs=ATTRS_W, obj_writes=WRITES,
         obj_props={'parent': ('src_parent $H', ('option', 'obj'), True),
                    'all_children': ('src_all_children fuel $H', OBJS, True)},
         params={'self': ('self', 'obj'), 'parent': ('parent', ('option', 'obj')), 'h': ('h', 'heap')},
         signature=[('fuel', 'nat'), ('wroots', OBJS), ('h', 'heap'), ('self', 'obj'), ('parent', ('option', 'obj'))],
         ret='unit', locals={'parent': ('option', 'obj')},
         method_mutators={'_attach': ('src_attach fuel', [WID])}, mutator_writes=OWNER_ONLY,
         calls={'_has_id_intersection': ('apply', 'src_has_id_intersection fuel $H', ('fun', ['obj', OBJS], 'bool', True), [0, 1]),
                'self.__check_no_links_with': ('apply', 'src_check_no_links_with fuel $H self', ('fun', ['obj'], 'unit', True), [0]),
                'self.__wbs._root': ('custom', None)}),
]


LOO = ('list', ('option', 'obj'))
ATTRS_W2 = dict(ATTRS_W)
WRITES2 = dict(WRITES)
WRITES2['__predecessors'] = 'with_preds'
WRITES2['__successors'] = 'with_succs'
ARG_CALLS = {'_to_list': ('apply', 'somes', ('fun', [LOO], OBJS, False), [0]),          # the argument: a list of tasks / None entries
             '_unique_tasks': ('apply', 'src_unique_tasks', ('fun', [OBJS], OBJS, True), [0])}


def links_setter(func, coq):
    return dict(file='task.py', cls='Task', func=func, decorator=func + '.setter', coq_name=coq, heap='h', state='h',
                obj_attrs=ATTRS_W2, obj_writes=WRITES2,
                obj_props={'all_parents': ('src_all_parents fuel $H', OBJS, True),
                           'all_children': ('src_all_children fuel $H', OBJS, True),
                           'all_predecessors': ('src_all_predecessors fuel $H', OBJS, True),
                           'all_successors': ('src_all_successors fuel $H', OBJS, True)},
                params={'self': ('self', 'obj'), 'value': ('value', LOO), 'h': ('h', 'heap')},
                signature=[('fuel', 'nat'), ('h', 'heap'), ('self', 'obj'), ('value', LOO)],
                ret='unit', locals={'value': OBJS, 'parents': OBJS, 'children': OBJS},
                calls=dict(ARG_CALLS), ignored_calls=('_check_no_nones_in_list',))


SPECS += [
    links_setter('predecessors', 'src_set_predecessors'),
    links_setter('successors', 'src_set_successors'),
    # the setter of Task.children
    dict(file='task.py', cls='Task', func='children', decorator='children.setter', coq_name='src_set_children', heap='h', state='h',
         obj_attrs=ATTRS_W2, obj_writes=WRITES2,
         obj_props={'all_children': ('src_all_children fuel $H', OBJS, True)},
         params={'self': ('self', 'obj'), 'value': ('value', LOO), 'h': ('h', 'heap')},
         signature=[('fuel', 'nat'), ('h', 'heap'), ('self', 'obj'), ('value', LOO)],
         ret='unit', locals={'value': OBJS}, joins=True,
         method_mutators={'_attach': ('src_attach fuel', [WID]), '_detach': ('src_detach fuel', [])}, mutator_writes=OWNER_ONLY,
         calls=dict(ARG_CALLS, **{'_has_id_intersection': ('apply', 'src_has_id_intersection fuel $H', ('fun', ['obj', OBJS], 'bool', True), [0, 1]),
                                  '.__check_no_links_with': ('recv_fn', 'src_check_no_links_with fuel $H', ('fun', ['obj', 'obj'], 'unit', True), [0])}),
         ignored_calls=('_check_no_nones_in_list',)),
]


# ---- sixth tranche: the list facades (task.children / wbs.roots, task.predecessors, task.successors) -----------------
# A facade is taken as it comes from the getter: its `_list` IS the private list of the owner task (ASSERTS below check
# that the getters and constructors say so and that indexing / iterating the facade goes to `_list`); the private lists
# are only ever rewritten in place (slice assignment), which is part of the translated setters.
OPT = ('option', 'obj')
NOT_NONE = {'_check_not_none': ('apply', 'src_check_not_none', ('fun', [OPT], 'unit', True), [0])}


def children_facade(func, coq, params, signature, ret, **more):
    sp = dict(file='task.py', cls='_ChildrenList', func=func, coq_name=coq, heap='h', state='h',
              obj_attrs=ATTRS_W2, obj_writes=WRITES2,
              fields={'self.__parent': ('o', 'obj'), 'self.__setter': ('tt', 'unit')},
              rewrite={'self._list': 'self.__parent.__children'}, self_is='self.__parent.__children',
              prop_setters={'parent': ('src_set_parent fuel wroots', OPT), 'children': ('src_set_children fuel', LOO)},
              params=dict(params, h=('h', 'heap')), signature=signature, ret=ret,
              calls=dict(NOT_NONE, **{'_to_list': ARG_CALLS['_to_list']}))
    sp.update(more)
    return sp


def links_facade(cls, field, prop, setter, func, coq, ret):
    return dict(file='task.py', cls=cls, func=func, coq_name=coq, heap='h', state='h',
                obj_attrs=ATTRS_W2, obj_writes=WRITES2, fields={'self.__parent': ('t', 'obj')},
                rewrite={'self._list': 'self.__parent.' + field}, self_is='self.__parent.' + field,
                prop_setters={prop: (setter + ' fuel', LOO)},
                params={'task': ('x', OPT), 'h': ('h', 'heap')},
                signature=[('fuel', 'nat'), ('h', 'heap'), ('t', 'obj'), ('x', OPT)], ret=ret, calls=dict(NOT_NONE))


FW = [('fuel', 'nat'), ('wroots', OBJS), ('h', 'heap'), ('o', 'obj')]
SPECS += [
    dict(file='task.py', cls=None, func='_check_not_none', coq_name='src_check_not_none',
         params={'obj': ('x', OPT)}, ignored_params=('name',), signature=[('x', OPT)], ret='unit'),
    # children.move(tasks, before=, after=): the private list of the owner, rewritten element by element
    children_facade('move', 'src_ch_move', {'tasks': ('tasks', LOO), 'before': ('before', OPT), 'after': ('after', OPT)},
                    [('h', 'heap'), ('o', 'obj'), ('tasks', LOO), ('before', OPT), ('after', OPT)], 'unit',
                    locals={'tasks': OBJS}, joins=True),
    children_facade('append', 'src_ch_append', {'task': ('task', OPT)}, FW + [('task', OPT)], 'unit'),
    children_facade('remove', 'src_ch_remove', {'task': ('task', OPT)}, FW + [('task', OPT)], 'bool'),
    children_facade('insert', 'src_ch_insert', {'index': ('index', 'Z'), 'task': ('task', OPT)},
                    FW + [('index', 'Z'), ('task', OPT)], 'unit',
                    self_mutators={'move': ('src_ch_move $H o', [('tasks', ('tasklike',)), ('before', OPT), ('after', OPT)])}),
    children_facade('reorder', 'src_ch_reorder', {'ids': ('ids', ('list', 'Z'))},
                    [('h', 'heap'), ('o', 'obj'), ('ids', ('list', 'Z'))], 'unit',
                    locals={'_all': OBJS, 'new_list': OBJS}),
    links_facade('_PredecessorsList', '__predecessors', 'predecessors', 'src_set_predecessors', 'append', 'src_pred_append', 'unit'),
    links_facade('_PredecessorsList', '__predecessors', 'predecessors', 'src_set_predecessors', 'remove', 'src_pred_remove', 'bool'),
    links_facade('_SuccessorsList', '__successors', 'successors', 'src_set_successors', 'append', 'src_succ_append', 'unit'),
    links_facade('_SuccessorsList', '__successors', 'successors', 'src_set_successors', 'remove', 'src_succ_remove', 'bool'),
]

# what the facade translation takes for granted, checked against the source text on every run: (class, function,
# decorator, the exact statements of the body after the docstring)
ASSERTS = [
    ('_ImmutableTaskList', '__init__', None, ['self._list = _list']),
    ('_ImmutableTaskList', '__iter__', None, ['return iter(self._list)']),
    ('_ImmutableTaskList', '__getitem__', None, ['return self._list.__getitem__(query)']),
    ('_TaskList', '__init__', None, ['super().__init__(_list)']),
    ('_ChildrenList', '__init__', None, ['super().__init__(_list)', 'self.__parent = parent', 'self.__setter = _setter']),
    ('_PredecessorsList', '__init__', None, ['super().__init__(_list)', 'self.__parent = parent']),
    ('_SuccessorsList', '__init__', None, ['super().__init__(_list)', 'self.__parent = parent']),
    ('Task', 'children', 'property', ['return _ChildrenList(self, self.__children, self.__set_children)']),
    ('Task', 'predecessors', 'property', ['return _PredecessorsList(self, self.__predecessors)']),
    ('Task', 'successors', 'property', ['return _SuccessorsList(self, self.__successors)']),
    # `facade + other` (what `t.children += other` evaluates before it calls the setter): the list, then the argument
    ('_ImmutableTaskList', '__add__', None, ['return self._list.__add__(_to_list(other))']),
]

# the thin wrappers of WBS around its hidden root task (wbs.py): the model takes them for what they say
WBS_ASSERTS = [
    ('WBS', '_root', None, ['return self.__root']),
    ('WBS', 'roots', 'property', ['return self.__root.children']),
    ('WBS', 'roots', 'roots.setter', ['self.__root.children = value']),
    ('WBS', 'tasks', 'property', ['return self.__root.all_children']),
    ('WBS', '__floordiv__', None, ['return self.__root // other']),
]


# ---- the operators  t // other,  t << other,  t >> other  (the facade's `+`, then the setter) ------------------------
def operator(func, prop, setter, coq):
    return dict(file='task.py', cls='Task', func=func, coq_name=coq, heap='h', state='h', obj_attrs=ATTRS_W2, obj_writes=WRITES2,
                prop_setters={prop: (setter + ' fuel', LOO)},
                params={'self': ('self', 'obj'), 'other': ('other', LOO), 'h': ('h', 'heap')},
                signature=[('fuel', 'nat'), ('h', 'heap'), ('self', 'obj'), ('other', LOO)], ret=LOO)


SPECS += [
    operator('__floordiv__', 'children', 'src_set_children', 'src_op_floordiv'),
    operator('__lshift__', 'predecessors', 'src_set_predecessors', 'src_op_lshift'),
    operator('__rshift__', 'successors', 'src_set_successors', 'src_op_rshift'),
]

# ---- the setter of Task.estimate (the amount of a task in the graph model: an integer or None) ------------------------------
SPECS += [
    dict(file='task.py', cls='Task', func='estimate', decorator='estimate.setter', coq_name='src_set_estimate', heap='h', state='h',
         obj_attrs=dict(ATTRS_W2, __estimate=('est', ('option', 'Z'))), obj_writes=dict(WRITES2, __estimate='with_est'),
         params={'self': ('self', 'obj'), 'value': ('value', ('option', 'Z')), 'h': ('h', 'heap')},
         signature=[('h', 'heap'), ('self', 'obj'), ('value', ('option', 'Z'))], ret='unit'),
]

# ---- WBS.__getitem__ (wbs.py): wbs[id] - the first member with that id in WBS order, RuntimeError when there is none ----
SPECS += [
    dict(file='wbs.py', cls='WBS', func='__getitem__', coq_name='src_wbs_getitem', heap='h', obj_attrs=ATTRS_ID,
         fields={'self.__root': ('root', 'obj')},
         obj_props={'all_children': ('src_all_children fuel h', OBJS, True)},
         params={'task_id': ('task_id', 'Z')},
         signature=[('fuel', 'nat'), ('h', 'heap'), ('root', 'obj'), ('task_id', 'Z')], ret='obj'),
]

# ---- the same thirteen writers once more, with `raise` as a value: `Ok (heap at the raise, None)` instead of `Err` --------
# (what a rejected call leaves behind: C15).  A call of a translated setter inside a facade goes to the setter's own
# variant; read-only callees that raise (`__check_no_links_with`, `_check_not_none`) reject with the heap of the statement.
def xvariant(sp):
    x = dict(sp)
    x['coq_name'] = sp['coq_name'] + '_x'
    x['raise_as_value'] = True
    for key in ('prop_setters', 'self_mutators'):
        if key in sp:
            x[key] = {k: (v[0].replace('src_set_parent', 'src_set_parent_x').replace('src_set_children', 'src_set_children_x')
                          .replace('src_set_predecessors', 'src_set_predecessors_x').replace('src_set_successors', 'src_set_successors_x')
                          .replace('src_ch_move', 'src_ch_move_x'),) + tuple(v[1:]) for k, v in sp[key].items()}
    return x


XNAMES = ('src_set_parent', 'src_set_predecessors', 'src_set_successors', 'src_set_children', 'src_ch_move', 'src_ch_append',
          'src_ch_remove', 'src_ch_insert', 'src_ch_reorder', 'src_pred_append', 'src_pred_remove', 'src_succ_append', 'src_succ_remove')
SPECS += [xvariant(sp) for name in XNAMES for sp in SPECS if sp['coq_name'] == name]


def check_asserts(src, asserts=None, fname='task.py'):
    import ast
    problems = []
    tree = ast.parse(src)
    for cls, func, deco, want in (ASSERTS if asserts is None else asserts):
        try:
            fn = pylite.find_function(tree, cls, func, None, deco)
        except pylite.Unsupported as e:
            problems.append('%s %s.%s: %s' % (fname, cls, func, e))
            continue
        body = [st for st in fn.body if not (isinstance(st, ast.Expr) and isinstance(st.value, ast.Constant) and isinstance(st.value.value, str))]
        got = [ast.unparse(st) for st in body]
        if got != want:
            problems.append('%s %s.%s: the translation assumes the body %r, the source says %r' % (fname, cls, func, want, got))
    return problems


def wbs_root(tr, e, env, k):
    """self.__wbs._root(): the hidden root task of the owner WBS (the owner is known to be set where this is called)"""
    def with_w(w, tw):
        if tw != 'wid':
            raise pylite.Unsupported('_root() of a %s' % (tw,))
        return k('(nth %s wroots O)' % w, 'obj')
    return tr.expr(e.func.value, env, with_w)


for _sp in SPECS:
    if _sp['coq_name'] in ('src_set_parent', 'src_set_parent_x'):
        _sp['calls']['self.__wbs._root'] = ('custom', wbs_root)


def emit(repo):
    texts = [HEADER]
    problems = []
    path = os.path.join(repo, 'src', 'pjplan', 'task.py')
    try:
        with open(path, encoding='utf-8') as f:
            src = f.read()
    except OSError as e:
        return '', ['task.py: %s' % e]
    problems += check_asserts(src)
    try:
        with open(os.path.join(repo, 'src', 'pjplan', 'wbs.py'), encoding='utf-8') as f:
            problems += check_asserts(f.read(), WBS_ASSERTS, 'wbs.py')
    except (OSError, SyntaxError) as e:
        problems.append('wbs.py: %s' % e)
    sources = {'task.py': src}
    for sp in SPECS:
        try:
            fname = sp.get('file', 'task.py')
            if fname not in sources:
                with open(os.path.join(repo, 'src', 'pjplan', fname), encoding='utf-8') as f:
                    sources[fname] = f.read()
            where = '%s%s%s' % ((sp['cls'] + '.') if sp.get('cls') else '', (sp['nested_in'] + '.') if sp.get('nested_in') else '', sp['func'])
            texts.append('(* %s: %s *)\n' % (fname, where))
            texts.append(pylite.translate(sources[fname], sp, OPS) + '\n')
        except (pylite.Unsupported, SyntaxError, OSError) as e:
            problems.append('%s %s.%s: %s' % (sp.get('file', 'task.py'), sp.get('cls'), sp['func'], e))
    return ''.join(texts), problems


if __name__ == '__main__':
    import sys
    t, p = emit(sys.argv[1] if len(sys.argv) > 1 else '/repo')
    print(t)
    print(p, file=sys.stderr)
